#!/usr/bin/env python3
"""Regenerate the seeded-change matrix in DESIGN.md (between the matrix markers) from /verif/seeded/*/meta.json and notes.md."""
import json, os, re
HERE = os.path.dirname(os.path.dirname(os.path.abspath(__file__)))
rows = []
for n in sorted(os.listdir(os.path.join(HERE, "seeded"))):
    d = os.path.join(HERE, "seeded", n)
    if not os.path.isdir(d):
        continue
    m = json.load(open(os.path.join(d, "meta.json")))
    files = sorted(set(re.findall(r"^\+\+\+ b/(\S+)", open(os.path.join(d, "patch.diff")).read(), re.M)))
    what = m.get("summary") or ""
    if not what and os.path.exists(os.path.join(d, "notes.md")):
        txt = open(os.path.join(d, "notes.md")).read()
        lines = [l.strip(" -*#") for l in txt.splitlines() if l.strip() and not l.startswith("```")]
        what = next((l for l in lines if len(l) > 30), lines[0] if lines else "")
    what = re.sub(r"\s+", " ", what)[:150].replace("|", "/")
    if m.get("expect") == "silent":
        verdict = "silent (neutralised by a later fix: no longer a violation)"
    elif m.get("detected_by"):
        verdict = ", ".join(m["detected_by"])
    else:
        verdict = "**not detected** (not decided by any rule)"
    rows.append(f"| {n} | {', '.join(os.path.basename(f) for f in files)} | {what} | {verdict} |")
missed = sum(1 for r in rows if r.rstrip(" |").endswith("**not detected** (not decided by any rule)"))
silent = sum(1 for r in rows if r.rstrip(" |").endswith("silent (neutralised by a later fix: no longer a violation)"))
caught = len(rows) - missed - silent
block = ["<!-- matrix:start -->", f"Seeded changes: {len(rows)}; detected {caught}; neutralised seeds silent {silent}; not detected {len(rows) - caught - silent}.", "",
         "| seed | file(s) changed | change (from the seeding agent's notes) | detected by |", "|---|---|---|---|", *rows, "<!-- matrix:end -->"]
p = os.path.join(HERE, "DESIGN.md")
s = open(p).read()
if "SEEDED_MATRIX_PLACEHOLDER" in s:
    s = s.replace("SEEDED_MATRIX_PLACEHOLDER", "\n".join(block))
else:
    s = re.sub(r"<!-- matrix:start -->.*?<!-- matrix:end -->", lambda _: "\n".join(block), s, flags=re.S)
open(p, "w").write(s)
print(f"{len(rows)} rows; detected {caught}; silent {silent}")
