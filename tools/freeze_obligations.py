#!/usr/bin/env python3
"""Freeze the must-prove set: keys of obligations PROVED on the reviewed tree, per rule (run by hand after review; never at check time)."""
import json, os, sys
HERE = os.path.dirname(os.path.dirname(os.path.abspath(__file__)))
sys.path.insert(0, HERE)
from sa.core import Ctx
from sa import oblig

RULE_TARGETS = {
    "R10.1": ["LocalTime._ctor(", "LocalTime._LocalTime__nanoseconds", "LocalTime._from_hour_minute_second_nanosecond_trusted("],
    "R03.1": ["Duration._ctor(", "Duration.__ctor(", "Duration._Duration__", "Instant._ctor(", "_LocalInstant._ctor(", "Duration._minus_small_nanoseconds(", "Offset._Offset__seconds"],
    "R11.2": ["OffsetTime._ctor("],
}
ctx = Ctx("quick")
g = oblig.global_sweep(ctx)
out = {}
for rule, targets in RULE_TARGETS.items():
    sel = oblig.select(g, targets)
    out[rule] = sorted(k for k, grp in sel.items() if grp.status == "PROVED")
    und = sorted(k for k, grp in sel.items() if grp.status != "PROVED")
    print(rule, "proved", len(out[rule]), "not proved", len(und))
    for k in und:
        print("   not proved:", k, sel[k].worst.value)
json.dump(out, open(oblig.MUST_PROVE_FILE, "w"), indent=1)
