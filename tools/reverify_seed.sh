#!/bin/bash
# Re-run a stored seeded change against the current /repo HEAD in a scratch worktree: prints clean/patched demo exit codes.
# usage: tools/reverify_seed.sh <seed-dir-name> [--tests]
set -u
S=$1; D=/verif/seeded/$S
WT=/tmp/rv_${S}.$$
git -C /repo worktree add -q --detach $WT HEAD || exit 1
cd $WT
sed "s#/tmp/mut/[A-Z0-9]*#$WT#g; s#/tmp/mut/stub#/verif/demos/stub#g; s#/repo#$WT#g" $D/demo.py > /tmp/rv_demo_$$.py
run() { PYTHONPATH=/verif/demos/stub:$WT PYODA_REPO=$WT timeout 600 /venv/bin/python /tmp/rv_demo_$$.py > /tmp/rv_out.$$ 2>&1; echo $?; }
C=$(run)
if git apply --check $D/patch.diff 2>/dev/null; then
  git apply $D/patch.diff; P=$(run); tail -3 /tmp/rv_out.$$ | cut -c1-200
  T="-"; [ "${2:-}" = "--tests" ] && T=$(/venv/bin/python -m pytest -q -p no:cacheprovider --timeout=900 --continue-on-collection-errors 2>&1 | tail -1)
else P="patch-does-not-apply"; T="-"; fi
cd /; git -C /repo worktree remove --force $WT; rm -f /tmp/rv_demo_$$.py /tmp/rv_out.$$
echo "$S: clean_rc=$C patched_rc=$P tests='$T'"
