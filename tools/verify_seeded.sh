#!/bin/bash
# Re-verify agent-delivered seeded defects in a scratch worktree of /repo HEAD and copy the confirmed ones to /verif/seeded.
# usage: tools/verify_seeded.sh <id> <k>
set -u
ID=$1; K=$2
SRC=/tmp/mut/out/$ID/$K
WT=/tmp/vw_${ID}_${K}.$$
[ -f $SRC/patch.diff ] || { echo "$ID/$K: no patch"; exit 1; }
git -C /repo worktree add -q --detach $WT HEAD || exit 1
cd $WT
run_demo() { PYTHONPATH=/verif/demos/stub:$WT timeout 300 /venv/bin/python $SRC/demo.py > /tmp/vw_demo.$$ 2>&1; echo $?; }
# demos refer to /tmp/mut/<ID> paths sometimes: rewrite to worktree
sed "s#/tmp/mut/$ID#$WT#g; s#/tmp/mut/stub#/verif/demos/stub#g" $SRC/demo.py > /tmp/vw_demo_$$.py
run_demo2() { PYTHONPATH=/verif/demos/stub:$WT timeout 300 /venv/bin/python /tmp/vw_demo_$$.py > /tmp/vw_demo.$$ 2>&1; echo $?; }
C=$(run_demo2)
if ! git apply --check $SRC/patch.diff 2>/dev/null; then echo "$ID/$K: patch does not apply to HEAD"; cd /; git -C /repo worktree remove --force $WT; rm -f /tmp/vw_demo*$$*; exit 2; fi
git apply $SRC/patch.diff
P=$(run_demo2)
T=$(/venv/bin/python -m pytest -q -p no:cacheprovider --timeout=900 --continue-on-collection-errors 2>&1 | tail -1)
cd /
git -C /repo worktree remove --force $WT
rm -f /tmp/vw_demo*$$*
echo "$ID/$K: clean_rc=$C patched_rc=$P tests='$T'"
if [ "$C" = "0" ] && [ "$P" != "0" ] && echo "$T" | grep -q "393 passed"; then
  D=/verif/seeded/$ID-$K; mkdir -p $D
  cp $SRC/patch.diff $D/patch.diff; cp $SRC/demo.py $D/demo.py; cp $SRC/notes.md $D/notes.md 2>/dev/null
  HEAD=$(git -C /repo rev-parse --short HEAD)
  python3 - "$ID" "$K" "$HEAD" "$T" <<'PY'
import json,sys,re
ID,K,HEAD,T=sys.argv[1:5]
notes=open(f'/verif/seeded/{ID}-{K}/notes.md').read() if True else ''
meta={"property":ID,"seed":f"{ID}-{K}","source":"independent sub-agent given only the property text and a scratch worktree",
 "needs_to_manifest":"see notes.md (specific input / sequence / configuration described there)",
 "verified":{"repo_head":HEAD,"demo_on_clean":"exit 0 (PASS)","demo_with_patch":"non-zero (FAIL)","test_suite_with_patch":T.strip(),
 "how":"tools/verify_seeded.sh: fresh scratch worktree of /repo HEAD under /tmp, demo run with the icu stand-in on PYTHONPATH, patch applied with git apply, baseline pytest command; worktree removed afterwards"},
 "detected_by":None}
json.dump(meta,open(f'/verif/seeded/{ID}-{K}/meta.json','w'),indent=1)
PY
  echo "   -> kept as seeded/$ID-$K"
fi
