#!/usr/bin/env python3
"""Run the property checks against every seeded defect under /verif/seeded (scratch copy of /repo with the patch applied,
outside /repo and /verif, removed afterwards) and report which rule catches which change.  Updates meta.json:detected_by."""
import concurrent.futures as cf
import json, os, re, shutil, subprocess, sys, tempfile

HERE = os.path.dirname(os.path.dirname(os.path.abspath(__file__)))
BASE = "/repo/pyoda_time"  # replaced in main() by a snapshot of the package, so that commits to /repo made while the matrix runs do not leak into it
SNAP = HERE  # replaced in main() by a snapshot of the checker, so that edits made while the matrix runs do not leak into it
SEEDED = os.path.join(HERE, "seeded")


def run_one(name: str) -> tuple[str, int, list[str]]:
    d = os.path.join(SEEDED, name)
    meta0 = json.load(open(os.path.join(d, "meta.json")))
    prop = meta0.get("run_property") or meta0["property"]
    tmp = tempfile.mkdtemp(prefix="seedrun_")
    try:
        shutil.copytree(BASE, os.path.join(tmp, "pyoda_time"))
        r = subprocess.run(["git", "apply", "--unsafe-paths", "--directory", tmp, os.path.join(d, "patch.diff")], cwd=tmp, capture_output=True, text=True)
        if r.returncode != 0:
            r = subprocess.run(["patch", "-p1", "-s", "-i", os.path.join(d, "patch.diff")], cwd=tmp, capture_output=True, text=True)
            if r.returncode != 0:
                return name, -1, ["patch failed: " + r.stderr[:200]]
        env = dict(os.environ, PYTHONPATH=SNAP)
        p = subprocess.run(["/venv/bin/python", "-m", "sa.run", "--property", prop, "--repo", tmp, "--no-write"], cwd=SNAP, capture_output=True, text=True, env=env)
        rules = sorted(set(re.findall(r"violation: (R[\w.\-]+)", p.stdout)))
        if p.returncode == 2:
            rules = ["ANALYSIS-ERROR: " + " ".join(l for l in p.stdout.splitlines() if "ANALYSIS" in l)[:160]]
        return name, p.returncode, rules
    finally:
        shutil.rmtree(tmp, ignore_errors=True)


def _snapshot() -> str:
    """Copy of the checker (sa/, properties.jsonl, known_findings.json, MANIFEST.json) under a temp dir outside /verif."""
    d = tempfile.mkdtemp(prefix="sasnap_")
    shutil.copytree(os.path.join(HERE, "sa"), os.path.join(d, "sa"), ignore=shutil.ignore_patterns("__pycache__"))
    for f in ("properties.jsonl", "known_findings.json", "MANIFEST.json"):
        shutil.copy(os.path.join(HERE, f), os.path.join(d, f))
    return d


def main() -> None:
    global SNAP, BASE
    SNAP = _snapshot()
    shutil.copytree(BASE, os.path.join(SNAP, "base_pkg"), ignore=shutil.ignore_patterns("__pycache__"))
    BASE = os.path.join(SNAP, "base_pkg")
    import atexit
    atexit.register(shutil.rmtree, SNAP, True)
    names = sorted(n for n in os.listdir(SEEDED) if os.path.isdir(os.path.join(SEEDED, n)))
    if len(sys.argv) > 1:
        names = [n for n in names if any(n.startswith(a) for a in sys.argv[1:])]
    res = {}
    with cf.ThreadPoolExecutor(max_workers=12) as ex:
        for name, rc, rules in ex.map(run_one, names):
            res[name] = (rc, rules)
    caught = 0
    for n in names:
        rc, rules = res[n]
        mp0 = json.load(open(os.path.join(SEEDED, n, "meta.json")))
        if mp0.get("expect") == "silent":
            status = "silent-ok" if rc == 0 else "FALSE-ALARM"
            caught += rc == 0
        else:
            status = "CAUGHT" if rc == 1 else ("missed" if rc == 0 else f"rc={rc}")
            caught += rc == 1
        print(f"{n:8s} {status:7s} {', '.join(rules)}")
        mp = os.path.join(SEEDED, n, "meta.json")
        m = json.load(open(mp))
        m["detected_by"] = rules if rc == 1 else []
        m["check_exit"] = rc
        json.dump(m, open(mp, "w"), indent=1)
    print(f"{caught}/{len(names)} as expected (caught, or silent for neutralised seeds)")


if __name__ == "__main__":
    main()
