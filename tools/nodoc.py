import ast,sys
class R(ast.NodeTransformer):
    def visit_FunctionDef(self,n):
        self.generic_visit(n)
        if n.body and isinstance(n.body[0],ast.Expr) and isinstance(getattr(n.body[0],'value',None),ast.Constant) and isinstance(n.body[0].value.value,str):
            n.body=n.body[1:] or [ast.Pass()]
        # drop overloads
        return n
    visit_ClassDef=visit_FunctionDef
    visit_AsyncFunctionDef=visit_FunctionDef
def is_overload(n):
    return isinstance(n,ast.FunctionDef) and any((isinstance(d,ast.Name) and d.id=='overload') for d in n.decorator_list)
class O(ast.NodeTransformer):
    def visit_ClassDef(self,n):
        self.generic_visit(n)
        n.body=[b for b in n.body if not is_overload(b)] or [ast.Pass()]
        return n
for f in sys.argv[1:]:
    print("#"*30,f)
    t=ast.parse(open(f).read())
    t=O().visit(R().visit(t))
    print(ast.unparse(t))
