#!/usr/bin/env python3
"""Regenerate the rule inventory in DESIGN.md (between the rules markers) from /verif/evidence/*.json (written by the last clean run)."""
import json, os, re
HERE = os.path.dirname(os.path.dirname(os.path.abspath(__file__)))
rows = []
tot = 0
for p in sorted(os.listdir(os.path.join(HERE, "evidence"))):
    if not re.fullmatch(r"C\d\d\.json", p):
        continue
    ev = json.load(open(os.path.join(HERE, "evidence", p)))
    for r in ev["coverage"]["per_rule"]:
        und = r.get("undecided", 0) if isinstance(r.get("undecided", 0), int) else len(r.get("undecided") or [])
        rows.append(f"| {p[:3]} | {r['rule']} | {r['title'][:170].replace('|', '/')} | {r['instances']} | {und or ''} |")
        tot += r["instances"]
block = ["<!-- rules:start -->", f"{len(rows)} rule registrations, {tot} rule instances on the pinned tree (shared rules are listed under each property they are registered for).", "",
         "| prop | rule | decides | instances | undecided |", "|---|---|---|---|---|", *rows, "<!-- rules:end -->"]
p = os.path.join(HERE, "DESIGN.md")
s = open(p).read()
if "<!-- rules:start -->" in s:
    s = re.sub(r"<!-- rules:start -->.*?<!-- rules:end -->", lambda _: "\n".join(block), s, flags=re.S)
else:
    s = s.replace("### 0.5 Genuine defects found", "#### 0.4b Generated rule inventory (from the evidence files of the last clean run)\n\n" + "\n".join(block) + "\n\n### 0.5 Genuine defects found", 1)
open(p, "w").write(s)
print(len(rows), tot)
