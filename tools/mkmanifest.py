#!/usr/bin/env python3
"""Regenerate /verif/MANIFEST.json from the claim table below (run after adding a property's rules)."""
import json
import os

HERE = os.path.dirname(os.path.dirname(os.path.abspath(__file__)))

BASE_NOTE = ("Trusted base: CPython's ast parser, the engines under /verif/sa (program model, resolver, path walker, term/interval/"
             "order evaluators) and the reviewed contract/spec tables they carry. Annotations in /repo are taken as truthful "
             "(project policy: mypy --strict). The check decides the structural clauses named in level_claimed.text - necessary "
             "conditions of the property - and not the value-level behaviour; see DESIGN.md for what is not decided.")

CLAIMS = {
    "C19": dict(
        text=("Static rules over FakeClock/ZonedClock/SystemClock: (R19.1) no call made while the non-reentrant lock is held can reach a method "
              "of the same object that takes it again (all regions x transitive same-object callees); (R19.2) every access to the guarded state "
              "is inside a lock region and read-advance-return is one region; (R19.3) each operation's effect on (now, auto_advance), obtained by "
              "term evaluation of the method bodies with self-calls inlined, equals the model's (advance adds, reset stores, read returns the old "
              "value then adds auto-advance, advance_<unit>(a) adds Duration.from_<unit>(a)); (R19.4) ZonedClock views are the documented projections "
              "of clock.get_current_instant().in_zone(zone, calendar) and SystemClock is UNIX_EPOCH + time.time_ns(). Decides the code shape on all "
              "paths, not operation sequences as values nor fairness under contention."),
        design_ref="DESIGN.md section 3, C19",
        technique="static analysis: lock-region re-entrancy and lockset rules over the resolved call graph + term evaluation of method effects",
    ),
}

NA = {
    "C02": "agreement of numeric results with external published algorithms over thousands of years; no clause is visible in the shape of the code (DESIGN.md section 3, C02)",
}


def main() -> None:
    props = [json.loads(l)["id"] for l in open(os.path.join(HERE, "properties.jsonl"))]
    checks = []
    na = []
    for p in props:
        if p in CLAIMS:
            c = CLAIMS[p]
            checks.append({
                "property_id": p,
                "quick_cmd": f"/venv/bin/python -m sa.run --property {p} --tier quick",
                "thorough_cmd": f"/venv/bin/python -m sa.run --property {p} --tier thorough",
                "evidence_file": f"/verif/evidence/{p}.json",
                "replay_cmd_template": "/venv/bin/python -m sa.run --replay {path}",
                "engine": "sa",
                "level_claimed": {"category": "other", "text": c["text"], "design_ref": c["design_ref"]},
                "level_note": c.get("note", BASE_NOTE),
                "technique": c["technique"],
            })
        else:
            na.append({"property_id": p, "reason": NA.get(p, "check not built yet (build in progress); DESIGN.md section 3 lists the planned rules")})
    m = {
        "version": 1,
        "setup_cmd": "/venv/bin/python -m sa.run --self-check",
        "hooks": {
            "guard": "PYODA_TIME_VERIF",
            "enable": "none needed: checks only parse /repo sources with ast; nothing is instrumented and no hook commit exists",
            "baseline_off_cmd": "cd /repo && /venv/bin/python -m pytest -ra -q -p no:cacheprovider --timeout=900 --continue-on-collection-errors",
            "source_commits": [],
            "add_only": True,
        },
        "engines": [{"name": "sa", "path": "/verif/sa", "serves_properties": sorted(CLAIMS), "kind_free_text": "custom ast-based static analysis (program model, path walker, interval/order/term abstract evaluators, exception-effect and lock rules)"}],
        "checks": checks,
        "notes": "Static analysis only; see DESIGN.md. Known genuine defects are listed in known_findings.json (fixed ones with their fix: commit).",
        "not_applicable": na,
    }
    json.dump(m, open(os.path.join(HERE, "MANIFEST.json"), "w"), indent=1)
    print("claimed:", sorted(CLAIMS), "n/a:", [x["property_id"] for x in na])


if __name__ == "__main__":
    main()
