#!/usr/bin/env python3
"""Regenerate /verif/MANIFEST.json from the claim table below (run after adding a property's rules)."""
import json
import os

HERE = os.path.dirname(os.path.dirname(os.path.abspath(__file__)))

BASE_NOTE = ("Trusted base: CPython's ast parser, the engines under /verif/sa (program model, resolver, path walker, term/interval/"
             "order evaluators) and the reviewed contract/spec tables they carry. Annotations in /repo are taken as truthful "
             "(project policy: mypy --strict). The check decides the structural clauses named in level_claimed.text - necessary "
             "conditions of the property - and not the value-level behaviour; see DESIGN.md for what is not decided.")

CLAIMS = {
    "C01": dict(
        text=("Static rules; the bijection over ~75M (calendar, day) pairs is reduced to finite abstract domains: (R01.5) for all 18 concrete calculators (evaluated abstractly from CalendarSystem's "
              "construction sites) and every finite year kind (leap flag; Hebrew leap x Heshvan x Kislev in both month numberings; Badi Ayyam-i-Ha 4|5) with the YEAR SYMBOLIC, the interpreter "
              "evaluates the month/day split for EVERY day-of-year of that kind and checks month/day inside the reported tables, days_to_start_of_month(month)+day == d (split and inverse agree, "
              "one-to-one, increasing), month lengths contiguous and summing to the year length; (R01.5b) Hebrew year flags derived from each of the six year lengths are the consistent ones; "
              "(R01.3) the validators accept exactly days 1..days_in_month, months 1..months_in_year and the advertised years, (R01.3b) sibling readers of the Badi table agree and stay inside it, "
              "(R01.3c) day numbers are range-checked against [start(min_year), start(max_year+1)-1]; (R01.4) definite initialisation of alternate constructors; (R01.6) folded Um Al Qura tables cover "
              "the year span and are consistent at both advertised edges; (R01.1) bit-pack capacity/layout/encoder-decoder agreement; (R01.2) registry exhaustiveness. "
              "NOT decided: agreement of year starts with year lengths across years (cycle arithmetic, molad) and the per-year data of tabular calendars beyond the edges."),
        design_ref="DESIGN.md section 3, C01",
        technique="static analysis: exhaustive finite-domain abstract evaluation (year symbolic, day-of-year and year kind enumerated), folded tables, layout/registry/definite-initialisation rules",
    ),
    "C04": dict(
        text=("Wiring / guard clauses only (the walk of the 1.84M intervals of the bundled data is NOT decided): (R04.1-2) get_utc_offset is get_zone_interval(<same instant>).wall_offset, the fixed "
              "zone's offset is tied to its interval by construction, standard = wall - savings; (R04.3-4) min/max slots are fed by the aggregation with Offset.min/max, the aggregation visits every "
              "period (index-coverage analysis) and the tail, every construction validates adjacency of all consecutive pairs; (R04.5) ZoneInterval membership is half-open on every ordering and "
              "construction rejects start >= end (order domain); (R04.6) the period lookup returns a candidate only when it contains the instant, the first tail interval is clamped to the end of the "
              "periods, and after stepping the year the recurrence admits exactly the years up to MAX / down to MIN (range prover, guard tightness); (R04.7) cache nodes cover their whole period."),
        design_ref="DESIGN.md section 3, C04",
        technique="static analysis: term evaluation of wiring, index-coverage and guard-tightness rules (interval abstract interpretation), order-domain evaluation",
    ),
    "C05": dict(
        text=("Wiring / table / guard clauses only (exactness of the mapping over real zone data is NOT decided): (R05.1) every ZoneLocalMapping built by map_local pairs the right probes with "
              "the right slots for counts 2/1/0, and the probes' day pre-filters leave the one day of slack that |offset| < 24h requires (linear forms); (R05.2) single/first/last and "
              "create_mapping_resolver select by count exactly as documented; (R05.3) by effect, not name: the callables wired into the strict resolver always raise the ambiguous / skipped error, the "
              "lenient resolver's ambiguity handler returns its first parameter and its gap handler re-expresses the local value at the offset before the gap in the offset after it; (R05.4) local+offset "
              "construction verifies the zone's offset first, start-of-day in a gap checks the resulting date, gap bracketing returns the adjacent intervals; (R05.5) half-open membership on every "
              "ordering; (R05.6) no calendar dropped."),
        design_ref="DESIGN.md section 3, C05",
        technique="static analysis: path-wise term evaluation of construction sites, dispatch-table agreement, no-return/effect summaries, order-domain evaluation",
    ),
    "C06": dict(
        text=("Wiring clauses only (equality with an independent interpretation of Tzdb.nzd is NOT decided - it needs the bytes interpreted twice): (R06.1) field-handler table: every key is a field id, "
              "routes to an existing builder handler, required builder slots are filled, single-field / string-pool preconditions come first; (R06.2) id list = sorted canonical ids + aliases, for_id "
              "passes (requested id, canonical id) and every returning path of create_zone depends on the requested id while the data is keyed by the canonical id, fixed-offset ids fall back to the "
              "fixed-zone parser; (R06.3) zone-type dispatch covers every type member with the documented reader; (R06.4) reader discipline (optional byte tested with `is None`, reader/writer sequence "
              "agreement); (R06.5) recurrence year stepping admits every Gregorian year."),
        design_ref="DESIGN.md section 3, C06",
        technique="static analysis: table/dispatch agreement, path-wise term evaluation (argument-slot agreement), sequence-language comparison",
    ),
    "C13": dict(
        text=("Static rules on the cache-validity and publication discipline that makes history and interleaving irrelevant: (R13.1) year-start cache: masks/shifts consistent, over the abstractly "
              "evaluated year span of all 18 concrete calculators (index, validator) determines the year and the invalid marker is unreachable, and every cache user indexes, validates and fills the "
              "slot with one and the same key and reads the shared slot exactly once; (R13.2) zone-interval cache: the node is trusted only after an exact comparison of the unmasked period, the shared "
              "slot is read once, the node chain is built by a loop whose bound is exactly one period (2^shift days, linear form) past the period start, nodes are immutable, the cached zone delegates to "
              "its own map; (R13.3) _Cache: lockset - every access to dictionary/key list under the lock, no re-entrancy; (R13.4) lazy singletons follow double-checked locking and the identity-bearing "
              "registries (zone map, calendar registry) publish under a lock or atomically with the registered instance returned. Schedules and histories themselves are not explored."),
        design_ref="DESIGN.md section 3, C13",
        technique="static analysis: lockset / publication-idiom rules, cache-key agreement and coverage over abstractly evaluated calculator ranges",
    ),
    "C17": dict(
        text=("Shape and arithmetic clauses only - agreement of values with the standard library is a differential claim and NOT decided. (R17.1) the pattern text behind each of the 15 built-in ISO / "
              "round-trip accessors (folded from the accessor or the lazily built implementation it returns) tokenises - quotes, escapes, letter runs, ';F'/';f' fraction forms - to exactly the "
              "ISO-8601 extended shape (uuuu-MM-dd, 24-hour HH:mm:ss, 'T', optional ;FFFFFFFFF or fixed f digits, 'Z' for instants), the offset resources are sign + HH[:mm[:ss]] combined long/medium/"
              "short by the zero-seconds predicates, and the tables give u/H/m/s fixed-width numeric handlers (count == max_count => exactly that many digits written and read); (R17.2) no float "
              "arithmetic on unbounded quantities and no flooring operator on possibly negative quantities in the text layer's getters and digit accumulators; (R17.3) zero-padded specs only on "
              "non-negative operands ('-' + 4 digits for negative years); (R17.4) instants are rendered through in_utc() and parsed by reading the local fields as UTC."),
        design_ref="DESIGN.md section 3, C17",
        technique="static analysis: pattern-language tokeniser over folded pattern constants compared with the ISO-8601 shape, handler-table agreement, numeric-discipline and interval rules",
    ),
    "C18": dict(
        text=("Static rules, exhaustive over an abstract order/line domain: (R18.1) DateInterval `date in`, `interval in`, `&` and `|` are abstractly evaluated by the interpreter on every weak "
              "ordering of the end points (and the probe), twice - with the packed date order equal to and reversed against the calendar order - and compared with set semantics; for the union the "
              "end points are positions on an abstract day line whose consecutive gaps are 1 or 2+h (h >= 0, linear forms), so 'overlapping or adjacent' vs 'gap' is decided for all distances; "
              "(R18.1b) Interval membership is half-open on every ordering, construction rejects end < start; (R18.2-3) construction and every set operation raise on mixed calendars on all paths, "
              "start/end return their bound only after checking its validity, has_start/has_end report that validity, duration is computed from the guarded accessors. "
              "Decides the comparison/distance skeleton for all orderings; __len__/__iter__ values and YearMonth.to_date_interval are not decided."),
        design_ref="DESIGN.md section 3, C18",
        technique="static analysis: exhaustive order-domain / linear-form abstract evaluation of the set operations + guard rules",
    ),
    "C15": dict(
        text=("Static rules over the stdlib bridges: (R15.1) unit-of-measure inference: no expression/API call in the conversion code mixes units (ticks, microseconds, seconds, days constants); "
              "(R15.3) range guards admit the whole stdlib range: on the returning paths of to_naive_datetime the year handed to datetime has lower bound exactly MINYEAR and every field is read from "
              "the Gregorian-converted value; Instant.to_datetime_utc raises exactly for instants strictly before the BCL epoch (order-domain evaluation of the guard on all key relations); "
              "(R15.5) numeric discipline: no float-valued library call (timedelta.total_seconds, math.*), float division or flooring operator on possibly negative exact quantities. "
              "Value-level round trips are not decided."),
        design_ref="DESIGN.md section 3, C15",
        technique="static analysis: unit inference, interval abstract interpretation of guards, order-domain evaluation, numeric-discipline inventory",
    ),
    "C09": dict(
        text=("Static rules: (R09.1) dimension inference from the repo's own unit names: all 22 `case PeriodUnits.U` arms of Period.between build the result with from_U from a quantity "
              "measured in U, and (R09.1b) no expression/API call/constructor keyword in the period and field code mixes units; (R09.2) month/year arithmetic of the regular calculators: the "
              "month written is proved in [1, months_in_year] for 12- and 13-month calendars and on every constructing path the day is min(day, days_in_month(Y, M)) for the very Y, M written; "
              "(R09.3) the day/week fast path: with every calculator's year length bounded by abstract evaluation of all _get_days_in_year overrides (tables folded; Hebrew assumed 353-385) the "
              "day-of-year handed on is proved valid, i.e. the threshold is below the shortest year; (R09.4) a period is applied years, months, weeks, days from the original date; "
              "(R09.6) truncating helpers, no floor operator on possibly negative totals; (R09.7) no optional calendar dropped. "
              "Value-level laws of between for mixed unit sets and Hebrew/Badi month arithmetic are not decided."),
        design_ref="DESIGN.md section 3, C09",
        technique="static analysis: unit-of-measure inference, term evaluation of construction paths, interval abstract interpretation with folded tables",
    ),
    "C16": dict(
        text=("Static rules: (R16.1) parameter influence: by intra-procedural def-use closure (with control dependence of assigning branches, guards that only raise excluded) every parameter "
              "of the 18 week/weekday constructors, navigators and adjusters reaches the returned value; (R16.2) range prover + linear forms: the numeric day of week is in [1,7] on both sign arms, "
              "next/previous add (target - current) + 7k with the step proved in [1,7] / [-7,-1], and the or-same adjusters return the date itself exactly when the weekday matches, else delegate; "
              "(R16.3) days-into-week in [0,6] at both sites; (R16.4) abstract evaluation of the rule factories: ISO = (4, Monday, regular), CalendarWeekRule table 1/4/7 irregular, "
              "for_min_days regular, LocalDate.from_week_year_week_and_day = ISO rule + ISO calendar; (R16.5) no optional calendar dropped while one is in scope. "
              "Decides wiring/range/influence structure; inverse-ness of (week-year, week, day) and agreement with isocalendar are not decided."),
        design_ref="DESIGN.md section 3, C16",
        technique="static analysis: def-use parameter influence, interval abstract interpretation with linear forms, abstract evaluation of factory wiring",
    ),
    "C14": dict(
        text=("Static rules over the zone-data codec: (R14.1) for all 8 composite writer/reader pairs the ordered sequences of primitive operations (in Python evaluation order, loops unrolled "
              "0-3 times, optional parts both ways, nested composites as tokens) are equal as sets; (R14.3) compact millisecond encoding: each arm's guard is exact divisibility by the constant "
              "it divides by, every emitted byte is proved in [0,255] (header bits clear of data), and the reader's (flag, multiplier) table equals the writer's (header, divisor) table; "
              "(R14.4) transition encoding: every emission site is reachable under the abstract interpreter (no dead compact form), each form's written value lies in the range from which the reader "
              "decodes that form, payloads are exact quotients of the guarded quantity and all forms derive from the accessor the raw form stores; (R14.5) varint/fixed-width helpers use mirrored "
              "masks and shifts, the string length prefix is len() of the bytes written, count guards; (R14.6) optional buffered integers are tested with `is None`. "
              "Decides reader/writer agreement of structure and constants, not the zig-zag algebra nor byte equality with reference files."),
        design_ref="DESIGN.md section 3, C14",
        technique="static analysis: sequence-language comparison of reader/writer ASTs + interval abstract interpretation of the encoders with path conditions",
    ),
    "C12": dict(
        text=("Static rules over the listed value types: (R12.1) order-domain evaluation: every rich comparison, compare_to, equals, min and max of the 10 ordered "
              "types is abstractly evaluated by the interpreter on EVERY component-wise ordering of the type's key atoms (3^n orderings, following delegation chains "
              "Instant->Duration, LocalDate->calendar compare->packed value) and compared with the total-order specification table; (R12.1b) the Hebrew calculator's "
              "compare on all 27 orderings of (year, civil month, day); (R12.2-3) __eq__ is a conjunction comparing every stored component of self and other directly "
              "(no projection that drops a component, e.g. the calendar) and __hash__ reads only compared components; (R12.4) with operands of different calendars every path "
              "of the ordering methods/min/max raises, comparisons with non-instances return NotImplemented and compare_to raises; (R12.5) no store to a field of a value type "
              "outside its constructors anywhere in the package. Exhaustive over the abstract order domain; decides the comparison skeleton, not magnitudes."),
        design_ref="DESIGN.md section 3, C12",
        technique="static analysis: exhaustive order-domain abstract evaluation of comparison methods + eq/hash field-set and write-site rules",
    ),
    "C02": dict(
        text=("Constants and finite rules only - agreement of every date with an independent implementation over thousands of years is a value-level claim and is NOT decided (in particular the closed-form "
              "year starts, the Hebrew molad / postponement arithmetic and the 2820-year Persian year starts are not). Decided, because nothing else constrains them (a shifted epoch or a wrong leap "
              "bit is self-consistent): (R02.1) the day number of year 1's first day of each of the 15 arithmetic calculator instances (evaluated from CalendarSystem's construction sites) equals the "
              "published epoch (fixed day numbers of Reingold & Dershowitz re-based to 1970-01-01; the Thursday / Friday Islamic epochs, the BCL Persian epoch); (R02.2) each leap predicate, "
              "abstractly evaluated on every year of one full cycle (Gregorian 400, Julian/Coptic 4, the four tabular Islamic patterns 30, Hebrew 19, Persian 33-year and the 2820-year arithmetic "
              "rule from year 475), equals the published rule, and the predicate uses the year only through remainders by divisors of the cycle (read off the syntax), so one cycle covers all "
              "years; (R02.3) days-in-month of a common and a leap year equal the published month tables (Hebrew excluded); (R02.4) the day-of-week formula gives Thursday for day 0, steps "
              "cyclically over 15 consecutive days across both arms, and uses the day number only modulo 7."),
        design_ref="DESIGN.md section 0.4 and section 3, C02",
        technique="static analysis: abstract evaluation of construction sites and finite-domain (one full cycle) evaluation of the leap / month / weekday rules against published tables, with a syntactic periodicity check",
    ),
    "C03": dict(
        text=("Static rules: (R03.1) range prover (interval abstract interpretation with per-path states, guard inlining, contracts): at every construction site of Duration/Instant/"
              "_LocalInstant/Offset enumerated by the program model the nanosecond-of-day is proved in [0, 24h) and the day/second count inside the type's range (or guarded), incl. the "
              "floor-division remainder identities; obligations discharged on the reviewed tree are fail-closed; (R03.3) numeric discipline: no float arithmetic on integer quantities "
              "not bounded below 2**53 and flooring operators (//, >>, %, divmod) only on operands proved non-negative (where floor == documented truncation). "
              "Decides normal form / range / rounding-mode clauses on all paths; value-level exactness of relational splits is listed as not decided."),
        design_ref="DESIGN.md section 3, C03",
        technique="static analysis: interval abstract interpretation with contracts (range prover) + numeric-discipline rule",
    ),
    "C10": dict(
        text=("Static rules: (R10.1) range prover: every LocalTime construction site (incl. the seven _TimePeriodField unit instances, analysed per instance) yields nanosecond-of-day in "
              "[0, 24h) - carries are present and exact; (R10.2) every hour/minute/second/sub-second accessor of LocalTime and OffsetTime normalises to NS // unit [% container] with the unit's own "
              "constant (magic shift/divide pairs are multiplied out) and its range is proved; (R10.5) every public factory constrains each component to its documented range on all returning "
              "paths; (R10.6) numeric discipline (no float on unbounded amounts, floor only on non-negative operands). Decides carry/range/decomposition structure for every input, not the "
              "relational identity 'equals adding that many nanoseconds'."),
        design_ref="DESIGN.md section 3, C10",
        technique="static analysis: interval abstract interpretation (range prover) + symbolic quotient/remainder normal forms",
    ),
    "C11": dict(
        text=("Static rules: (R11.2) range prover: every OffsetTime construction (OffsetDateTime._ctor from instant+offset, with_offset's double carry, with_time_adjuster, __init__) receives a "
              "nanosecond-of-day in [0, 24h) and offset seconds within +/-18h, so the carries suffice for every input. More clauses (retention, layout, sign discipline) are being added."),
        design_ref="DESIGN.md section 3, C11",
        technique="static analysis: interval abstract interpretation (range prover)",
    ),
    "C19": dict(
        text=("Static rules over FakeClock/ZonedClock/SystemClock: (R19.1) no call made while the non-reentrant lock is held can reach a method "
              "of the same object that takes it again (all regions x transitive same-object callees); (R19.2) every access to the guarded state "
              "is inside a lock region and read-advance-return is one region; (R19.3) each operation's effect on (now, auto_advance), obtained by "
              "term evaluation of the method bodies with self-calls inlined, equals the model's (advance adds, reset stores, read returns the old "
              "value then adds auto-advance, advance_<unit>(a) adds Duration.from_<unit>(a)); (R19.4) ZonedClock views are the documented projections "
              "of clock.get_current_instant().in_zone(zone, calendar) and SystemClock is UNIX_EPOCH + time.time_ns(). Decides the code shape on all "
              "paths, not operation sequences as values nor fairness under contention."),
        design_ref="DESIGN.md section 3, C19",
        technique="static analysis: lock-region re-entrancy and lockset rules over the resolved call graph + term evaluation of method effects",
    ),
    "C07": dict(
        text=("Structural clauses only - the round trip of values over (pattern, culture, value) is NOT decided. (R07.1) lock-step: path-wise walk of every pattern-character handler (table rows, "
              "factory closures, lambdas; helper effects summarised to a fixpoint): on every path format and parse contributions are registered together, or none, or a parse action that never touches "
              "the cursor; (R07.2) every numeric table row is executed abstractly: its parse action stores exactly the declared [min, max] into one bucket field, that field is the one the row's getter "
              "reads, max_count digits can represent max, sibling parsers bind a letter to the same field flag; (R07.3) fraction handlers parse and format with the same (count, scale); (R07.4) "
              "composite patterns pair patterns[i] with format_predicates[i]; (R07.5) inside the number formatters every zero-padded spec has a non-negative operand under the formatter's precondition "
              "(interval interpretation with inductive loop bounds), and every format action of every row calls a formatter inside its precondition (abstract execution of the format actions; rows "
              "whose getter range is relational are listed as not decided); (R07.6) shortcuts keep configuration: the ISO-only fast path is guarded by calendar == ISO and the culture's cached default "
              "parser is used only under a test of every parameter the explicit parser receives."),
        design_ref="DESIGN.md section 3, C07",
        technique="static analysis: path-wise effect summaries (lock-step), closure-aware abstract execution of handler-table rows, interval interpretation of the number formatters, guard-coverage rules",
    ),
    "C08": dict(
        text=("Static rules over the text layer (pyoda_time/text): (R08.1) parse time - for every parse / parse_partial entry the raising constructs located in the text layer (explicit raises, subscripts, "
              "int(str), str.format ...) that the resolved call graph connects to the entry (closures registered as parse actions, handler tables, bucket overrides included) are each discharged: library "
              "operations by a dominating guard (ASCII-digit test before int(), index bounded by min(.., length), non-emptiness tests), explicit raises by reachability under their calling contexts - the "
              "range prover interprets each function from its roots (public / virtual / stored functions) with callees inlined and None-ness, truthiness, isinstance and callable() decided abstractly, so "
              "overload fall-throughs and argument-dependent raises are judged per call site; (R08.2) the same for every create* / with_* entry with InvalidPatternError as the only allowed class; "
              "(R08.3) printf-style check of every message that reaches str.format on an error path: constant of the message table, placeholders covered by the arguments at that site; (R08.4) the "
              "parse actions of every row of every handler table are executed abstractly (closure-aware) to obtain the range each bucket field can hold; with those ranges every range check and "
              "trusted-constructor precondition reached from the bucket's calculate_value is proved, refuted (violation) or - when it sits behind a calendar query - listed as not decided; (R08.5) "
              "ParseResult slots exclusive, value types always truthy, `.value` read during parse only after a success test, abstract bucket/pattern methods overridden. NOT decided: raises inside "
              "calendars / globalization whose guard is a calendar query, formatting of the sample value at creation, resource exhaustion."),
        design_ref="DESIGN.md section 3, C08",
        technique="static analysis: interprocedural exception-effect analysis + raise-reachability under calling contexts (interval / None-ness abstract interpretation), closure-aware abstract execution of the pattern builder, format-string arity rule",
    ),
    "C20": dict(
        text=("Static rules over the zone-data loading code: (R20.1) exception effects - for from_stream, get_ids, for_id, version_id and the DateTimeZoneCache constructor/lookup, the set of "
              "exception classes that can propagate out (explicit raises, resolved callees incl. handler tables, callbacks and virtual dispatch, implicit operator/property calls, modelled raising "
              "library operations: subscripts, Enum(value), int(str), bytes.decode, struct.unpack, division, str.format ...; minus enclosing try/except, subclass-aware; least fixpoint over the call "
              "graph) is {InvalidPyodaDataError} plus symbols excluded with a reason (None arguments, documented lookup errors for unknown ids); (R20.1b) the source never returns None where the cache "
              "would raise its source-contract error; (R20.2) progress - every loop in the decoding region either iterates over an in-memory container or, on every iteration path, consumes input or "
              "leaves (must-consume summaries of the reader primitives, raw-read-then-emptiness-exit idiom, look-ahead byte), so trip counts are bounded by the bytes present; (R20.3) allocation - the "
              "caller's stream is read only in constant-size steps, data-sized reads happen on in-memory field copies, no allocation is sized by a decoded count. "
              "Wall-clock time and the behaviour of a successfully loaded but altered database are not decided."),
        design_ref="DESIGN.md section 3, C20",
        technique="static analysis: interprocedural exception-effect (escape set) analysis over the resolved call graph with try/except subtraction, must-consume progress analysis of loops, stream-use (who-may-read-sized) rule",
    ),
}

NA = {}


def extra_rules(prop: str, base: str) -> str:
    """Rules registered for the property that the hand-written claim text does not name yet (added after the later seeding rounds):
    listed from the evidence file of the last run, so that the claim names everything the check decides."""
    import re

    ev = os.path.join(HERE, "evidence", f"{prop}.json")
    if not os.path.exists(ev):
        return ""
    rules = json.load(open(ev))["coverage"]["per_rule"]
    named = set(re.findall(r"R\d\d\.[\w\-]+", base))
    more = [r for r in rules if r["rule"] not in named and not any(r["rule"].startswith(n + "-") or n.startswith(r["rule"]) for n in named)]
    if not more:
        return ""
    return " Further structural clauses decided by rules added in the later seeding rounds (each a necessary condition, see DESIGN.md 0.6c - 0.6j): " + "; ".join(
        f"({r['rule']}) {r['title']}" for r in more) + "."


def main() -> None:
    props = [json.loads(l)["id"] for l in open(os.path.join(HERE, "properties.jsonl"))]
    checks = []
    na = []
    for p in props:
        if p in CLAIMS:
            c = CLAIMS[p]
            checks.append({
                "property_id": p,
                "quick_cmd": f"/venv/bin/python -m sa.run --property {p} --tier quick",
                "thorough_cmd": f"/venv/bin/python -m sa.run --property {p} --tier thorough",
                "evidence_file": f"/verif/evidence/{p}.json",
                "replay_cmd_template": "/venv/bin/python -m sa.run --replay {path}",
                "engine": "sa",
                "level_claimed": {"category": "other", "text": c["text"] + extra_rules(p, c["text"]), "design_ref": c["design_ref"] + "; DESIGN.md sections 0.4b, 0.6c - 0.6j"},
                "level_note": c.get("note", BASE_NOTE),
                "technique": c["technique"],
            })
        else:
            na.append({"property_id": p, "reason": NA.get(p, "check not built yet (build in progress); DESIGN.md section 3 lists the planned rules")})
    m = {
        "version": 1,
        "setup_cmd": "/venv/bin/python -m sa.run --self-check",
        "hooks": {
            "guard": "PYODA_TIME_VERIF",
            "enable": "none needed: checks only parse /repo sources with ast; nothing is instrumented and no hook commit exists",
            "baseline_off_cmd": "cd /repo && /venv/bin/python -m pytest -ra -q -p no:cacheprovider --timeout=900 --continue-on-collection-errors",
            "source_commits": [],
            "add_only": True,
        },
        "engines": [{"name": "sa", "path": "/verif/sa", "serves_properties": sorted(CLAIMS), "kind_free_text": "custom ast-based static analysis (program model, path walker, interval/order/term abstract evaluators, exception-effect and lock rules)"}],
        "checks": checks,
        "notes": "Static analysis only; see DESIGN.md. Known genuine defects are listed in known_findings.json (fixed ones with their fix: commit).",
        "not_applicable": na,
    }
    json.dump(m, open(os.path.join(HERE, "MANIFEST.json"), "w"), indent=1)
    print("claimed:", sorted(CLAIMS), "n/a:", [x["property_id"] for x in na])


if __name__ == "__main__":
    main()
