#!/bin/bash
# usage: tools/trymut.sh <patch> <prop>...   applies patch to /repo, runs checks, reverts
set -u
P=$1; shift
git -C /repo apply "$P" || { echo "APPLY FAILED"; exit 3; }
for prop in "$@"; do
  (cd /verif && /venv/bin/python -m sa.run --property $prop --no-write 2>&1 | grep -v conda | grep -E "violation|VIOLATION|ANALYSIS|KNOWN" | cut -c1-300 | head -8)
  echo "-- $prop rc=${PIPESTATUS[0]}"
done
git -C /repo checkout -- .
