#!/usr/bin/env python3
"""Store the reverse of every fix: commit as a seeded case (seeded/<prop>-D<id>/): applying it re-introduces the defect."""
import json, os, re, subprocess, shutil
HERE = os.path.dirname(os.path.dirname(os.path.abspath(__file__)))
CASES = [  # (defect id, property, commit, demo, rules expected)
    ("D01", "C19", "2be4a61", "d01_fakeclock_deadlock.py", ["R19.1"]),
    ("D08", "C03", "2125e27", "d08_from_ticks.py", ["R03.1", "R03.3"]),
    ("D04", "C11", "0730f29", "d04_offsetdatetime_calendar.py", ["R11.1"]),
    ("D06", "C14", "f21d86c", "d06_d07_codec.py", ["R14.3"]),
    ("D07", "C14", "24a86eb", "d06_d07_codec.py", ["R14.4"]),
    ("D02", "C16", "d91e679", "d02_nth_weekday.py", ["R16.1"]),
    ("D03", "C09", "068b5f1", "d03_yearmonth_between.py", ["R09.1"]),
    ("D12", "C15", "beac4aa", "d12_to_naive_datetime_year1.py", ["R15.3"]),
    ("D15a", "C13", "19879d1", "d15_racy_publication.py", ["R13.4"]),
    ("D15b", "C13", "26b76d8", "d15_racy_publication.py", ["R13.4"]),
    ("D16", "C01", "5e19cab", "d16_badi_year_1000.py", ["R01.3"]),
    ("D05", "C01", "eb05755", "d05_single_era_eras.py", ["R01.4"]),
    ("D11", "C01", "a78ee61", "d11_um_al_qura_max_days.py", ["R01.6"]),
    ("D14", "C20", "d3a1548", "d14_damaged_tzdb.py", ["R20.1"]),
    ("D13", "C08", "1653a15", "d13_offset_parse_19h.py", ["R08.4"]),
    ("D17", "C20", "510ef25", "d17_for_id_empty_canonical.py", ["R20.1"]),
    ("D18", "C08", "112bf6d", "d18_date_pattern_double_quote.py", ["R08.2"]),
    ("D09", "C03", "a4ff4da", "d09_towards_zero_division.py", ["R03.6"]),
    ("D19", "C08", "4fc7de0", "d19_iso_year_minus_9999.py", ["R08.4"]),
    ("D20", "C08", "0b77679", "d20_hour_24_on_last_day.py", ["R08.9"]),
    ("D21", "C01", "535f8bc", "d21_badi_year_table.py", ["R01.9"]),
    ("D22", "C08", "624dedc", "d22_calendar_from_text.py", ["R08.11"]),
    ("D23", "C16", "ed93a17", "d23_badi_week_year_zero.py", ["R16.9"]),
    ("D24", "C13", "4f8912b", "d24_day_names_publication.py", ["R13.14"]),
    ("D25", "C13", "b0e3e5c", "d25_composite_pattern_aliasing.py", ["R13.15"]),
    ("D26", "C09", "b732f30", "d26_hebrew_numbering_plain_int.py", ["R09.identity"]),
    ("D27", "C09", "5657263", "d27_badi_plus_months.py", ["R09.15"]),
    ("D28", "C09", "6301fcb", "d28_plus_months_exception_type.py", ["R09.16"]),
    ("D29", "C13", "5bddad4", "d29_era_singleton_race.py", ["R13.16"]),
    ("D30", "C09", "b79fa15", "d30_hebrew_months_between_edges.py", ["R09.18"]),
    ("D31", "C07", "d31fdd2", "d31_composite_same_predicate.py", ["R07.4"]),
    ("D32", "C03", "bb76907", "d32_negative_duration_float_totals.py", ["R03.18"]),
    ("D34", "C14", "b03614f", "d34_signed_count_beyond_32_bits.py", ["R14.11"]),
]
demos = os.path.join(HERE, "demos")
for did, prop, commit, demo, rules in CASES:
    d = os.path.join(HERE, "seeded", f"{prop}-{did}")
    os.makedirs(d, exist_ok=True)
    diff = subprocess.run(["git", "-C", "/repo", "show", "-R", "--format=", commit, "--", "pyoda_time"], capture_output=True, text=True).stdout
    open(os.path.join(d, "patch.diff"), "w").write(diff)
    src = open(os.path.join(demos, demo)).read() if os.path.exists(os.path.join(demos, demo)) else ""
    boot = 'import os, sys\nsys.path.insert(0, "/verif/demos/stub"); sys.path.insert(0, os.environ.get("PYODA_REPO", "/repo"))\n'
    open(os.path.join(d, "demo.py"), "w").write(src.replace("import _boot, ", boot + "import ").replace("import _boot\n", boot))
    subj = subprocess.run(["git", "-C", "/repo", "log", "-1", "--format=%s", commit], capture_output=True, text=True).stdout.strip()
    open(os.path.join(d, "notes.md"), "w").write(f"{prop} / {did} - reverse of the repair `{commit}` ({subj}): re-introduces the genuine defect {did} found on the pinned tree.\n")
    meta = {"property": prop, "seed": f"{prop}-{did}", "source": f"reverse of fix commit {commit}", "summary": f"{did}: reverse of `{subj}`",
            "detected_by": rules, "verified": {"how": "the demo under /verif/demos failed before the fix and passes after it (see known_findings.json)"}}
    json.dump(meta, open(os.path.join(d, "meta.json"), "w"), indent=1)
print(len(CASES), "D-cases written")
