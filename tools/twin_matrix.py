#!/usr/bin/env python3
"""Run every claimed property's check on scratch copies of /repo carrying one behaviour-preserving refactoring each
(/verif/twins/<name>/patch.diff): every check must stay silent (exit 0).  Prints the alarms, if any."""
import concurrent.futures as cf
import json, os, re, shutil, subprocess, sys, tempfile

HERE = os.path.dirname(os.path.dirname(os.path.abspath(__file__)))
BASE = "/repo/pyoda_time"  # replaced in main() by a snapshot of the package, so that commits to /repo made while the matrix runs do not leak into it
SNAP = HERE  # replaced in main() by a snapshot of the checker, so that edits made while the matrix runs do not leak into it
TWINS = os.path.join(HERE, "twins")
PROPS = [c["property_id"] for c in json.load(open(os.path.join(HERE, "MANIFEST.json")))["checks"]]


def run_one(name: str):
    d = os.path.join(TWINS, name)
    tmp = tempfile.mkdtemp(prefix="twinrun_")
    out = []
    try:
        shutil.copytree(BASE, os.path.join(tmp, "pyoda_time"), ignore=shutil.ignore_patterns("__pycache__"))
        r = subprocess.run(["patch", "-p1", "-s", "--no-backup-if-mismatch", "-i", os.path.join(d, "patch.diff")], cwd=tmp, capture_output=True, text=True)
        if r.returncode != 0:
            return name, [("-", -1, "patch does not apply")]
        env = dict(os.environ, PYTHONPATH=SNAP)
        only = json.loads(os.environ.get("TWIN_ONLY") or "{}")  # {"C01": "R01.15,R01.16", ...}: re-check just these rules (after adding rules)
        for p in (sorted(only) if only else PROPS):
            extra = ["--rule", only[p]] if only else []
            q = subprocess.run(["/venv/bin/python", "-m", "sa.run", "--property", p, "--repo", tmp, "--no-write", *extra], cwd=SNAP, capture_output=True, text=True, env=env)
            if q.returncode != 0:
                first = next((l.strip()[:220] for l in q.stdout.splitlines() if l.strip().startswith(("violation:", "ANALYSIS-ERROR"))), "")
                out.append((p, q.returncode, first))
        return name, out
    finally:
        shutil.rmtree(tmp, ignore_errors=True)


def _snapshot() -> str:
    """Copy of the checker (sa/, properties.jsonl, known_findings.json, MANIFEST.json) under a temp dir outside /verif."""
    d = tempfile.mkdtemp(prefix="sasnap_")
    shutil.copytree(os.path.join(HERE, "sa"), os.path.join(d, "sa"), ignore=shutil.ignore_patterns("__pycache__"))
    for f in ("properties.jsonl", "known_findings.json", "MANIFEST.json"):
        shutil.copy(os.path.join(HERE, f), os.path.join(d, f))
    return d


def main():
    global SNAP, BASE
    SNAP = _snapshot()
    shutil.copytree(BASE, os.path.join(SNAP, "base_pkg"), ignore=shutil.ignore_patterns("__pycache__"))
    BASE = os.path.join(SNAP, "base_pkg")
    import atexit
    atexit.register(shutil.rmtree, SNAP, True)
    names = sorted(n for n in os.listdir(TWINS) if os.path.isdir(os.path.join(TWINS, n)))
    if len(sys.argv) > 1:
        names = [n for n in names if n in sys.argv[1:]]
    bad = 0
    with cf.ThreadPoolExecutor(max_workers=14) as ex:
        for name, out in ex.map(run_one, names):
            if not out:
                print(f"{name:12s} silent on all {len(PROPS)} properties")
            for p, rc, first in out:
                bad += 1
                print(f"{name:12s} {p} rc={rc} {first}")
    print(f"{len(names)} twins, {bad} alarms")
    return 1 if bad else 0


if __name__ == "__main__":
    sys.exit(main())
