#!/bin/bash
# Ingest the deliverables of a round-N seeding agent: tools/ingest_r2.sh <ID> [suffix=r2]
# copies /tmp/mut/out/<ID><suffix>/<k> to /tmp/mut/out/<ID>/<n>, re-verifies each with tools/verify_seeded.sh (scratch worktree),
# keeps the confirmed ones under /verif/seeded/<ID>-<n>, removes the agent's worktree.
set -u
ID=$1; SUF=${2:-r2}
SRC=/tmp/mut/out/${ID}${SUF}
[ -d "$SRC" ] || { echo "no $SRC"; exit 1; }
n=$(ls -d /verif/seeded/${ID}-[0-9]* 2>/dev/null | sed "s#.*/${ID}-##" | sort -n | tail -1); n=${n:-0}
for k in $(ls $SRC | sort -n); do
  [ -f $SRC/$k/patch.diff ] || continue
  n=$((n+1)); rm -rf /tmp/mut/out/$ID/$n; mkdir -p /tmp/mut/out/$ID/$n
  cp $SRC/$k/* /tmp/mut/out/$ID/$n/
  sed -i "s#/tmp/mut/${ID}${SUF}#/tmp/mut/${ID}#g; s#/tmp/mut/out/${ID}${SUF}#/tmp/mut/out/${ID}#g" /tmp/mut/out/$ID/$n/demo.py /tmp/mut/out/$ID/$n/notes.md 2>/dev/null
  /verif/tools/verify_seeded.sh $ID $n 2>&1 | tail -2
done
git -C /repo worktree remove --force /tmp/mut/${ID}${SUF} 2>/dev/null
echo "ingested $ID up to $n"
