"""D23 (C16, repaired): the first days of the Badi calendar belong, under most week-year rules, to week-year 0; the week rules then
ask the calculator about calendar year 0, which the Badi calculator rejected (ValueError out of get_week_year / get_week_of_week_year)
although every other calculator answers for one year beyond each end, as the week rules assume."""
import _boot
from pyoda_time import CalendarSystem, IsoDayOfWeek, LocalDate
from pyoda_time.calendars import CalendarWeekRule, WeekYearRules
rules = [WeekYearRules.iso] + [WeekYearRules.for_min_days_in_first_week(n, d) for n in range(1, 8) for d in IsoDayOfWeek if d != IsoDayOfWeek.NONE]
rules += [WeekYearRules.from_calendar_week_rule(r, d) for r in CalendarWeekRule for d in IsoDayOfWeek if d != IsoDayOfWeek.NONE]
cal = CalendarSystem.badi
bad = []
first = LocalDate(cal.min_year, 1, 1, cal)
last = LocalDate(cal.max_year, 19, 19, cal)
dates = [first.plus_days(k) for k in range(10)] + [last.plus_days(-k) for k in range(10)]
for rule in rules:
    for date in dates:
        try:
            wy, w = rule.get_week_year(date), rule.get_week_of_week_year(date)
            back = rule.get_local_date(wy, w, date.day_of_week, cal)
            if back != date or not 1 <= w <= rule.get_weeks_in_week_year(wy, cal):
                bad.append((date, wy, w, back))
        except Exception as e:  # noqa: BLE001
            bad.append((date, type(e).__name__, str(e).splitlines()[0]))
print(len(rules), "rules x", len(dates), "dates at the ends of the Badi calendar:", len(bad), "failures", bad[:3])
print("PASS" if not bad else "FAIL"); raise SystemExit(0 if not bad else 1)
