"""D19 (C08/C07): the ISO fast path of the LocalDate parser accepts year -9999, outside the ISO calendar (min year -9998).

parse() reports success carrying a LocalDate that the type's own constructor rejects.
"""
import _boot
from pyoda_time import LocalDate, CalendarSystem
from pyoda_time.text import LocalDatePattern, LocalDateTimePattern
ok = True
for pat, text in ((LocalDatePattern.iso, "-9999-06-15"), (LocalDateTimePattern.general_iso, "-9999-06-15T10:00:00"), (LocalDatePattern.iso, "-9998-01-01")):
    r = pat.parse(text)
    if r.success:
        y = r.value.year
        inside = CalendarSystem.iso.min_year <= y <= CalendarSystem.iso.max_year
        print(text, "-> success, year", y, "inside the calendar" if inside else "OUTSIDE the calendar's range")
        ok &= inside
    else:
        print(text, "-> failure result:", str(r.exception)[:80])
print("PASS" if ok else "FAIL"); raise SystemExit(0 if ok else 1)
