"""D5 (C01): calendars with a single era cannot list their eras: _SingleEraCalculator._ctor bypasses _EraCalculator.__init__ and never sets _eras."""
import _boot
from pyoda_time import CalendarSystem
ok = True
for cal in (CalendarSystem.iso, CalendarSystem.coptic, CalendarSystem.hebrew_civil, CalendarSystem.um_al_qura, CalendarSystem.badi):
    try:
        eras = list(cal.eras())
        print(cal.id, "eras:", [e.name for e in eras]); ok &= len(eras) >= 1
    except AttributeError as e:
        print(cal.id, "eras(): AttributeError:", e); ok = False
print("PASS" if ok else "FAIL"); raise SystemExit(0 if ok else 1)
