"""D29 (C13, repaired): Era has no __eq__ - eras are compared by identity - and its instances were created through functools.cache,
which is not atomic: two threads asking for an era that had not been created yet could each get their own object.  A calendar
that kept the loser's object then rejected the "same" era: ValueError "Only supported era is AP; requested era was AP"."""
import sys
import threading
import _boot
from pyoda_time.calendars import Era

# Force the interleaving: the first thread is held inside the construction of Era("AP") while a second one asks for it.
inside, release = threading.Event(), threading.Event()
calls = []


def tracer(frame, event, arg):
    if event == "call" and frame.f_code.co_name == "_ctor" and frame.f_code.co_filename.endswith("_era.py") and threading.current_thread().name == "first":
        def local(frame, event, arg):
            if event == "line" and not inside.is_set() and "__new__" in (frame.f_code.co_names or ()):
                calls.append(frame.f_lineno)
                if len(calls) >= 2:          # past the cache lookup, before the object is published
                    inside.set()
                    release.wait(5)
            return local
        return local
    return None


got = {}


def first():
    sys.settrace(tracer)
    got["first"] = Era.anno_persico
    sys.settrace(None)


t1 = threading.Thread(target=first, name="first")
t1.start()
inside.wait(5)
got["second"] = Era.anno_persico
release.set(); t1.join()
third = Era.anno_persico
print("first is second:", got["first"] is got["second"], "| second is registered:", got["second"] is third, "| first is registered:", got["first"] is third)
ok = got["first"] is got["second"] is third
print("PASS" if ok else "FAIL"); raise SystemExit(0 if ok else 1)
