"""D32 (C03, repaired): the float unit conversions of Duration added the scaled floor-day part and the float quotient of the
nanosecond-of-day part.  For a negative duration the parts have opposite signs (-1 ns is day -1 + 86_399_999_999_999 ns): the sum
cancels and keeps the rounding error of the quotient - `Duration.from_nanoseconds(-1).total_seconds` was -1.0040821507573128e-09
(0.4 % off) while `+1 ns` gave 1e-09.  One int / int division of the exact total is correctly rounded."""
import _boot
from fractions import Fraction
from pyoda_time import Duration

units = {"total_days": 86_400_000_000_000, "total_hours": 3_600_000_000_000, "total_minutes": 60_000_000_000, "total_seconds": 1_000_000_000,
         "total_milliseconds": 1_000_000, "total_ticks": 100}
bad = []
for ns in (-1, -7, -100, -999_999_999, -86_399_999_999_999, -86_400_000_000_001, 1, 999_999_999, 10**20 + 1, -(10**20) - 1):
    d = Duration.from_nanoseconds(ns)
    for name, unit in units.items():
        got = getattr(d, name)
        want = float(Fraction(ns, unit))  # correctly rounded
        if got != want:
            bad.append((ns, name, got, want))
        if getattr(Duration.from_nanoseconds(-ns), name) != -got:
            bad.append((ns, name, "not antisymmetric", getattr(Duration.from_nanoseconds(-ns), name)))
for b in bad[:8]:
    print("  ", b)
print(f"{len(bad)} inexact float conversions")
ok = not bad
print("PASS" if ok else "FAIL"); raise SystemExit(0 if ok else 1)
