# minimal stub for exploration only (not part of /verif machinery)
class _Any:
    def __getattr__(self, n): return _Any()
    def __call__(self, *a, **k): return _Any()
Locale = DateFormat = DecimalFormatSymbols = Calendar = SimpleDateFormat = DateFormatSymbols = DateTimePatternGenerator = _Any()
def __getattr__(n): return _Any()
