"""D26 (C09/C01, repaired): CalendarSystem.get_hebrew_calendar accepts the plain integers 1 / 2 for the month numbering (they match
the IntEnum members in its dispatch) and builds the process-wide Hebrew calendar with that int; two conversions in the calculator
then compared the numbering with `is HebrewMonthNumbering.X`, which is false for the equal plain int, so month arithmetic used
the wrong numbering for the rest of the process.  Run in a fresh process: the first request for the calendar decides."""
import _boot
from pyoda_time import CalendarSystem, LocalDate
civil = CalendarSystem.get_hebrew_calendar(1)           # plain int, first request in this process
d = LocalDate(5784, 1, 10, civil)
got = d.plus_months(1)
print("5784-01-10 (Hebrew civil) + 1 month =", (got.year, got.month, got.day))
ok = (got.year, got.month, got.day) == (5784, 2, 10) and civil is CalendarSystem.hebrew_civil
print("PASS" if ok else "FAIL"); raise SystemExit(0 if ok else 1)
