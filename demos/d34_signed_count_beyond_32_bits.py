"""D34 (C14, repaired): write_signed_count zigzag-codes with `count >> 31` as the sign, which is only the sign of a 32-bit value.
Python integers are unbounded, so 2**31 was ACCEPTED, written as 81 80 80 80 10 and read back as -2147483649: a value the writer
accepts must read back equal (or be rejected, as write_count rejects what it cannot carry)."""
import _boot
import io
from pyoda_time.time_zones.io._date_time_zone_reader import _DateTimeZoneReader
from pyoda_time.time_zones.io._date_time_zone_writer import _DateTimeZoneWriter

bad = []
for v in (0, -1, 2**31 - 1, -(2**31), 2**31, -(2**31) - 1, 2**32, 2**40, -(2**40)):
    buf = io.BytesIO()
    w = _DateTimeZoneWriter._ctor(buf, None)
    try:
        w.write_signed_count(v)
    except ValueError:
        continue  # rejected: fine
    r = _DateTimeZoneReader._ctor(io.BytesIO(buf.getvalue()), None)
    back = r.read_signed_count()
    if back != v:
        bad.append((v, buf.getvalue().hex(), back))
for b in bad:
    print("   write_signed_count(%d) -> %s -> read_signed_count() == %d" % b)
ok = not bad
print("PASS" if ok else "FAIL"); raise SystemExit(0 if ok else 1)
