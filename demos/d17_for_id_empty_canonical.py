"""D17 (C20): a 2-byte substitution in the id map makes for_id raise ValueError("... not found") for an id get_ids() lists.

Offsets 118506-118507 := 92 00 point the alias "GMT" at string-pool index 18, the empty string; the truthiness test in
TzdbDateTimeZoneSource.for_id then treats the (present) mapping as missing. Found by the round-2 seeding sub-agent.
"""
import _boot, io, os
from pyoda_time.time_zones._tzdb_date_time_zone_source import TzdbDateTimeZoneSource
from pyoda_time.utility import InvalidPyodaDataError
path = os.path.join(os.environ.get("PYODA_REPO", "/repo"), "pyoda_time/time_zones/Tzdb.nzd")
b = bytearray(open(path, "rb").read()); b[118506] = 0x92; b[118507] = 0x00
src = TzdbDateTimeZoneSource.from_stream(io.BytesIO(bytes(b)))
ids = list(src.get_ids())
bad = []
for i in ids:
    try:
        src.for_id(i)
    except InvalidPyodaDataError:
        pass
    except Exception as e:
        bad.append((i, type(e).__name__, str(e)[:60]))
print("ids:", len(ids), "foreign exceptions:", bad[:3])
print("PASS" if not bad else "FAIL"); raise SystemExit(0 if not bad else 1)
