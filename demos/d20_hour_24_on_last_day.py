"""D20 (C08): "24:00" on the last day of the calendar makes parse raise instead of returning a failure result.

Hour 24 with everything below it zero means midnight at the start of the next day; the LocalDateTime bucket computes that with
date.plus_days(1).  For the last date of the calendar there is no next day: plus_days raises OverflowError, which escapes parse().
"""
import _boot
from pyoda_time.text import LocalDateTimePattern
ok = True
pat = LocalDateTimePattern.create_with_invariant_culture("uuuu-MM-dd'T'HH:mm:ss")
for text in ("9999-12-31T24:00:00", "9999-12-30T24:00:00", "9999-12-31T23:59:59"):
    try:
        r = pat.parse(text)
        print(text, "->", "success " + str(r.value) if r.success else "failure result: " + str(r.exception)[:90])
    except Exception as e:  # noqa: BLE001
        print(text, "-> parse RAISED", type(e).__name__ + ":", e)
        ok = False
print("PASS" if ok else "FAIL"); raise SystemExit(0 if ok else 1)
