"""D28 (C09, repaired): month addition reports a result outside the calendar with OverflowError, but the regular calculators asked
the calendar for the month length of the target year BEFORE checking the year; calculators with per-year tables (Um Al Qura, Persian
astronomical) then failed inside the table with KeyError / IndexError when the result was two or more years outside."""
import _boot
from pyoda_time import CalendarSystem, LocalDate
bad = []
for cal, ymd, k in ((CalendarSystem.um_al_qura, (1500, 5, 15), 24), (CalendarSystem.um_al_qura, (1318, 2, 1), -14), (CalendarSystem.um_al_qura, (1500, 5, 15), 12),
                    (CalendarSystem.persian_astronomical, (9377, 12, 1), 120), (CalendarSystem.persian_astronomical, (9377, 12, 1), 12)):
    try:
        r = LocalDate(*ymd, cal).plus_months(k)
        got = f"returned {r}"
    except Exception as e:  # noqa: BLE001
        got = type(e).__name__
    print(f"{cal.id} {ymd} + {k} months: {got}")
    if got != "OverflowError":
        bad.append((cal.id, ymd, k, got))
print("PASS" if not bad else "FAIL"); raise SystemExit(0 if not bad else 1)
