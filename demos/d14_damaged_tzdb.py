"""D14 (C20): damaged zone data surfaces exception types other than the documented InvalidPyodaDataError.

Systematic single-byte corruption / truncation of the real Tzdb.nzd (sampled positions), then from_stream + get_ids + for_id.
"""
import _boot, io, collections, random, os
from pyoda_time.time_zones._tzdb_date_time_zone_source import TzdbDateTimeZoneSource
from pyoda_time.utility import InvalidPyodaDataError

path = os.path.join(os.environ.get("PYODA_REPO", "/repo"), "pyoda_time/time_zones/Tzdb.nzd")
data = open(path, "rb").read()
rng = random.Random(20)
seen = collections.Counter()
examples = {}

def attempt(blob, label):
    try:
        src = TzdbDateTimeZoneSource.from_stream(io.BytesIO(blob))
        ids = list(src.get_ids())
        for i in ids[:40]:
            src.for_id(i)
        seen["ok"] += 1
    except InvalidPyodaDataError:
        seen["InvalidPyodaDataError"] += 1
    except Exception as e:  # anything else breaks the documented contract
        seen[type(e).__name__] += 1
        examples.setdefault(type(e).__name__, (label, str(e)[:80]))

attempt(data[:3], "truncate@3")
for _ in range(60):
    n = rng.randrange(len(data)); attempt(data[:n], f"truncate@{n}")
for _ in range(250):
    p = rng.randrange(min(len(data), 60000)); b = bytearray(data); b[p] = rng.randrange(256); attempt(bytes(b), f"byte@{p}={b[p]}")
print(dict(seen))
for k, v in examples.items():
    print("  foreign:", k, v)
bad = {k for k in seen if k not in ("ok", "InvalidPyodaDataError")}
print("PASS" if not bad else "FAIL"); raise SystemExit(0 if not bad else 1)
