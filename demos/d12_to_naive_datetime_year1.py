"""D12 (C15): LocalDateTime.to_naive_datetime rejects every value in year 1, which datetime supports (datetime.min is 0001-01-01)."""
import _boot, datetime
from pyoda_time import LocalDateTime
ok = True
for dt in (datetime.datetime.min, datetime.datetime(1, 6, 15, 12, 30), datetime.datetime(2, 1, 1)):
    ldt = LocalDateTime.from_naive_datetime(dt)
    try:
        back = ldt.to_naive_datetime()
        print(dt, "->", back); ok &= back == dt
    except RuntimeError as e:
        print(dt, "-> RuntimeError:", e); ok = False
print("PASS" if ok else "FAIL"); raise SystemExit(0 if ok else 1)
