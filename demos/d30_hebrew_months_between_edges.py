"""D30 (C09, repaired): the Hebrew calendars find the number of months between two dates by stepping until start + n months
overshoots the end.  When the end lay in the last month of year 9999 (or the first month of year 1) the overshooting probe was
outside the calendar and Period.between(..., MONTHS) - and the `-` operator - raised OverflowError for two valid dates."""
import _boot
from pyoda_time import CalendarSystem, LocalDate, Period, PeriodUnits
bad = []
for cal in (CalendarSystem.hebrew_civil, CalendarSystem.hebrew_scriptural):
    last_month = 12 if cal is CalendarSystem.hebrew_civil else 6
    first_month = 1 if cal is CalendarSystem.hebrew_civil else 7
    cases = [((9999, last_month, 1), (9999, last_month, 29)), ((9998, last_month, 29), (9999, last_month, 29)), ((1, first_month + 2, 1), (1, first_month, 1))]
    for a, b in cases:
        s, e = LocalDate(*a, cal), LocalDate(*b, cal)
        try:
            p = Period.between(s, e, PeriodUnits.MONTHS | PeriodUnits.DAYS)
            back = s + p
            ok = back == e
            print(cal.id, a, "->", b, "=", p, "ok" if ok else f"WRONG: start + period = {back}")
            if not ok:
                bad.append((cal.id, a, b))
        except Exception as ex:  # noqa: BLE001
            print(cal.id, a, "->", b, "RAISED", type(ex).__name__)
            bad.append((cal.id, a, b))
print("PASS" if not bad else "FAIL"); raise SystemExit(0 if not bad else 1)
