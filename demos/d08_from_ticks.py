"""D8 (C03): Duration.from_ticks(int) (a) never validates its range and (b) splits ticks with float division.

(a) from_ticks(10**40) silently returns a Duration far outside the documented range instead of raising.
(b) ticks = 10**9 days + (TICKS_PER_DAY - 1): float division rounds the day count up, so the normal form breaks
    (negative nanosecond-of-day) and the value no longer equals the same amount built from nanoseconds.
"""
import _boot
from pyoda_time import Duration, PyodaConstants
ok = True
try:
    d = Duration.from_ticks(10**40)
    print("from_ticks(10**40) returned a value with _floor_days =", d._floor_days, "(max is", Duration._MAX_DAYS, ")")
    ok = False
except (ValueError, OverflowError) as e:
    print("from_ticks(10**40) raised", type(e).__name__)
t = 10**9 * PyodaConstants.TICKS_PER_DAY + PyodaConstants.TICKS_PER_DAY - 1
d = Duration.from_ticks(t)
print("from_ticks(1e9 days + TPD-1): floor_days =", d._floor_days, "nano_of_floor_day =", d._nanosecond_of_floor_day)
if not (0 <= d._nanosecond_of_floor_day < PyodaConstants.NANOSECONDS_PER_DAY) or d != Duration.from_nanoseconds(t * 100):
    ok = False
print("PASS" if ok else "FAIL")
raise SystemExit(0 if ok else 1)
