"""D2 (C16): LocalDate.from_year_month_week_and_day ignores its day_of_week argument."""
import _boot, datetime
from pyoda_time import LocalDate, IsoDayOfWeek
ok = True
seen = set()
for dow in IsoDayOfWeek:
    if dow == IsoDayOfWeek.NONE: continue
    d = LocalDate.from_year_month_week_and_day(2024, 5, 2, dow)
    seen.add(d.day)
    # oracle: 2nd <dow> of May 2024 by walking the month
    days = [x for x in range(1, 32) if datetime.date(2024, 5, x).isoweekday() == int(dow)]
    print(dow.name, "->", d.day, "expected", days[1])
    ok &= d.day == days[1]
last = LocalDate.from_year_month_week_and_day(2024, 5, 5, IsoDayOfWeek.FRIDAY)
print("5th (last) Friday of May 2024 ->", last.day, "expected 31"); ok &= last.day == 31
print("distinct results over the 7 weekdays:", len(seen))
print("PASS" if ok else "FAIL"); raise SystemExit(0 if ok else 1)
