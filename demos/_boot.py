"""Demonstration bootstrap (NOT part of any registered check).

`import pyoda_time` fails in this sandbox because libicui18n.so.73 is absent; the demos put a ten-line stand-in `icu`
module (demos/stub/icu.py) on sys.path so the *unmodified* public API can be exercised. Only culture lookups touch icu.
"""
import os, sys
sys.path.insert(0, os.path.join(os.path.dirname(os.path.abspath(__file__)), "stub"))
sys.path.insert(0, os.environ.get("PYODA_REPO", "/repo"))
