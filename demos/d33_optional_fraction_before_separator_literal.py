"""D33 (C07, known finding, not repaired): an optional fraction (`.FFF` / `;FFF`) directly followed by a literal that is itself
a decimal separator.  For a zero fraction the formatter drops the separator of the fraction, so the text continues with the
literal; the parse action of the fraction sees that literal, takes it for ITS separator and then insists on a digit: the pattern
cannot parse the text it produced although the value is represented exactly."""
import _boot
from pyoda_time import LocalTime
from pyoda_time.text import LocalTimePattern

bad = []
for text in ("HH:mm:ss.FFF.'x'", "HH:mm:ss;FFF,'x'", "ss;FFF, m, HH"):
    p = LocalTimePattern.create_with_invariant_culture(text)
    for v in (LocalTime(12, 0, 0), LocalTime(12, 0, 0).plus_milliseconds(500)):
        s = p.format(v)
        r = p.parse(s)
        if not r.success or r.value != v:
            bad.append((text, str(v), s))
for b in bad:
    print("   pattern %r: value %s formats as %r, which the pattern does not parse back" % b)
ok = not bad
print("PASS" if ok else "FAIL"); raise SystemExit(0 if ok else 1)
