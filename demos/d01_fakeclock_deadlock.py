"""D1 (C19): FakeClock.advance_<unit> holds the non-reentrant lock and calls advance(), which takes it again -> hangs."""
import _boot, threading
from pyoda_time import Instant
from pyoda_time.testing import FakeClock
clock = FakeClock(Instant.from_unix_time_seconds(0))
done = []
t = threading.Thread(target=lambda: (clock.advance_seconds(1), done.append(1)), daemon=True)
t.start(); t.join(2.0)
print("advance_seconds(1) completed:", bool(done))
if done:
    print("now =", clock.get_current_instant().to_unix_time_seconds())
raise SystemExit(0 if done else 1)
