"""D25 (C13, repaired): CompositePatternBuilder.build() handed its own lists to the pattern it built; a later add() on the builder
changed the behaviour of the pattern that had already been built (what it parses depends on what happened to the builder later)."""
import _boot
from pyoda_time import LocalDate
from pyoda_time.text import LocalDatePattern
from pyoda_time.text._composite_pattern_builder import CompositePatternBuilder

iso = LocalDatePattern.iso
slashes = LocalDatePattern.create_with_invariant_culture("dd/MM/uuuu")
builder = CompositePatternBuilder[LocalDate]()
builder.add(iso, lambda d: True)
built = builder.build()
before = built.parse("15/06/2024").success          # the built pattern knows ISO only: must fail
builder.add(slashes, lambda d: False)                # the builder is reused for a second, richer pattern
after = built.parse("15/06/2024").success            # the FIRST pattern must still fail
print("first pattern parses dd/MM/uuuu text: before the builder was reused:", before, "| after:", after)
ok = before is False and after is False
print("PASS" if ok else "FAIL"); raise SystemExit(0 if ok else 1)
