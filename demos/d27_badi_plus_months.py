"""D27 (C09, repaired): Badi month addition computed year and month with 1-based months but a 0-based remainder: whenever
month + k was a multiple of 19 above 19 the result was month 0 of one year too many - a corrupted packed date (year 0, month 32
after packing), or OverflowError two months early at the end of the calendar."""
import _boot
from pyoda_time import CalendarSystem, LocalDate, Period, PeriodUnits
badi = CalendarSystem.badi
bad = []
for y, m, k in ((1, 1, 37), (5, 19, 19), (180, 1, 37), (998, 9, 29), (500, 3, 16), (500, 3, 35), (500, 3, 36)):
    start = LocalDate(y, m, 1, badi)
    idx = y * 19 + (m - 1) + k
    want = (idx // 19, idx % 19 + 1, 1)
    try:
        got = start.plus_months(k)
        got = (got.year, got.month, got.day)
    except Exception as e:  # noqa: BLE001
        got = f"{type(e).__name__}"
    print(f"({y}, {m}, 1) + {k} months = {got}   expected {want}")
    if got != want:
        bad.append((y, m, k))
start, end = LocalDate(1, 1, 1, badi), LocalDate(2, 19, 1, badi)
p = Period.between(start, end, PeriodUnits.MONTHS)
back = start + p
print("between((1,1,1),(2,19,1), MONTHS) =", p, "-> start + period =", (back.year, back.month, back.day))
if back != end:
    bad.append("between")
print("PASS" if not bad else "FAIL"); raise SystemExit(0 if not bad else 1)
