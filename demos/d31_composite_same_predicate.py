"""D31 (C07, repaired): a composite pattern formats with the LAST added pattern whose predicate accepts the value (documented:
predicates are checked in reverse order of addition).  The lookup found the accepting predicate and then searched for it BY VALUE
(`list.index`), which returns the first equal element: with one predicate object registered for two patterns the first pattern
was used."""
import _boot
from pyoda_time import LocalTime
from pyoda_time.text import LocalTimePattern
from pyoda_time.text._composite_pattern_builder import CompositePatternBuilder

always = lambda value: True  # noqa: E731
b = CompositePatternBuilder[LocalTime]()
b.add(LocalTimePattern.create_with_invariant_culture("HH:mm:ss"), always)
b.add(LocalTimePattern.create_with_invariant_culture("HH:mm"), always)
text = b.build().format(LocalTime(13, 45))
print("formatted with the pattern:", "HH:mm (last added)" if text == "13:45" else f"{text!r} (first added)")
ok = text == "13:45"
print("PASS" if ok else "FAIL"); raise SystemExit(0 if ok else 1)
