"""D9 (C03/C09): _towards_zero_division goes through 28-digit Decimal arithmetic: inexact (or raising) for large integers.

Period fields are unbounded Python ints; Period.normalize() and Duration arithmetic divide with this helper.
"""
import _boot
from pyoda_time.utility._csharp_compatibility import _towards_zero_division
from pyoda_time import Period, PyodaConstants
ok = True
NPD = PyodaConstants.NANOSECONDS_PER_DAY
for k in (10**16 + 7, 10**17 + 3):
    x = k * NPD - 1                      # one nanosecond short of k days
    got = _towards_zero_division(x, NPD)
    print(f"({k}*NPD - 1) // NPD towards zero -> {got}  (exact: {k - 1})")
    ok &= got == k - 1
try:
    got = _towards_zero_division(10**30, 1)
    print("10**30 / 1 ->", got); ok &= got == 10**30
except Exception as e:
    print("10**30 / 1 -> RAISED", type(e).__name__); ok = False
p = Period.from_nanoseconds((10**16 + 7) * NPD - 1).normalize()
print("Period.normalize:", p.days, "d", p.hours, "h", p.minutes, "m", p.seconds, "s", p.milliseconds, "ms", p.nanoseconds, "ns")
ok &= (p.days, p.hours, p.minutes, p.seconds, p.milliseconds, p.nanoseconds) == (10**16 + 6, 23, 59, 59, 999, 999999)
print("PASS" if ok else "FAIL"); raise SystemExit(0 if ok else 1)
