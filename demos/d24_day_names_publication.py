"""D24 (C13, repaired): _PyodaFormatInfo initialises its month / day name lists lazily with double-checked locking, but stored the
field that the lock-free fast path tests BEFORE the other fields of the group.  A second thread that asks for short_day_names
while the first is still inside the locked block passes the fast-path test and reads a field that does not exist yet."""
import threading
import _boot
from pyoda_time._compatibility._culture_info import CultureInfo
from pyoda_time.globalization._pyoda_format_info import _PyodaFormatInfo

entered, release = threading.Event(), threading.Event()
base = CultureInfo.invariant_culture.date_time_format


class SlowFormat:
    """Stand-in for the culture's DateTimeFormatInfo: reading the abbreviated day names takes a while (as ICU lookups do)."""

    def __getattr__(self, name):
        return getattr(base, name)

    @property
    def abbreviated_day_names(self):
        entered.set()
        release.wait(5)
        return base.abbreviated_day_names


info = _PyodaFormatInfo(CultureInfo.invariant_culture, SlowFormat())
first = threading.Thread(target=lambda: info.long_day_names)
first.start()
assert entered.wait(5)          # thread 1 is inside the locked block, half-way through the group
outcome = []


def second():
    try:
        outcome.append(("value", info.short_day_names))
    except Exception as e:  # noqa: BLE001
        outcome.append(("raised", f"{type(e).__name__}: {e}"))


t2 = threading.Thread(target=second)
t2.start()
t2.join(1.0)                    # with the fix thread 2 waits for the lock; without it, it has already failed
early = list(outcome)
release.set(); first.join(); t2.join()
print("second thread before the first finished:", early or "waiting for the lock", "| finally:", outcome[0][0])
ok = not early and outcome[0][0] == "value" and outcome[0][1][1] == "Mon"
print("PASS" if ok else "FAIL"); raise SystemExit(0 if ok else 1)
