"""D21 (C01): five Badi years (249, 253, 645, 649, 653) whose table entries disagree: the Ayyam-i-Ha flag says 365 days, the two
Naw-Ruz dates are 366 days apart.  Day numbers at the start of the following year do not convert back to themselves."""
import _boot
from pyoda_time import CalendarSystem
calc = CalendarSystem.badi._year_month_day_calculator
bad_years = [y for y in range(1, 999) if calc._get_start_of_year_in_days(y + 1) - calc._get_start_of_year_in_days(y) != calc._get_days_in_year(y)]
print("years whose length disagrees with the next year start:", bad_years)
lo, hi = CalendarSystem.badi._min_days, CalendarSystem.badi._max_days
bad_days = [d for d in range(lo, hi + 1) if calc._get_days_since_epoch(calc._get_year_month_day(days_since_epoch=d)) != d]
print("day numbers that do not round-trip:", len(bad_days), "of", hi - lo + 1, "first:", bad_days[:3])
ok = not bad_years and not bad_days
print("PASS" if ok else "FAIL"); raise SystemExit(0 if ok else 1)
