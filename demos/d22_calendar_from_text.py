"""D22 (C08, repaired): with a calendar parsed from the text ('c'), the year / era defaulted from the template value need not exist
in that calendar; the calendar queries raised ValueError out of parse() instead of parse() returning a failed ParseResult."""
import _boot
from pyoda_time.text import LocalDatePattern
bad = []
for pattern, text in (("c MM-dd", "Badi 01-01"), ("c dd", "Um Al Qura 19"), ("c yyyy-MM-dd", "Coptic 1700-01-01"), ("c yy-MM-dd", "Hebrew Civil 80-01-01")):
    p = LocalDatePattern.create_with_invariant_culture(pattern)
    try:
        r = p.parse(text)
        print(f"{pattern!r} on {text!r}: ParseResult(success={r.success})")
    except Exception as e:  # noqa: BLE001
        bad.append((pattern, text))
        print(f"{pattern!r} on {text!r}: parse RAISED {type(e).__name__}: {str(e).splitlines()[0]}")
# unaffected: same calendar as the template, or a calendar that has the template's year and era
ok = LocalDatePattern.create_with_invariant_culture("c yyyy-MM-dd").parse("Julian 1700-01-01")
assert ok.success and ok.value.year == 1700, ok
print("PASS" if not bad else "FAIL"); raise SystemExit(0 if not bad else 1)
