"""D3 (C09): Period.between(YearMonth, YearMonth, PeriodUnits.MONTHS) reports the month count as years."""
import _boot
from pyoda_time import Period, PeriodUnits, YearMonth
p = Period.between(YearMonth(year=2020, month=1), YearMonth(year=2021, month=3), PeriodUnits.MONTHS)
print("between(2020-01, 2021-03, MONTHS) =", p, "| years:", p.years, "months:", p.months)
ok = p.months == 14 and p.years == 0
print("PASS" if ok else "FAIL"); raise SystemExit(0 if ok else 1)
