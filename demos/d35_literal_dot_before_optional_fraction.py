"""D35 (C07, known finding, not repaired): for a zero fraction `_FormatHelper._append_fraction_truncate` removes the character
before the fraction whenever it is '.', whichever format action wrote it: a QUOTED or escaped '.' (or a culture's '.' time
separator) directly before `FFF` disappears from the text, and the parser - which still expects that literal - rejects the text
the pattern produced."""
import _boot
from pyoda_time import Duration, LocalTime
from pyoda_time.text import DurationPattern, LocalTimePattern

bad = []
for text, v in (("HH:mm:ss'.'FFF", LocalTime(1, 2, 3)), ("HH:mm:ss\\.FFF", LocalTime(1, 2, 3)), ("HH'.'mm'.'FFF", LocalTime(1, 2, 0))):
    p = LocalTimePattern.create_with_invariant_culture(text)
    s = p.format(v)
    r = p.parse(s)
    if not r.success or r.value != v:
        bad.append((text, str(v), s))
p = DurationPattern.create_with_invariant_culture("-H:mm:ss'.'FFF")
s = p.format(Duration.from_seconds(5))
r = p.parse(s)
if not r.success or r.value != Duration.from_seconds(5):
    bad.append(("-H:mm:ss'.'FFF", "5 s", s))
for b in bad:
    print("   pattern %r: value %s formats as %r, which the pattern does not parse back" % b)
ok = not bad
print("PASS" if ok else "FAIL"); raise SystemExit(0 if ok else 1)
