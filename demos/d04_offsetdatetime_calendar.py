"""D4 (C11): OffsetDateTime + / - Duration and OffsetDateTime.in_zone drop the calendar (result is ISO)."""
import _boot
from pyoda_time import CalendarSystem, Duration, LocalDateTime, Offset, OffsetDateTime, DateTimeZone
odt = OffsetDateTime(LocalDateTime(2020, 3, 1, 12, 0, calendar=CalendarSystem.julian), Offset.from_hours(2))
ok = True
for label, r in (("+", odt + Duration.from_hours(1)), ("-", odt - Duration.from_hours(1)), ("plus_hours", odt.plus_hours(1)), ("in_zone", odt.in_zone(DateTimeZone.utc))):
    same = r.calendar == odt.calendar
    print(f"{label}: calendar {r.calendar} (expected {odt.calendar}); date {r.date}")
    ok &= same
print("PASS" if ok else "FAIL")
raise SystemExit(0 if ok else 1)
