"""D13 (C08): OffsetPattern.parse raises ValueError for offsets whose fields are each in range but whose total exceeds 18 h."""
import _boot
from pyoda_time.text import OffsetPattern
ok = True
for pat, text in (("+HH", "+19"), ("-HH:mm", "-23:59"), ("+HH:mm:ss", "+18:00:01"), ("+HH:mm", "+18:00"), ("g", "+19:00")):
    p = OffsetPattern.create_with_invariant_culture(pat)
    try:
        r = p.parse(text)
        print(pat, text, "->", "success " + str(r.value) if r.success else "failure result: " + str(r.exception)[:70])
        if r.success and abs(r.value.seconds) > 18 * 3600:
            ok = False
    except Exception as e:  # parse must never raise
        print(pat, text, "-> RAISED", type(e).__name__, e); ok = False
print("PASS" if ok else "FAIL"); raise SystemExit(0 if ok else 1)
