"""D15 (C13): unsynchronised check-then-act on identity-bearing registries.

(a) DateTimeZoneCache.__get_zone_from_source_or_none: two threads asking for the same (not yet loaded) id both see None,
    both call source.for_id and each returns its own zone object: "repeated provider lookups return the same zone" fails.
(b) CalendarSystem.__ctor: two threads creating the same calendar both pass the registry test; the loser returns a
    CalendarSystem that is not the registered singleton, so calendar identity (used by == checks) differs.
The interleaving is forced deterministically with a barrier inside the factory call (no timing luck involved).
"""
import _boot, threading
from pyoda_time import CalendarSystem, DateTimeZoneProviders
from pyoda_time.time_zones import DateTimeZoneCache
from pyoda_time.time_zones._tzdb_date_time_zone_source import TzdbDateTimeZoneSource

ok = True
# ---- (a) zone map
src = TzdbDateTimeZoneSource.default
barrier = threading.Barrier(2, timeout=5)
class SlowSource:
    version_id = src.version_id
    def get_ids(self): return src.get_ids()
    def get_system_default_id(self): return None
    def for_id(self, id_):
        z = src.for_id(id_)
        try: barrier.wait()       # both threads are now past the "is it loaded?" test
        except threading.BrokenBarrierError: pass
        return z
cache = DateTimeZoneCache(SlowSource())
got = []
ts = [threading.Thread(target=lambda: got.append(cache["Europe/London"])) for _ in range(2)]
[t.start() for t in ts]; [t.join() for t in ts]
same = got[0] is got[1] and got[0] is cache["Europe/London"]
print("zone lookups from two racing threads return one identity:", same)
ok &= same
# ---- (b) calendar registry
from pyoda_time._calendar_ordinal import _CalendarOrdinal
reg = CalendarSystem._CalendarSystem__CALENDAR_BY_ORDINAL
reg.pop(_CalendarOrdinal.COPTIC, None)
import pyoda_time.calendars._coptic_year_month_day_calculator as m
orig = m._CopticYearMonthDayCalculator._get_start_of_year_in_days
b2 = threading.Barrier(2, timeout=5)
waited = threading.local()
def slow_start(self, year):          # called inside CalendarSystem.__ctor, after its "already registered?" test
    if not getattr(waited, "done", False):
        waited.done = True
        try: b2.wait()
        except threading.BrokenBarrierError: pass
    return orig(self, year)
m._CopticYearMonthDayCalculator._get_start_of_year_in_days = slow_start
cals = []
ts = [threading.Thread(target=lambda: cals.append(CalendarSystem._for_ordinal(_CalendarOrdinal.COPTIC))) for _ in range(2)]
[t.start() for t in ts]; [t.join() for t in ts]
m._CopticYearMonthDayCalculator._get_start_of_year_in_days = orig
same = cals[0] is cals[1] and cals[0] is CalendarSystem.coptic
print("calendar lookups from two racing threads return one identity:", same)
ok &= same
print("PASS" if ok else "FAIL"); raise SystemExit(0 if ok else 1)
