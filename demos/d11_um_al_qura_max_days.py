"""D11 (C01): the Um Al Qura calendar advertises a maximum day number 348 days after its real last day (1500-12-30):
the static table initialiser also 'accumulates' the sentinel row, so start(1501) is 348 days too late."""
import _boot
from pyoda_time import CalendarSystem, LocalDate
cal = CalendarSystem.um_al_qura
last = LocalDate(cal.max_year, 12, cal.get_days_in_month(cal.max_year, 12), cal)
print("last valid date", last.year, last.month, last.day, "is day number", last._days_since_epoch, "; advertised max day", cal._max_days)
ok = last._days_since_epoch == cal._max_days
try:
    d = LocalDate._ctor(days_since_epoch=last._days_since_epoch + 1, calendar=cal)
    print("day after the last valid date is mapped to", d.year, d.month, d.day, "instead of being rejected"); ok = False
except (ValueError, RuntimeError, OverflowError) as e:
    print("day after the last valid date is rejected:", type(e).__name__)
print("PASS" if ok else "FAIL"); raise SystemExit(0 if ok else 1)
