"""D6/D7 (C14): zone-data writer.
D6: write_milliseconds' most compact arm tests `% 30min == 30` instead of `== 0`: 30 ms after a half-hour is written as the bare
    half-hour count (30 ms lost on read-back) and exact half-hours never use the 1-byte form (not canonical).
D7: write_zone_interval_transition computes hours with a modulo instead of a division, so the hours-since-previous form
    is never emitted (a 24-hour step is written in the 4-byte minutes form instead of 2 bytes).
"""
import _boot, io
from pyoda_time import Instant, Duration, PyodaConstants
from pyoda_time.time_zones.io._date_time_zone_writer import _DateTimeZoneWriter
from pyoda_time.time_zones.io._date_time_zone_reader import _DateTimeZoneReader
ok = True
def rt_ms(ms):
    buf = io.BytesIO(); _DateTimeZoneWriter._ctor(buf, None).write_milliseconds(ms)
    data = buf.getvalue(); back = _DateTimeZoneReader._ctor(io.BytesIO(data), None).read_milliseconds()
    return data, back
for ms in (30, 1_800_030, 1_800_000, 3_600_000):
    data, back = rt_ms(ms)
    print(f"millis {ms}: {len(data)} byte(s), read back {back}")
    ok &= back == ms
ok &= len(rt_ms(3_600_000)[0]) == 1  # documented compact form: whole half-hours take one byte
prev = Instant.from_utc(2000, 1, 1, 0, 0); val = prev + Duration.from_hours(24 * 200)
buf = io.BytesIO(); _DateTimeZoneWriter._ctor(buf, None).write_zone_interval_transition(prev, val)
print("transition 4800h after previous:", len(buf.getvalue()), "bytes:", buf.getvalue().hex())
ok &= len(buf.getvalue()) == 2 and _DateTimeZoneReader._ctor(io.BytesIO(buf.getvalue()), None).read_zone_interval_transition(prev) == val
print("PASS" if ok else "FAIL"); raise SystemExit(0 if ok else 1)
