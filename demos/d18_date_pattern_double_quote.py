"""D18 (C08/C07): a double-quoted literal in a LocalDate pattern raises NotImplementedError at pattern creation.

Every other pattern type routes '"' to the same quote handler as "'"; the LocalDate table has a placeholder lambda.
"""
import _boot
from pyoda_time import LocalDate
from pyoda_time.text import LocalDatePattern, LocalTimePattern, InvalidPatternError
ok = True
try:
    p = LocalDatePattern.create_with_invariant_culture('uuuu"-"MM"-"dd')
    text = p.format(LocalDate(2024, 2, 29)); back = p.parse(text)
    print("created; format ->", text, "; parse ->", back.value if back.success else back.exception)
    ok &= text == "2024-02-29" and back.success and back.value == LocalDate(2024, 2, 29)
except InvalidPatternError as e:
    print("InvalidPatternError:", e); ok = False
except Exception as e:
    print("RAISED", type(e).__name__, e); ok = False
print("(same literal in a time pattern:", LocalTimePattern.create_with_invariant_culture('HH":"mm').format(__import__("pyoda_time").LocalTime(1, 2)), ")")
print("PASS" if ok else "FAIL"); raise SystemExit(0 if ok else 1)
