"""D16 (C01): the Badi calendar advertises years 1..999 but its constructor validation accepts year 1000, producing a date
whose day number lies beyond the calendar's advertised range (and that other APIs then reject)."""
import _boot
from pyoda_time import CalendarSystem, LocalDate
cal = CalendarSystem.badi
print("advertised years:", cal.min_year, "..", cal.max_year, " max day number:", cal._max_days)
ok = True
try:
    d = LocalDate(1000, 1, 1, cal)
    n = d._days_since_epoch
    print("LocalDate(1000, 1, 1, badi) accepted; day number", n, "> max", cal._max_days, ":", n > cal._max_days)
    ok = False
    try:
        LocalDate._ctor(days_since_epoch=n, calendar=cal)
    except ValueError as e:
        print("  converting that day number back is rejected:", str(e)[:60])
except ValueError as e:
    print("LocalDate(1000, 1, 1, badi) rejected:", str(e)[:60])
print("PASS" if ok else "FAIL"); raise SystemExit(0 if ok else 1)
