"""Component retention ("default leak") rule (E5).

Inside code that has a calendar in scope (self or a parameter is a calendar-bearing value, or there is a `calendar`
parameter), a call to a callee with an *optional* `calendar` parameter must pass it, unless the callee's arm that executes
for the supplied arguments never reads `calendar` (the private constructors multiplex several overloads behind optional
keywords), or the call sits under the caller's own explicit `calendar is None` handling.
The arm is selected by abstractly evaluating the callee with supplied arguments = "not None" and omitted ones = default.
"""
from __future__ import annotations

import ast
from typing import Any

from .absint import AV, NONE, TOP, TOPINT, Interp, Iv, NoneV, Obj, State
from .core import Ctx, RuleResult
from .kit import bind_args, own_nodes
from .model import AnalysisError, Func, unparse
from .oblig import interp

COMPONENT = "calendar"


def calendar_bearing(ctx: Ctx, tname: Any) -> bool:
    if not isinstance(tname, str):
        return False
    c = ctx.M.cls(tname, required=False)
    if c is None or c.name == "CalendarSystem":
        return False
    if c.name == "_YearMonthDayCalendar":
        return True  # carries the calendar ordinal
    f = ctx.M.find_method(c, COMPONENT)
    return f is not None and f.kind == "property"


def in_scope_sources(ctx: Ctx, f: Func) -> list[str]:
    """Names in f through which a calendar is available."""
    out = []
    sc = ctx.R.scope(f)
    if f.self_name and f.kind in ("method", "property", "setter") and f.cls is not None and calendar_bearing(ctx, f.cls.name):
        out.append(f.self_name)
    for p in f.value_params:
        t = sc.vars.get(p.arg)
        ts = t[1] if isinstance(t, tuple) and t[0] == "union" else [t]
        optional = p.annotation is not None and "None" in unparse(p.annotation)
        if p.arg == COMPONENT or (not optional and any(calendar_bearing(ctx, x) for x in ts)):
            out.append(p.arg)  # optional value parameters are multiplexed-overload slots (None in the other arms): not a source
    return out


def governed_by_none_test(call: ast.Call) -> bool:
    """The call executes only when no calendar was supplied: `calendar is None` is a *fact* at the call (an enclosing test or an
    earlier `if calendar is not None: return ...`), not merely mentioned in a disjunction that other conditions can satisfy."""
    from .exc import facts_at

    facts = facts_at(call)
    return (COMPONENT, "is", "None") in facts or ("None", "is", COMPONENT) in facts


def in_default_expr(call: ast.Call, f: Func) -> bool:
    a = f.node.args
    for d in [*a.defaults, *[x for x in a.kw_defaults if x is not None]]:
        for n in ast.walk(d):
            if n is call:
                return True
    return False


def arm_reads_component(ctx: Ctx, callee: Func, supplied: set[str], cache: dict) -> bool | None:
    """Does the callee, entered with exactly `supplied` keyword/positional parameters non-None, read `calendar`?"""
    key = (callee.qual, tuple(sorted(supplied)))
    if key in cache:
        return cache[key]
    I = interp(ctx)
    I.max_depth = 0  # do not look into callees: only this function's own arm selection matters
    reads: list[int] = []
    orig_ev = I.ev

    def ev(e, st, fn, depth):  # type: ignore[no-untyped-def]
        if isinstance(e, ast.Name) and e.id == COMPONENT and fn is callee:
            reads.append(getattr(e, "lineno", 0))
        return orig_ev(e, st, fn, depth)

    I.ev = ev  # type: ignore[method-assign]
    params: dict[str, AV] = {}
    for p in callee.value_params:
        d = callee.default_of(p.arg)
        if p.arg in supplied:
            t = ctx.M.ann_type(p.annotation, callee.mod)
            if isinstance(t, tuple) and t[0] == "union":
                t = t[1][0]
            v = I._default_for_type(t)
            params[p.arg] = v if not isinstance(v, (NoneV,)) and v is not TOP else Obj("object")
        elif d is not None:
            params[p.arg] = NONE if (isinstance(d, ast.Constant) and d.value is None) else I.ev(d, State(), callee, 0)
        else:
            return None
    try:
        I.analyse(callee, params=params)
    except Exception:  # noqa: BLE001
        cache[key] = None
        return None
    cache[key] = bool(reads)
    return cache[key]


def check_retention(ctx: Ctx, rr: RuleResult, scope_pred=None) -> None:
    M, R = ctx.M, ctx.R
    cache: dict = {}
    for f in sorted(M.funcs.values(), key=lambda x: x.qual):
        if isinstance(f.node, ast.Lambda) or "_compatibility" in f.mod.rel:
            continue
        if scope_pred is not None and not scope_pred(f):
            continue
        src = in_scope_sources(ctx, f)
        if not src:
            continue
        for c in own_nodes(f.node):
            if not isinstance(c, ast.Call) or in_default_expr(c, f):
                continue
            tg, how = R.callees(c, f, count=False)
            if how != "resolved":
                continue
            for t in tg:
                if isinstance(t.node, ast.Lambda):
                    continue
                ps = [p.arg for p in t.params]
                if COMPONENT not in ps or t.default_of(COMPONENT) is None:
                    continue
                b = bind_args(c, t)
                if COMPONENT in b:
                    rr.inst(nontrivial=False)
                    rr.ok()
                    continue
                rr.inst()
                rr.states += 1
                d = t.default_of(COMPONENT)
                is_none_default = isinstance(d, ast.Constant) and d.value is None
                if governed_by_none_test(c):
                    rr.ok({"caller": f.qual, "callee": t.qual, "why": "under the caller's own `calendar is None` handling"})
                    continue
                if is_none_default:
                    reads = arm_reads_component(ctx, t, set(b), cache)
                    if reads is False:
                        rr.ok({"caller": f.qual, "callee": t.qual, "why": f"arm selected by ({', '.join(sorted(b))}) never reads calendar"})
                        continue
                rr.fail(f.qual, f"calls {t.qual}({', '.join(sorted(b))}) without `calendar` although a calendar is in scope via {src}: the result silently falls back to the default (ISO) calendar",
                        ctx.loc(f, c), call=unparse(c)[:140])


# ------------------------------------------------------------------------------------------ calendar-free producers


def _types_of(ctx: Ctx, e: ast.expr, f: Func) -> list[Any]:
    sc = ctx.R.scope(f)
    try:
        t = ctx.R.type_of(e, sc)
    except Exception:  # noqa: BLE001
        return [None]
    if isinstance(t, tuple) and t[0] == "union":
        return list(t[1])
    return [t]


def _carries_calendar(ctx: Ctx, e: ast.expr, f: Func) -> bool | None:
    """Does the value of e carry a calendar (a calendar-bearing value or a CalendarSystem)?  None = type unknown."""
    ts = _types_of(ctx, e, f)
    if any(isinstance(t, str) and (t in ("CalendarSystem", "_YearMonthDayCalendar", "_CalendarOrdinal") or calendar_bearing(ctx, t)) for t in ts):
        return True
    if all(isinstance(t, str) or (isinstance(t, tuple) and t[0] in ("ext", "const", "type")) for t in ts) and ts:
        return False
    return None


def calendar_free_productions(ctx: Ctx, f: Func):
    """Calls in f that produce a calendar-bearing value although neither the receiver nor any argument carries a calendar:
    whatever calendar the result has, it is not the one in scope (it can only be the default)."""
    for c in own_nodes(f.node):
        if not isinstance(c, ast.Call) or in_default_expr(c, f):
            continue
        tg, how = ctx.R.callees(c, f, count=False)
        if how != "resolved" or not tg:
            continue
        rets = set()
        for t in tg:
            if t.name in ("__init__", "__new__") and t.cls is not None:
                rets.add(t.cls.name)
            elif isinstance(t.node, ast.FunctionDef) and t.node.returns is not None:
                rt = ctx.M.ann_type(t.node.returns, t.mod)
                for x in (rt[1] if isinstance(rt, tuple) and rt[0] == "union" else [rt]):
                    if isinstance(x, str):
                        rets.add(x)
        if not rets or not all(calendar_bearing(ctx, r) for r in rets):
            continue
        inputs = [a.value if isinstance(a, ast.Starred) else a for a in c.args] + [k.value for k in c.keywords]
        if isinstance(c.func, ast.Attribute):
            inputs.append(c.func.value)
        verdicts = [_carries_calendar(ctx, a, f) for a in inputs]
        yield c, sorted(rets), verdicts, tg


def check_calendar_free_productions(ctx: Ctx, rr: RuleResult) -> None:
    """In code that has a calendar in scope, every call that produces a calendar-bearing value must be given something that
    carries a calendar (receiver or argument): a result assembled from calendar-free pieces (an instant, a day number, a local
    instant) can only come out in the default calendar, whatever the value in hand was in."""
    for f in sorted(ctx.M.funcs.values(), key=lambda x: x.qual):
        if isinstance(f.node, ast.Lambda) or "_compatibility" in f.mod.rel:
            continue
        src = in_scope_sources(ctx, f)
        if not src:
            continue
        for c, rets, verdicts, tg in calendar_free_productions(ctx, f):
            rr.inst()
            if any(v is True for v in verdicts):
                rr.ok()
            elif governed_by_none_test(c):
                rr.ok({"caller": f.qual, "call": unparse(c)[:80], "why": "under the caller's own `calendar is None` handling"})
            elif any(v is None for v in verdicts):
                rr.undecided.append(f"{f.qual}: `{unparse(c)[:80]}` has an input of unknown type")
                rr.ok()
            else:
                rr.fail(f.qual, f"builds a {'/'.join(rets)} with `{unparse(c)[:100]}` from calendar-free inputs although a calendar is in scope via {src}: the result comes out in the default (ISO) calendar", ctx.loc(f, c))
