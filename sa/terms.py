"""Term evaluator: syntax-directed abstract evaluation of small method bodies over a store of symbolic terms.

Used by wiring/shape rules ("advance adds its argument to the current value", "the earlier probe goes into the early
slot").  Terms are nested tuples:  ('sym', name) | ('const', v) | ('bin', op, a, b) | ('un', op, a) |
('call', callee-qualname-or-text, (args...), ((kw, term)...)) | ('attr', term, name) | ('tuple', (..)) | ('unk', text)

Nothing is executed: expressions are mapped to terms; `self.m(...)` calls on the same class are inlined (bounded depth)
so that their effect on `self` fields is visible to the caller.
"""
from __future__ import annotations

import ast
from typing import Any

from .kit import PathWalker, attr_key
from .model import Func, Model, mangle, unparse
from .resolve import Resolver

Term = tuple


def sym(n: str) -> Term:
    return ("sym", n)


OPN = {ast.Add: "+", ast.Sub: "-", ast.Mult: "*", ast.Div: "/", ast.FloorDiv: "//", ast.Mod: "%", ast.LShift: "<<", ast.RShift: ">>",
       ast.BitAnd: "&", ast.BitOr: "|", ast.BitXor: "^", ast.Pow: "**"}
CMP = {ast.Lt: "<", ast.LtE: "<=", ast.Gt: ">", ast.GtE: ">=", ast.Eq: "==", ast.NotEq: "!=", ast.Is: "is", ast.IsNot: "is not", ast.In: "in", ast.NotIn: "not in"}


class Store:
    """Immutable mapping key -> term; hashable."""

    __slots__ = ("d", "_h")

    def __init__(self, d: dict[str, Term] | None = None) -> None:
        self.d = dict(d or {})
        self._h: int | None = None

    def set(self, k: str, v: Term) -> "Store":
        d = dict(self.d)
        d[k] = v
        return Store(d)

    def get(self, k: str) -> Term | None:
        return self.d.get(k)

    def __hash__(self) -> int:
        if self._h is None:
            self._h = hash(tuple(sorted((k, repr(v)) for k, v in self.d.items())))
        return self._h

    def __eq__(self, o: object) -> bool:
        return isinstance(o, Store) and self.d == o.d


class TermEval:
    def __init__(self, M: Model, R: Resolver, fn: Func, inline_depth: int = 3) -> None:
        self.M, self.R, self.fn = M, R, fn
        self.depth = inline_depth
        self.cn = fn.cls.name if fn.cls else None
        self.effects: list[tuple[str, Term]] = []  # calls evaluated for effect, in order (per path merged)

    # ---------------------------------------------------------------- expressions
    def ev(self, e: ast.expr | None, st: Store) -> Term:
        M = self.M
        if e is None:
            return ("const", None)
        if isinstance(e, ast.Constant):
            return ("const", e.value)
        if isinstance(e, (ast.Name, ast.Attribute)):
            k = attr_key(e, M.mangling_class(e) or self.cn)
            if k is not None:
                v = st.get(k)
                if v is not None:
                    return v
            if isinstance(e, ast.Name):
                c = M.fold(e, self.fn.cls, self.fn.mod)
                if c is not M_UNKNOWN() and not isinstance(c, (list, dict)):
                    return ("const", c)
                return sym(e.id)
            if not (isinstance(e.value, ast.Name) and e.value.id == "self"):
                c = M.fold(e, self.fn.cls, self.fn.mod)
                if c is not M_UNKNOWN() and isinstance(c, (int, str, bool)):
                    return ("const", c)
            base = self.ev(e.value, st)
            # property on self: inline getter
            if isinstance(e.value, ast.Name) and e.value.id == "self" and self.fn.cls is not None and self.depth > 0:
                f = M.find_method(self.fn.cls, mangle(self.cn, e.attr))
                if f is not None and f.kind == "property":
                    r = self._inline(f, [], {}, st)
                    if r is not None:
                        return r[0]
            return ("attr", base, mangle(M.mangling_class(e) or self.cn, e.attr))
        if isinstance(e, ast.BinOp):
            return ("bin", OPN.get(type(e.op), "?"), self.ev(e.left, st), self.ev(e.right, st))
        if isinstance(e, ast.UnaryOp):
            return ("un", type(e.op).__name__, self.ev(e.operand, st))
        if isinstance(e, ast.Compare) and len(e.ops) == 1:
            return ("cmp", CMP.get(type(e.ops[0]), "?"), self.ev(e.left, st), self.ev(e.comparators[0], st))
        if isinstance(e, ast.Tuple):
            return ("tuple", tuple(self.ev(x, st) for x in e.elts))
        if isinstance(e, ast.IfExp):
            return ("ite", self.ev(e.test, st), self.ev(e.body, st), self.ev(e.orelse, st))
        if isinstance(e, ast.NamedExpr):
            return self.ev(e.value, st)
        if isinstance(e, ast.Call):
            return self.call(e, st)[0]
        if isinstance(e, ast.Subscript):
            return ("index", self.ev(e.value, st), self.ev(e.slice, st) if not isinstance(e.slice, ast.Slice) else ("unk", unparse(e.slice)))
        if isinstance(e, ast.Lambda):
            return ("lambda", unparse(e))
        return ("unk", unparse(e))

    def callee_name(self, call: ast.Call) -> tuple[str, list[Func]]:
        tg, how = self.R.callees(call, self.fn, count=False)
        if tg and how == "resolved":
            return tg[0].qual, tg
        return unparse(call.func), []

    def call(self, c: ast.Call, st: Store) -> tuple[Term, Store]:
        name, tg = self.callee_name(c)
        args = tuple(self.ev(a, st) for a in c.args if not isinstance(a, ast.Starred))
        kws = tuple((k.arg or "**", self.ev(k.value, st)) for k in c.keywords)
        recv: Term | None = None
        if isinstance(c.func, ast.Attribute):
            recv = self.ev(c.func.value, st) if not isinstance(c.func.value, ast.Call) or True else None
        # inline self.method(...)
        if tg and self.depth > 0 and isinstance(c.func, ast.Attribute) and isinstance(c.func.value, ast.Name) and c.func.value.id == "self" and tg[0].cls is not None and self.fn.cls is not None and self.M.is_subclass(self.fn.cls, tg[0].cls.name):
            r = self._inline(tg[0], list(args), dict(kws), st)
            if r is not None:
                return r
        return ("call", name, args, kws, recv), st

    def _inline(self, f: Func, args: list[Term], kws: dict[str, Term], st: Store) -> tuple[Term, Store] | None:
        if isinstance(f.node, ast.Lambda):
            return None
        sub = TermEval(self.M, self.R, f, self.depth - 1)
        st2 = st
        # drop caller locals: keep only self.* keys
        st2 = Store({k: v for k, v in st.d.items() if k.startswith("self.")})
        for p, a in zip(f.value_params, args):
            st2 = st2.set(p.arg, a)
        for k, v in kws.items():
            st2 = st2.set(k, v)
        for p in f.value_params:
            if st2.get(p.arg) is None:
                d = f.default_of(p.arg)
                st2 = st2.set(p.arg, sub.ev(d, st2) if d is not None else sym(p.arg))
        outs = sub.run(st2)
        if len(outs) != 1:
            return None
        ret, fin = outs[0]
        merged = dict(st.d)
        for k, v in fin.d.items():
            if k.startswith("self."):
                merged[k] = v
        return ret if ret is not None else ("const", None), Store(merged)

    # ---------------------------------------------------------------- statements
    def run(self, init: Store) -> list[tuple[Term | None, Store]]:
        """Evaluate the function; returns [(returned term or None, final store)] per distinct path outcome."""
        cn = self.cn

        def on_stmt(s: ast.stmt, st: Store):
            if isinstance(s, ast.Assign):
                v, st = self._ev_effect(s.value, st)
                for t in s.targets:
                    st = self._assign(t, v, st)
                return [st]
            if isinstance(s, ast.AnnAssign):
                if s.value is None:
                    return [st]
                v, st = self._ev_effect(s.value, st)
                return [self._assign(s.target, v, st)]
            if isinstance(s, ast.AugAssign):
                cur = self.ev(s.target, st)
                v, st = self._ev_effect(s.value, st)
                return [self._assign(s.target, ("bin", OPN.get(type(s.op), "?"), cur, v), st)]
            if isinstance(s, ast.Expr):
                if isinstance(s.value, ast.Call):
                    t, st2 = self.call(s.value, st)
                    return [st2.set("$ret", t)] if getattr(s, "_is_ret", False) else [st2]
                return [st]
            return [st]

        def on_cond(test: ast.expr, st: Store, truth: bool):
            # walrus bindings made by the test are visible afterwards
            for n in ast.walk(test):
                if isinstance(n, ast.NamedExpr) and isinstance(n.target, ast.Name):
                    v, st = self._ev_effect(n.value, st)
                    st = st.set(n.target.id, v)
            return [st]

        w = PathWalker(on_stmt=on_stmt, on_cond=on_cond)
        ex = w.run(self.fn.body, init)
        outs: list[tuple[Term | None, Store]] = []
        for r, st in ex.returns:
            if r.value is not None:
                if isinstance(r.value, ast.Call) and st.get("$ret") is not None:
                    outs.append((st.get("$ret"), Store({k: v for k, v in st.d.items() if k != "$ret"})))  # call already evaluated (with its effects) by on_stmt
                    continue
                v, st2 = self._ev_effect(r.value, st)
                outs.append((v, st2))
            else:
                outs.append((None, st))
        for st in ex.fall:
            outs.append((None, st))
        # dedupe
        seen = set()
        res = []
        for v, st in outs:
            k = (repr(v), st)
            if k in seen:
                continue
            seen.add(k)
            res.append((v, st))
        return res

    def _ev_effect(self, e: ast.expr, st: Store) -> tuple[Term, Store]:
        if isinstance(e, ast.Call):
            return self.call(e, st)
        return self.ev(e, st), st

    def _assign(self, t: ast.expr, v: Term, st: Store) -> Store:
        if isinstance(t, (ast.Name, ast.Attribute)):
            k = attr_key(t, self.M.mangling_class(t) or self.cn)
            if k is not None:
                return st.set(k, v)
        if isinstance(t, ast.Tuple) and v[0] == "tuple" and len(v[1]) == len(t.elts):
            for e, x in zip(t.elts, v[1]):
                st = self._assign(e, x, st)
            return st
        if isinstance(t, ast.Tuple):
            for i, e in enumerate(t.elts):
                st = self._assign(e, ("index", v, ("const", i)), st)
        return st


def M_UNKNOWN():
    from .model import UNKNOWN

    return UNKNOWN


def show(t: Any) -> str:
    if not isinstance(t, tuple):
        return repr(t)
    k = t[0]
    if k == "sym":
        return t[1]
    if k == "const":
        return repr(t[1])
    if k == "bin":
        return f"({show(t[2])} {t[1]} {show(t[3])})"
    if k == "cmp":
        return f"({show(t[2])} {t[1]} {show(t[3])})"
    if k == "un":
        return f"{t[1]}({show(t[2])})"
    if k == "attr":
        return f"{show(t[1])}.{t[2]}"
    if k == "call":
        a = [show(x) for x in t[2]] + [f"{kw}={show(v)}" for kw, v in t[3]]
        return f"{t[1]}({', '.join(a)})"
    if k == "tuple":
        return "(" + ", ".join(show(x) for x in t[1]) + ")"
    if k == "ite":
        return f"({show(t[2])} if {show(t[1])} else {show(t[3])})"
    if k == "index":
        return f"{show(t[1])}[{show(t[2])}]"
    return str(t[1]) if len(t) > 1 else k
