"""E5 - structural rule kit: syntax-directed path walker, lock regions, write sites, field access helpers."""
from __future__ import annotations

import ast
from dataclasses import dataclass, field
from typing import Any, Callable, Hashable, Iterator

from .model import Cls, Func, Model, mangle, unparse


def own_nodes(fn_node: ast.AST) -> Iterator[ast.AST]:
    """All nodes of a function body, not descending into nested defs / classes / lambdas."""
    stack = list(ast.iter_child_nodes(fn_node))
    while stack:
        n = stack.pop()
        if isinstance(n, (ast.FunctionDef, ast.AsyncFunctionDef, ast.ClassDef, ast.Lambda)):
            continue
        yield n
        stack.extend(ast.iter_child_nodes(n))


def sub_nodes(n: ast.AST) -> Iterator[ast.AST]:
    """n and descendants, not descending into nested defs / lambdas."""
    stack = [n]
    while stack:
        x = stack.pop()
        yield x
        for ch in ast.iter_child_nodes(x):
            if isinstance(ch, (ast.FunctionDef, ast.AsyncFunctionDef, ast.ClassDef, ast.Lambda)):
                continue
            stack.append(ch)


def attr_key(e: ast.AST, cls_name: str | None) -> str | None:
    """Normalised dotted key of a Name/Attribute chain with private-name mangling applied: self._K__x"""
    if isinstance(e, ast.Name):
        return e.id
    if isinstance(e, ast.Attribute):
        b = attr_key(e.value, cls_name)
        if b is None:
            return None
        return f"{b}.{mangle(cls_name, e.attr)}"
    return None


# ------------------------------------------------------------------------------------------- path walker


@dataclass
class Exits:
    fall: list[Any] = field(default_factory=list)
    returns: list[tuple[ast.Return, Any]] = field(default_factory=list)
    raises: list[tuple[ast.AST, Any]] = field(default_factory=list)
    breaks: list[Any] = field(default_factory=list)
    continues: list[Any] = field(default_factory=list)
    yields: list[tuple[ast.AST, Any]] = field(default_factory=list)


class PathWalker:
    """Forward, path-sensitive walk of a function body over hashable states.

    on_stmt(stmt, state) -> iterable of successor states (for simple statements, and for the header expression of
    compound statements: called with the ast.If / ast.While / ast.For / ast.With / ast.Match node's *test-like* expression
    wrapped as ast.Expr).  on_cond(test, state, truth) -> iterable of refined states.  States are deduplicated; loops are
    iterated until no new state appears (bounded by max_iter), which is exact for finite fact domains.
    """

    def __init__(self, on_stmt: Callable[[ast.stmt, Any], Iterator[Any]] | None = None,
                 on_cond: Callable[[ast.expr, Any, bool], Iterator[Any]] | None = None,
                 noreturn: Callable[[ast.Call], bool] | None = None, max_iter: int = 6, max_states: int = 4096) -> None:
        self.on_stmt = on_stmt or (lambda s, st: [st])
        self.on_cond = on_cond or (lambda t, st, truth: [st])
        self.noreturn = noreturn or (lambda c: False)
        self.max_iter = max_iter
        self.max_states = max_states
        self.count = 0

    @staticmethod
    def _dedupe(states: list[Any]) -> list[Any]:
        seen: set[Any] = set()
        out = []
        for s in states:
            try:
                if s in seen:
                    continue
                seen.add(s)
            except TypeError:
                pass
            out.append(s)
        return out

    def run(self, body: list[ast.stmt], init: Any) -> Exits:
        ex = Exits()
        ex.fall = self.block(body, [init], ex)
        return ex

    def block(self, body: list[ast.stmt], states: list[Any], ex: Exits) -> list[Any]:
        for s in body:
            if not states:
                break
            nxt: list[Any] = []
            for st in states:
                nxt.extend(self.stmt(s, st, ex))
            states = self._dedupe(nxt)
            if len(states) > self.max_states:
                raise OverflowError("path walker state budget exceeded")
        return states

    def stmt(self, s: ast.stmt, st: Any, ex: Exits) -> list[Any]:
        self.count += 1
        if isinstance(s, ast.If):
            out = []
            out += self.block(s.body, list(self.on_cond(s.test, st, True)), ex)
            out += self.block(s.orelse, list(self.on_cond(s.test, st, False)), ex)
            return out
        if isinstance(s, (ast.While, ast.For)):
            if isinstance(s, ast.For):
                header = ast.Expr(value=s.iter)
                ast.copy_location(header, s)
                entry = list(self.on_stmt(header, st))
            else:
                entry = [st]
            seen: list[Any] = []
            frontier = self._dedupe(entry)
            exits: list[Any] = []
            for _ in range(self.max_iter):
                new = [x for x in frontier if x not in seen]
                if not new:
                    break
                seen.extend(new)
                sub = Exits()
                if isinstance(s, ast.While):
                    inb: list[Any] = []
                    for x in new:
                        inb += list(self.on_cond(s.test, x, True))
                        exits += list(self.on_cond(s.test, x, False))
                else:
                    inb = list(new)
                    exits += list(new)
                    tgt = ast.Assign(targets=[s.target], value=ast.Call(func=ast.Name(id="__iter_next__", ctx=ast.Load()), args=[s.iter], keywords=[]))
                    ast.copy_location(tgt, s)
                    ast.fix_missing_locations(tgt)
                    inb2: list[Any] = []
                    for x in inb:
                        inb2 += list(self.on_stmt(tgt, x))
                    inb = inb2
                out = self.block(s.body, inb, sub)
                ex.returns += sub.returns
                ex.raises += sub.raises
                ex.yields += sub.yields
                exits += sub.breaks
                frontier = self._dedupe(out + sub.continues)
            exits = self._dedupe(exits)
            if s.orelse:
                exits = self.block(s.orelse, exits, ex)
            return exits
        if isinstance(s, ast.Return):
            pre = [st]
            if s.value is not None:
                e = ast.Expr(value=s.value)
                ast.copy_location(e, s)
                e._is_ret = True  # type: ignore[attr-defined]  # the expression of a return statement (evaluated once, here)
                pre = list(self.on_stmt(e, st))
            for p in pre:
                ex.returns.append((s, p))
            return []
        if isinstance(s, ast.Raise):
            ex.raises.append((s, st))
            return []
        if isinstance(s, ast.Break):
            ex.breaks.append(st)
            return []
        if isinstance(s, ast.Continue):
            ex.continues.append(st)
            return []
        if isinstance(s, (ast.With, ast.AsyncWith)):
            cur = [st]
            for it in s.items:
                e = ast.Expr(value=it.context_expr)
                ast.copy_location(e, s)
                nxt = []
                for c in cur:
                    nxt += list(self.on_stmt(e, c))
                cur = nxt
            return self.block(s.body, cur, ex)
        if isinstance(s, ast.Try):
            sub = Exits()
            body_out = self.block(s.body, [st], sub)
            ex.returns += sub.returns
            ex.breaks += sub.breaks
            ex.continues += sub.continues
            ex.yields += sub.yields
            # any state inside the try may reach a handler; approximate with entry state + raise states
            hin = self._dedupe([st] + [r[1] for r in sub.raises] + body_out)
            out = list(body_out)
            if s.orelse:
                out = self.block(s.orelse, out, ex)
            caught_all = False
            for h in s.handlers:
                out += self.block(h.body, list(hin), ex)
                if h.type is None or unparse(h.type) in ("Exception", "BaseException"):
                    caught_all = True
            if not caught_all:
                ex.raises += sub.raises
            if s.finalbody:
                out = self.block(s.finalbody, self._dedupe(out), ex)
            return out
        if isinstance(s, ast.Match):
            e = ast.Expr(value=s.subject)
            ast.copy_location(e, s)
            cur = list(self.on_stmt(e, st))
            out = []
            exhaustive = False
            for case in s.cases:
                out += self.block(case.body, list(cur), ex)
                if isinstance(case.pattern, ast.MatchAs) and case.pattern.pattern is None and case.guard is None:
                    exhaustive = True
            if not exhaustive:
                out += cur
            return out
        if isinstance(s, (ast.FunctionDef, ast.AsyncFunctionDef, ast.ClassDef, ast.Import, ast.ImportFrom, ast.Pass, ast.Global, ast.Nonlocal)):
            return [st]
        if isinstance(s, ast.Expr) and isinstance(s.value, ast.Call) and self.noreturn(s.value):
            for p in self.on_stmt(s, st):
                ex.raises.append((s, p))
            return []
        if isinstance(s, ast.Expr) and isinstance(s.value, (ast.Yield, ast.YieldFrom)):
            outs = list(self.on_stmt(s, st))
            for p in outs:
                ex.yields.append((s, p))
            return outs
        if isinstance(s, ast.Assert):
            return list(self.on_cond(s.test, st, True))
        return list(self.on_stmt(s, st))


# ------------------------------------------------------------------------------------------- no-return summary


class NoReturn:
    """Functions all of whose paths end in raise (or in a call to such a function); computed to fixpoint."""

    def __init__(self, M: Model, R: Any) -> None:
        self.M, self.R = M, R
        self.nr: set[int] = set()
        self.raised: dict[int, set[str]] = {}
        changed = True
        cands = [f for f in M.funcs.values() if not isinstance(f.node, ast.Lambda) and any(isinstance(n, ast.Raise) for n in own_nodes(f.node))]
        rounds = 0
        while changed and rounds < 5:
            changed = False
            rounds += 1
            for f in cands:
                if id(f) in self.nr:
                    continue
                if self._all_paths_raise(f):
                    self.nr.add(id(f))
                    changed = True

    def is_noreturn_call(self, call: ast.Call, fn: Func) -> bool:
        tg, how = self.R.callees(call, fn, count=False)
        return bool(tg) and how == "resolved" and all(id(t) in self.nr for t in tg)

    def _all_paths_raise(self, f: Func) -> bool:
        w = PathWalker(noreturn=lambda c: self.is_noreturn_call(c, f))
        try:
            ex = w.run(f.body, 0)
        except OverflowError:
            return False
        return not ex.fall and not ex.returns and not ex.yields and bool(ex.raises)


# ------------------------------------------------------------------------------------------- locks


@dataclass
class LockRegion:
    node: ast.With
    lock: str  # normalised key, e.g. self._FakeClock__lock
    fn: Func


def lock_regions(fn: Func) -> list[LockRegion]:
    out = []
    cn = fn.cls.name if fn.cls else None
    for n in own_nodes(fn.node):
        if isinstance(n, ast.With):
            for it in n.items:
                k = attr_key(it.context_expr, cn)
                if k is not None and "lock" in k.lower():
                    out.append(LockRegion(n, k, fn))
    return out


def inside(node: ast.AST, region: ast.AST) -> bool:
    n: Any = node
    while n is not None:
        if n is region:
            return True
        n = getattr(n, "_parent", None)
    return False


# ------------------------------------------------------------------------------------------- stores


@dataclass
class Store:
    fn: Func
    node: ast.AST
    target: str  # normalised key of the mutated object: self._K__x  /  K._K__X  / name
    kind: str  # attr | subscript | augattr | call-mutator | del | setattr


MUTATORS = {"append", "extend", "insert", "pop", "remove", "clear", "sort", "reverse", "update", "setdefault", "popitem", "add", "discard", "appendleft", "popleft", "move_to_end", "__setitem__"}


def stores_in(fn: Func) -> list[Store]:
    cn = fn.cls.name if fn.cls else None
    out: list[Store] = []
    for n in own_nodes(fn.node):
        tgts: list[ast.expr] = []
        if isinstance(n, ast.Assign):
            tgts = list(n.targets)
        elif isinstance(n, (ast.AugAssign, ast.AnnAssign)):
            if isinstance(n, ast.AnnAssign) and n.value is None:
                continue
            tgts = [n.target]
        elif isinstance(n, ast.Delete):
            tgts = list(n.targets)
        elif isinstance(n, ast.Call):
            fx = n.func
            if isinstance(fx, ast.Attribute) and fx.attr in MUTATORS:
                k = attr_key(fx.value, cn)
                if k is not None and "." in k:
                    out.append(Store(fn, n, k, "call-mutator"))
            if isinstance(fx, ast.Name) and fx.id == "setattr" and n.args:
                k = attr_key(n.args[0], cn)
                nm = n.args[1].value if len(n.args) > 1 and isinstance(n.args[1], ast.Constant) else "?"
                out.append(Store(fn, n, f"{k}.{nm}", "setattr"))
            if isinstance(fx, ast.Attribute) and fx.attr == "__setattr__" and n.args:
                k = attr_key(n.args[0], cn)
                nm = n.args[1].value if len(n.args) > 1 and isinstance(n.args[1], ast.Constant) else "?"
                out.append(Store(fn, n, f"{k}.{nm}", "setattr"))
            continue
        flat: list[ast.expr] = []
        for t in tgts:
            if isinstance(t, (ast.Tuple, ast.List)):
                flat.extend(t.elts)
            else:
                flat.append(t)
        for t in flat:
            if isinstance(t, ast.Attribute):
                k = attr_key(t, cn)
                if k is not None:
                    out.append(Store(fn, n, k, "augattr" if isinstance(n, ast.AugAssign) else ("del" if isinstance(n, ast.Delete) else "attr")))
            elif isinstance(t, ast.Subscript):
                k = attr_key(t.value, cn)
                if k is not None and "." in k:
                    out.append(Store(fn, n, k, "subscript"))
    return out


def calls_in(fn_node: ast.AST) -> list[ast.Call]:
    return [n for n in own_nodes(fn_node) if isinstance(n, ast.Call)]


def kwarg(call: ast.Call, name: str, pos: int | None = None) -> ast.expr | None:
    for kw in call.keywords:
        if kw.arg == name:
            return kw.value
    if pos is not None and pos < len(call.args):
        return call.args[pos]
    return None


def bind_args(call: ast.Call, fn: Func) -> dict[str, ast.expr]:
    """Map callee parameter names to argument expressions of a call."""
    out: dict[str, ast.expr] = {}
    a = fn.node.args
    pos = [p.arg for p in [*a.posonlyargs, *a.args]]
    if fn.cls is not None and fn.kind in ("method", "classmethod", "property", "setter") and pos:
        pos = pos[1:]
    for p, arg in zip(pos, call.args):
        if isinstance(arg, ast.Starred):
            break
        out[p] = arg
    for kw in call.keywords:
        if kw.arg is not None:
            out[kw.arg] = kw.value
    return out


def positional(call: ast.Call, fn: Func) -> list[ast.expr | None]:
    """The arguments of a call in the callee's parameter order, whether they were passed by position or by keyword."""
    b = bind_args(call, fn)
    return [b.get(p.arg) for p in fn.value_params]


def inline_simple_call(R: Any, call: ast.Call, caller: Func) -> ast.expr | None:
    """A call to a repo function whose body is a single `return <expr>`: that expression with the parameters replaced by the
    arguments (so that a computation moved into a small helper is still seen at its use).  None when the callee is anything else."""
    import copy

    tg, how = R.callees(call, caller, count=False)
    if how != "resolved" or len(tg) != 1:
        return None
    f = tg[0]
    body = [s for s in f.body if not (isinstance(s, ast.Expr) and isinstance(s.value, ast.Constant))]
    if len(body) != 1 or not isinstance(body[0], ast.Return) or body[0].value is None:
        return None
    b = bind_args(call, f)
    if any(p.arg not in b for p in f.value_params):
        return None

    class Sub(ast.NodeTransformer):
        def visit_Name(self, node: ast.Name) -> ast.AST:  # noqa: N802
            if node.id in b:
                return copy.deepcopy(b[node.id])
            return node

    out = Sub().visit(copy.deepcopy(body[0].value))
    ast.fix_missing_locations(out)
    return out


# ------------------------------------------------------------------------------------------- parameter influence


def names_in(e: ast.AST) -> set[str]:
    return {n.id for n in ast.walk(e) if isinstance(n, ast.Name)}


def result_influences(fn: Func) -> set[str]:
    """Names (parameters, self) whose value can flow into the function's result (returned / yielded values, incl. the
    bodies of returned lambdas / nested functions).  Intra-procedural def-use closure; condition-only uses (guards) do
    not count, calls propagate from all arguments and the receiver to their result."""
    node = fn.node
    if isinstance(node, ast.Lambda):
        return names_in(node.body)
    defs: dict[str, set[str]] = {}

    def add_def(target: ast.expr, srcs: set[str]) -> None:
        if isinstance(target, ast.Name):
            defs.setdefault(target.id, set()).update(srcs)
        elif isinstance(target, (ast.Tuple, ast.List)):
            for t in target.elts:
                add_def(t, srcs)
        elif isinstance(target, ast.Starred):
            add_def(target.value, srcs)
        elif isinstance(target, (ast.Attribute, ast.Subscript)):
            # a store into an object reachable from a name taints that name
            base = target
            while isinstance(base, (ast.Attribute, ast.Subscript)):
                base = base.value
            if isinstance(base, ast.Name):
                defs.setdefault(base.id, set()).update(srcs)

    nested: dict[str, ast.AST] = {}
    for n in own_nodes(node):
        if isinstance(n, ast.Assign):
            for t in n.targets:
                add_def(t, names_in(n.value))
        elif isinstance(n, ast.AnnAssign) and n.value is not None:
            add_def(n.target, names_in(n.value))
        elif isinstance(n, ast.AugAssign):
            add_def(n.target, names_in(n.value) | names_in(n.target))
        elif isinstance(n, ast.NamedExpr):
            add_def(n.target, names_in(n.value))
        elif isinstance(n, (ast.For, ast.comprehension)):
            add_def(n.target, names_in(n.iter))
        elif isinstance(n, ast.With):
            for it in n.items:
                if it.optional_vars is not None:
                    add_def(it.optional_vars, names_in(it.context_expr))
    # control dependence: a branch that assigns or returns (not a pure guard that only raises) makes its test a source
    def branch_effects(stmts: list[ast.stmt]) -> tuple[set[str], bool]:
        tg: set[str] = set()
        ret = False
        for st in stmts:
            for x in ast.walk(st):
                if isinstance(x, (ast.FunctionDef, ast.Lambda)):
                    continue
                if isinstance(x, ast.Assign):
                    for t in x.targets:
                        tg |= {n.id for n in ast.walk(t) if isinstance(n, ast.Name)}
                elif isinstance(x, (ast.AugAssign, ast.AnnAssign)) and getattr(x, "value", None) is not None:
                    tg |= {n.id for n in ast.walk(x.target) if isinstance(n, ast.Name)}
                elif isinstance(x, ast.Return) and x.value is not None:
                    ret = True
        return tg, ret

    control_roots: set[str] = set()
    for n in own_nodes(node):
        branches: list[list[ast.stmt]] = []
        srcs: set[str] = set()
        if isinstance(n, ast.If):
            branches, srcs = [n.body, n.orelse], names_in(n.test)
        elif isinstance(n, ast.Match):
            branches, srcs = [c.body for c in n.cases], names_in(n.subject)
        elif isinstance(n, ast.IfExp):
            continue
        for b in branches:
            tg, ret = branch_effects(b)
            for t in tg:
                defs.setdefault(t, set()).update(srcs)
            if ret:
                control_roots |= srcs
    for n in ast.walk(node):
        if isinstance(n, (ast.FunctionDef,)) and n is not node:
            nested[n.name] = n
    roots: set[str] = set()
    for n in own_nodes(node):
        if isinstance(n, ast.Return) and n.value is not None:
            roots |= names_in(n.value)
            for sub in ast.walk(n.value):
                if isinstance(sub, ast.Lambda):
                    roots |= names_in(sub.body)
        elif isinstance(n, (ast.Yield, ast.YieldFrom)) and n.value is not None:
            roots |= names_in(n.value)
    roots |= control_roots
    # returned nested function: its free variables flow into the result
    for r in list(roots):
        if r in nested:
            roots |= names_in(nested[r])
    seen: set[str] = set()
    work = list(roots)
    while work:
        x = work.pop()
        if x in seen:
            continue
        seen.add(x)
        for s in defs.get(x, ()):
            if s not in seen:
                work.append(s)
    return seen


def inline_locals(fn_node: ast.AST, expr: ast.expr, depth: int = 4) -> ast.expr:
    """`expr` with every local temporary replaced by its definition: a Name that is assigned exactly once in the function
    (plain `x = <expr>` / `x: T = <expr>`, no augmented assignment, not a parameter, not a loop target) is substituted, recursively."""
    import copy

    defs: dict[str, list[ast.expr]] = {}
    bad: set[str] = set()
    for n in own_nodes(fn_node):
        if isinstance(n, ast.Assign) and len(n.targets) == 1 and isinstance(n.targets[0], ast.Name):
            defs.setdefault(n.targets[0].id, []).append(n.value)
        elif isinstance(n, ast.AnnAssign) and isinstance(n.target, ast.Name) and n.value is not None:
            defs.setdefault(n.target.id, []).append(n.value)
        elif isinstance(n, (ast.AugAssign, ast.For, ast.comprehension, ast.NamedExpr)):
            for x in ast.walk(n.target if not isinstance(n, ast.NamedExpr) else n.target):
                if isinstance(x, ast.Name):
                    bad.add(x.id)
        elif isinstance(n, ast.Assign):
            for t in n.targets:
                for x in ast.walk(t):
                    if isinstance(x, ast.Name) and isinstance(x.ctx, ast.Store):
                        bad.add(x.id)
                # an object that is mutated through the name (x.f = .. / x[i] = ..) is not a temporary
                root = t
                while isinstance(root, (ast.Attribute, ast.Subscript)):
                    root = root.value
                if root is not t and isinstance(root, ast.Name):
                    bad.add(root.id)
    single = {k: v[0] for k, v in defs.items() if len(v) == 1 and k not in bad}

    class Sub(ast.NodeTransformer):
        def __init__(self, d: int) -> None:
            self.d = d

        def visit_Name(self, node: ast.Name) -> ast.AST:  # noqa: N802
            if isinstance(node.ctx, ast.Load) and node.id in single and self.d > 0:
                return Sub(self.d - 1).visit(copy.deepcopy(single[node.id]))
            return node

    out = Sub(depth).visit(copy.deepcopy(expr))
    ast.fix_missing_locations(out)
    for sub in ast.walk(out):
        for ch in ast.iter_child_nodes(sub):
            ch._parent = sub  # type: ignore[attr-defined]
    return out


# ------------------------------------------------------------------------------------------- per-return influence


def per_return_ignored(fn: Func) -> list[tuple[ast.Return, set[str]]]:
    """For every `return <expr>` of a function: the parameters that reach *some* returned value of the function but neither this
    one nor the conditions under which this return is taken.  A parameter may legitimately be ignored on a path that was selected
    by looking at it (`if months == 0: return date`); being ignored on a path selected by *other* parameters means its value is
    silently dropped there."""
    node = fn.node
    if isinstance(node, ast.Lambda):
        return []
    params = {a.arg for a in fn.value_params}
    defs: dict[str, set[str]] = {}
    for n in own_nodes(node):
        tg: list[ast.expr] = []
        val = None
        if isinstance(n, ast.Assign):
            tg, val = list(n.targets), n.value
        elif isinstance(n, (ast.AnnAssign, ast.AugAssign)) and getattr(n, "value", None) is not None:
            tg, val = [n.target], n.value
        elif isinstance(n, ast.NamedExpr):
            tg, val = [n.target], n.value
        for t in tg:
            for x in ast.walk(t):
                if isinstance(x, ast.Name) and val is not None:
                    defs.setdefault(x.id, set()).update(names_in(val))

    def closure(names: set[str]) -> set[str]:
        seen = set(names)
        work = list(names)
        while work:
            x = work.pop()
            for s in defs.get(x, ()):
                if s not in seen:
                    seen.add(s)
                    work.append(s)
        return seen

    rets = [n for n in own_nodes(node) if isinstance(n, ast.Return) and n.value is not None]
    infl = {id(r): closure(names_in(r.value)) & params for r in rets}
    all_infl: set[str] = set().union(*infl.values()) if infl else set()
    out = []
    for r in rets:
        cond: set[str] = set()
        cur: ast.AST = r
        while cur is not node:
            par = getattr(cur, "_parent", None)
            if par is None:
                break
            if isinstance(par, (ast.If, ast.While)):
                cond |= closure(names_in(par.test))
            if isinstance(par, ast.Match):
                cond |= closure(names_in(par.subject))
            for fld in ("body", "orelse", "finalbody"):
                blk = getattr(par, fld, None)
                if isinstance(blk, list) and any(cur is s for s in blk):
                    idx = next(i for i, s in enumerate(blk) if s is cur)
                    for s in blk[:idx]:
                        if isinstance(s, ast.If) and any(isinstance(x, (ast.Return, ast.Raise)) for b in s.body + s.orelse for x in ast.walk(b)):
                            cond |= closure(names_in(s.test))
            cur = par
        ignored = all_infl - infl[id(r)] - cond
        out.append((r, ignored))
    return out


# ------------------------------------------------------------------------------------------- tiny integer expression evaluator


def eval_int_expr(e: ast.expr, env: dict[str, int], fold: Callable[[ast.expr], Any]) -> int | None:
    """Value of a side-effect-free integer expression (the single `return` expression of a small helper) for given parameter
    values: + - * // % >> << & | ^ ~ unary -, abs/min/max/int, names from env, anything else through `fold` (class constants).
    None when the expression uses something else."""
    if isinstance(e, ast.Constant) and isinstance(e.value, int) and not isinstance(e.value, bool):
        return e.value
    if isinstance(e, ast.Name) and e.id in env:
        return env[e.id]
    if isinstance(e, ast.BinOp):
        a, b = eval_int_expr(e.left, env, fold), eval_int_expr(e.right, env, fold)
        if a is None or b is None:
            return None
        try:
            if isinstance(e.op, ast.Add):
                return a + b
            if isinstance(e.op, ast.Sub):
                return a - b
            if isinstance(e.op, ast.Mult):
                return a * b
            if isinstance(e.op, ast.FloorDiv):
                return a // b
            if isinstance(e.op, ast.Mod):
                return a % b
            if isinstance(e.op, ast.RShift):
                return a >> b
            if isinstance(e.op, ast.LShift):
                return a << b if b < 4096 else None
            if isinstance(e.op, ast.BitAnd):
                return a & b
            if isinstance(e.op, ast.BitOr):
                return a | b
            if isinstance(e.op, ast.BitXor):
                return a ^ b
        except (ZeroDivisionError, ValueError):
            return None
        return None
    if isinstance(e, ast.UnaryOp):
        v = eval_int_expr(e.operand, env, fold)
        if v is None:
            return None
        if isinstance(e.op, ast.USub):
            return -v
        if isinstance(e.op, ast.Invert):
            return ~v
        if isinstance(e.op, ast.UAdd):
            return v
        return None
    if isinstance(e, ast.Call) and isinstance(e.func, ast.Name) and e.func.id in ("abs", "min", "max", "int") and not e.keywords:
        vs = [eval_int_expr(a, env, fold) for a in e.args]
        if any(v is None for v in vs) or not vs:
            return None
        return {"abs": lambda: abs(vs[0]), "min": lambda: min(vs), "max": lambda: max(vs), "int": lambda: int(vs[0])}[e.func.id]()
    v = fold(e)
    return v if isinstance(v, int) and not isinstance(v, bool) else None
