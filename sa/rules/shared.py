"""Generic rules registered for every property, each scoped to that property's anchor files.

Rxx.args   misplaced arguments: an argument whose name is the name of a *different* parameter of the resolved callee, while that
           parameter is not given the like-named value (`f(start=end, end=start)`, `Interval(end, start)`, a keyword pair crossed
           over).  On the pinned tree 2 442 resolved calls have no such argument except one reviewed case.
"""
from __future__ import annotations

import ast

from ..core import Ctx, RuleResult, anchor_files, anchor_scope, rule
from ..kit import bind_args, own_nodes
from ..model import unparse

# (caller, callee parameter, argument) reviewed as intended, one line of reason each
ARGS_REVIEWED = {
    ("LocalDateTime.in_utc", "nanosecond_of_day_zero_offset", "nanosecond_of_day"): "the zero-offset overload takes the plain nanosecond-of-day (offset 0 contributes no bits)",
}


def _term(e: ast.expr) -> str | None:
    if isinstance(e, ast.Name):
        return e.id
    if isinstance(e, ast.Attribute):
        return e.attr.lstrip("_")
    return None


def misplaced_arguments(ctx: Ctx, files: set[str] | None):
    M, R = ctx.M, ctx.R
    for f in sorted(set(M.func_of_node.values()), key=lambda x: x.qual):
        if isinstance(f.node, ast.Lambda) or "_compatibility" in f.mod.rel or (files is not None and f.mod.rel not in files):
            continue
        for c in own_nodes(f.node):
            if not isinstance(c, ast.Call):
                continue
            tg, how = R.callees(c, f, count=False)
            if how != "resolved" or not tg:
                continue
            t = next((x for x in tg if x.name != "__new__"), tg[0])
            b = bind_args(c, t)
            if len(b) < 1:
                continue
            pn = [p.arg for p in t.value_params]
            bad = None
            for p, a in b.items():
                ta = _term(a)
                if ta and ta != p and ta in pn and _term(b.get(ta)) != ta:
                    if (f.qual, p, ta) in ARGS_REVIEWED:
                        continue
                    bad = (p, ta)
                    break
            if bad is None:
                # a year OF ERA handed to a parameter that is an absolute year (no era travels with it): 45 BC is year-of-era 45, absolute -44
                for p, a in b.items():
                    if _term(a) == "year_of_era" and p in ("year", "absolute_year", "week_year") and not any("era" in q for q in pn if q != p):
                        bad = (p, "year_of_era")
                        break
            if bad is None and len(b) >= 2:
                # crossed-over pair by name tokens: `f(later, earlier)` into (earlier_mapping, later_mapping)
                def toks(x: str) -> set[str]:
                    return {w for w in x.lower().strip("_").split("_") if len(w) > 2}

                items = [(p, _term(a)) for p, a in b.items() if _term(a)]
                for i, (p1, a1) in enumerate(items):
                    for p2, a2 in items[i + 1:]:
                        t1, t2 = toks(a1), toks(a2)
                        if t1 and t2 and t1 != t2 and t1 <= toks(p2) and t2 <= toks(p1) and not (t1 <= toks(p1)) and not (t2 <= toks(p2)):
                            bad = (p1, a1)
            yield f, c, t, bad


def _make(prop: str):
    def r_args(ctx: Ctx) -> RuleResult:
        rr = RuleResult(f"R{prop[1:]}.args", "no call passes a value named like one parameter of the callee into a different parameter (crossed-over / misplaced arguments)", min_instances=5)
        for f, c, t, bad in misplaced_arguments(ctx, anchor_scope(ctx, prop)):
            rr.inst(nontrivial=False)
            if bad:
                if bad[1] == "year_of_era" and "year_of_era" not in [q.arg for q in t.value_params]:
                    rr.fail(f.qual, f"`{unparse(c)[:110]}` passes a year of era as the absolute-year parameter `{bad[0]}` of {t.qual} (no era accompanies it): for years <= 0 (BCE) the two differ - absolute year -407 is year-of-era 408", ctx.loc(f, c))
                    continue
                rr.fail(f.qual, f"`{unparse(c)[:90]}` passes `{bad[1]}` as parameter `{bad[0]}` of {t.qual}, which also has a parameter `{bad[1]}` that does not receive it", ctx.loc(f, c))
            else:
                rr.ok()
        return rr

    r_args.__name__ = f"r{prop[1:]}_args_misplaced"
    return r_args


for _i in range(1, 21):
    _p = f"C{_i:02d}"
    rule(_p)(_make(_p))


# ------------------------------------------------------------------------------------------------ results never read


def unread_results(ctx: Ctx, files: set[str] | None):
    """Locals bound to the result of a call (or any computed expression) that no later code reads - not even a nested function.
    When a query is made and its answer dropped, the decision that follows is taken on something else (typically the neighbouring
    variable).  959 local bindings on the pinned tree, none unread."""
    for f in sorted(set(ctx.M.func_of_node.values()), key=lambda x: x.qual):
        if isinstance(f.node, ast.Lambda) or "_compatibility" in f.mod.rel or (files is not None and f.mod.rel not in files):
            continue
        loads = {x.id for x in ast.walk(f.node) if isinstance(x, ast.Name) and isinstance(x.ctx, ast.Load)}
        for s in own_nodes(f.node):
            tg: list[ast.Name] = []
            if isinstance(s, ast.Assign):
                tg = [t for t in s.targets if isinstance(t, ast.Name)]
            elif isinstance(s, ast.AnnAssign) and s.value is not None and isinstance(s.target, ast.Name):
                tg = [s.target]
            for t in tg:
                yield f, s, t.id, (t.id not in loads and not t.id.startswith("_"))


def _make_dead(prop: str):
    def r_dead(ctx: Ctx) -> RuleResult:
        rr = RuleResult(f"R{prop[1:]}.unread", "every value bound to a local is read by the code that follows (no query is made and its answer dropped)", min_instances=0)
        if "unread_total" not in ctx.cache:
            ctx.cache["unread_total"] = sum(1 for _ in unread_results(ctx, None))
        if ctx.cache["unread_total"] < 600:
            from ..model import AnalysisError

            raise AnalysisError(f"local-binding enumerator finds only {ctx.cache['unread_total']} bindings in the whole package (959 confirmed)")
        for f, s, name, unread in unread_results(ctx, anchor_scope(ctx, prop)):
            rr.inst(nontrivial=False)
            if unread:
                rr.fail(f.qual, f"`{name} = {unparse(s.value)[:70]}` is never read: whatever is decided next does not depend on it", ctx.loc(f, s))
            else:
                rr.ok()
        return rr

    r_dead.__name__ = f"r{prop[1:]}_unread_results"
    return r_dead


for _i in range(1, 21):
    _p = f"C{_i:02d}"
    rule(_p)(_make_dead(_p))


# ------------------------------------------------------------------------------------------------ paired views of a Duration

FLOOR_VIEW = {"_floor_days", "_nanosecond_of_floor_day", "__days", "__nano_of_day", "_Duration__days", "_Duration__nano_of_day"}
TRUNC_VIEW = {"days", "nanosecond_of_day"}


def check_duration_views(ctx: Ctx, rr: RuleResult) -> None:
    """A Duration offers two decompositions: (floor days, nanosecond of floor day >= 0) and (days truncated towards zero, signed
    nanosecond of day).  They agree for non-negative durations and differ by one day below zero.  A single expression that
    takes the day part from one view and the time part from the other (of the same duration) builds a value that is a day off for
    every instant before the epoch with a non-zero time of day."""
    for f in sorted(set(ctx.M.func_of_node.values()), key=lambda x: x.qual):
        if isinstance(f.node, ast.Lambda) or "_compatibility" in f.mod.rel:
            continue
        for st in own_nodes(f.node):
            if isinstance(st, (ast.If, ast.While)):
                scope_nodes = list(ast.walk(st.test))
            elif isinstance(st, (ast.Assign, ast.AnnAssign, ast.Return, ast.Expr, ast.AugAssign)):
                scope_nodes = list(ast.walk(st))
            else:
                continue
            if any(isinstance(x, ast.IfExp) for x in scope_nodes):
                continue  # a conditional expression selects between the two views deliberately (the accessors themselves)
            uses: dict[str, set[str]] = {}
            for n in scope_nodes:
                if isinstance(n, ast.Attribute) and n.attr in FLOOR_VIEW | TRUNC_VIEW:
                    uses.setdefault(unparse(n.value), set()).add(n.attr)
            for base, at in uses.items():
                if not (at & FLOOR_VIEW or at & TRUNC_VIEW) or len(at) < 2:
                    continue
                rr.inst()
                if at & FLOOR_VIEW and at & TRUNC_VIEW:
                    rr.fail(f.qual, f"one expression combines `{base}.{sorted(at & TRUNC_VIEW)[0]}` (truncated view) with `{base}.{sorted(at & FLOOR_VIEW)[0]}` (floor view): for negative durations with a time part the two views are one day apart", ctx.loc(f, st))
                else:
                    rr.ok({"fn": f.qual, "view": "floor" if at & FLOOR_VIEW else "truncated"})
        # ordering / equality / hashing functions compare the day part first and the time part next, in separate statements:
        # there the whole function must stay within one view of each operand
        if f.name in ("compare_to", "__lt__", "__le__", "__gt__", "__ge__", "__eq__", "__hash__", "_compare_to") and f.cls is not None and f.cls.name == "Duration":
            uses_f: dict[str, set[str]] = {}
            for n in own_nodes(f.node):
                if isinstance(n, ast.Attribute) and n.attr in FLOOR_VIEW | TRUNC_VIEW:
                    uses_f.setdefault(unparse(n.value), set()).add(n.attr)
            for base, at in uses_f.items():
                if len(at) < 2:
                    continue
                rr.inst()
                if at & FLOOR_VIEW and at & TRUNC_VIEW:
                    rr.fail(f.qual, f"{f.name} takes `{base}.{sorted(at & TRUNC_VIEW)[0]}` (truncated view) and `{base}.{sorted(at & FLOOR_VIEW)[0]}` (floor view) of the same duration: negative durations are ordered wrongly", ctx.loc(f))
                else:
                    rr.ok({"fn": f.qual, "view": "floor" if at & FLOOR_VIEW else "truncated"})


def _make_views(prop: str, rid: str):
    def r_views(ctx: Ctx) -> RuleResult:
        rr = RuleResult(rid, "day part and time-of-day part of a Duration are taken from the same decomposition (floor/floor or truncated/truncated) within one expression", min_instances=2)
        check_duration_views(ctx, rr)
        return rr

    r_views.__name__ = f"r{prop[1:]}_duration_views"
    return r_views


rule("C03")(_make_views("C03", "R03.12"))
rule("C11")(_make_views("C11", "R11.10"))
rule("C15")(_make_views("C15", "R15.8"))
rule("C17")(_make_views("C17", "R17.12"))
rule("C19")(_make_views("C19", "R19.8"))


# ------------------------------------------------------------------------------------------------ parameters never read

# parameters that are legitimately ignored: the function is a callback whose signature is fixed by its consumer, or the parameter
# selects an overload / documents intent.  (function, parameter) -> reason
PARAMS_REVIEWED = {
    ("ParseResult.convert_error", "target_type"): "only carries the static type for the checker (generic conversion)",
    ("_LocalInstant.__ctor", "deliberately_invalid"): "overload selector for the before-min / after-max sentinels",
    ("_ResourceManager.get_string", "culture"): "resources exist for the invariant culture only",
    ("__ResolversMeta.return_earlier", "later"): "ambiguity resolver signature (earlier, later)",
    ("__ResolversMeta.return_later", "earlier"): "ambiguity resolver signature (earlier, later)",
}
CALLBACK_PARAM_NAMES = {"value", "bucket", "cursor", "local_time", "pattern", "time", "sb"}


def unread_parameters(ctx: Ctx, files: set[str] | None):
    M = ctx.M
    for f in sorted(set(M.func_of_node.values()), key=lambda x: x.qual):
        if isinstance(f.node, ast.Lambda) or "_compatibility" in f.mod.rel or (files is not None and f.mod.rel not in files):
            continue
        body = [s for s in f.body if not (isinstance(s, ast.Expr) and isinstance(s.value, ast.Constant))]
        if not body or (len(body) == 1 and isinstance(body[0], (ast.Raise, ast.Pass))):
            continue
        if f.decorators & {"overload", "abc.abstractmethod", "abstractmethod", "typing.overload"}:
            continue
        if f.cls is not None and (any(f.name in k.methods for k in M.mro(f.cls)[1:]) or M.overrides(f)):
            continue  # the signature belongs to an interface / base class
        loads = {x.id for x in ast.walk(f.node) if isinstance(x, ast.Name) and isinstance(x.ctx, ast.Load)}
        for p in f.value_params:
            if p.arg.startswith("_"):
                continue
            unread = p.arg not in loads
            reviewed = (f.qual, p.arg) in PARAMS_REVIEWED or (f.parent is not None and p.arg in CALLBACK_PARAM_NAMES) or (p.arg == "pattern" and f.name.lstrip("_").startswith("handle_") and [q.arg for q in f.value_params] == ["pattern", "builder"])
            yield f, p.arg, unread and not reviewed


def _make_params(prop: str):
    def r_params(ctx: Ctx) -> RuleResult:
        rr = RuleResult(f"R{prop[1:]}.params", "every parameter of a function is read by it (parse/format callbacks and pattern-character handlers with consumer-fixed signatures excepted)", min_instances=5)
        for f, name, bad in unread_parameters(ctx, anchor_scope(ctx, prop)):
            rr.inst(nontrivial=False)
            if bad:
                rr.fail(f.qual, f"parameter `{name}` is never read: callers pass a value that has no effect on the result", ctx.loc(f))
            else:
                rr.ok()
        return rr

    r_params.__name__ = f"r{prop[1:]}_params_unread"
    return r_params


for _i in range(1, 21):
    _p = f"C{_i:02d}"
    rule(_p)(_make_params(_p))


# ------------------------------------------------------------------------------------------------ fields and their names


def _field(a: str) -> str:
    import re

    return re.sub(r"^_[A-Za-z0-9]+__", "", a).strip("_").lower()


def field_name_mismatches(ctx: Ctx, files: set[str] | None):
    """(a) `obj.a = b` where `b` is a plain name spelled like ANOTHER field stored on the same object in the same function while a
    name spelled like `a` is in scope (the two were crossed over or the neighbour was picked);  (b) a property `a` that returns
    `self.b` although the class has a field spelled `a`.  280 stores and 143 one-line getters on the pinned tree, none mismatched."""
    M = ctx.M
    for f in sorted(set(M.func_of_node.values()), key=lambda x: x.qual):
        if isinstance(f.node, ast.Lambda) or "_compatibility" in f.mod.rel or (files is not None and f.mod.rel not in files):
            continue
        stores = []
        for s in own_nodes(f.node):
            if isinstance(s, (ast.Assign, ast.AnnAssign)) and s.value is not None:
                for t in (s.targets if isinstance(s, ast.Assign) else [s.target]):
                    v = s.value
                    if isinstance(v, ast.Call) and "_Preconditions._check_not_null" in unparse(v.func) and v.args:
                        v = v.args[0]  # self.__x = _Preconditions._check_not_null(x, "x")
                    if isinstance(t, ast.Attribute) and isinstance(t.value, ast.Name) and isinstance(v, ast.Name):
                        stores.append((t.value.id, _field(t.attr), v.id.strip("_").lower(), s))
        attrs = {(o, a) for o, a, _, _ in stores}
        scope = {x.arg.strip("_").lower() for x in f.node.args.args + f.node.args.kwonlyargs} | {x.id.strip("_").lower() for x in ast.walk(f.node) if isinstance(x, ast.Name) and isinstance(x.ctx, ast.Store)}
        for o, a, v, s in stores:
            yield f, s, (f"`{unparse(s)[:80]}` stores `{v}` in field `{a}` although `{o}` also has a field `{v}` and a value named `{a}` is in scope" if v != a and (o, v) in attrs and a in scope else None)
        if f.kind == "property" and f.cls is not None:
            body = [b for b in f.body if not (isinstance(b, ast.Expr) and isinstance(b.value, ast.Constant))]
            if len(body) == 1 and isinstance(body[0], ast.Return) and isinstance(body[0].value, ast.Attribute) and isinstance(body[0].value.value, ast.Name) and body[0].value.value.id in ("self", "cls"):
                fld, own = _field(body[0].value.attr), f.name.strip("_").lower()
                bad = None
                if fld != own:
                    fields = {_field(k) for k in list(f.cls.assigns) + list(f.cls.annots)}
                    for g in f.cls.methods.values():
                        fields |= {_field(n.attr) for n in ast.walk(g.node) if isinstance(n, ast.Attribute) and isinstance(n.ctx, ast.Store) and isinstance(n.value, ast.Name) and n.value.id in ("self", "cls")}
                    if own in fields:
                        bad = f"property `{f.name}` returns the field `{body[0].value.attr}` although the class has a field `{own}`"
                yield f, body[0], bad


def _make_fields(prop: str):
    def r_fields(ctx: Ctx) -> RuleResult:
        rr = RuleResult(f"R{prop[1:]}.fields", "fields receive the value spelled like them, and one-line properties return the field spelled like them, whenever such a value / field exists (no neighbour picked by mistake)", min_instances=0)
        if "fields_total" not in ctx.cache:
            ctx.cache["fields_total"] = sum(1 for _ in field_name_mismatches(ctx, None))
        if ctx.cache["fields_total"] < 300:
            from ..model import AnalysisError

            raise AnalysisError(f"field store / getter enumerator finds only {ctx.cache['fields_total']} sites in the whole package (423 confirmed)")
        for f, s, bad in field_name_mismatches(ctx, anchor_scope(ctx, prop)):
            rr.inst(nontrivial=False)
            if bad:
                rr.fail(f.qual, bad, ctx.loc(f, s))
            else:
                rr.ok()
        return rr

    r_fields.__name__ = f"r{prop[1:]}_fields_named"
    return r_fields


for _i in range(1, 21):
    _p = f"C{_i:02d}"
    rule(_p)(_make_fields(_p))


# ------------------------------------------------------------------------------------------------ errors are not swallowed

# handlers that end without raising: (file, exception type) -> reason
SWALLOW_REVIEWED = {
    ("pyoda_time/text/_local_date_time_pattern_parser.py", "OverflowError"): "24:00 on the last day of the calendar: converted to the out-of-range failure result (parsing never raises)",
    ("pyoda_time/calendars/_hebrew_year_month_day_calculator.py", "OverflowError"): "the month search probes start + n months beyond `end` on purpose; a probe outside the calendar is an overshoot (R09.18 requires this handler)",
    ("pyoda_time/_compatibility/_culture_info.py", ""): "unknown culture names fall back to the invariant culture (compatibility layer, not claimed)",
}


def swallowing_handlers(ctx: Ctx):
    """`except` handlers no path of which raises, and `contextlib.suppress` blocks: an error converted into an ordinary value."""
    M = ctx.M
    for f in sorted(set(M.func_of_node.values()), key=lambda x: x.qual):
        if isinstance(f.node, ast.Lambda):
            continue
        for t in own_nodes(f.node):
            if isinstance(t, ast.Try):
                for h in t.handlers:
                    raises = any(isinstance(x, ast.Raise) for b in h.body for x in ast.walk(b))
                    yield f, h, (unparse(h.type) if h.type is not None else ""), not raises
            elif isinstance(t, ast.With):
                for it in t.items:
                    if isinstance(it.context_expr, ast.Call) and unparse(it.context_expr.func).endswith("suppress"):
                        yield f, t, ",".join(unparse(a) for a in it.context_expr.args), True


def _make_swallow(prop: str):
    def r_swallow(ctx: Ctx) -> RuleResult:
        rr = RuleResult(f"R{prop[1:]}.swallow", "no exception is converted into an ordinary value: every `except` handler re-raises (three reviewed conversions excepted), no contextlib.suppress", min_instances=1)
        files = None if prop in ("C08", "C13", "C20") else anchor_scope(ctx, prop)
        rr.inst(nontrivial=False)
        rr.ok({"scope": "whole package" if files is None else "anchor files"})
        for f, h, ty, swallows in swallowing_handlers(ctx):
            if files is not None and f.mod.rel not in files:
                continue
            rr.inst(nontrivial=False)
            if swallows and (f.mod.rel, ty) not in SWALLOW_REVIEWED:
                rr.fail(f.qual, f"`except {ty}` ends without raising: the error is turned into an ordinary result and the caller continues with it", ctx.loc(f, h))
            else:
                rr.ok()
        return rr

    r_swallow.__name__ = f"r{prop[1:]}_swallowed_errors"
    return r_swallow


for _i in range(1, 21):
    _p = f"C{_i:02d}"
    rule(_p)(_make_swallow(_p))


# ------------------------------------------------------------------------------------------------ None tests on optional numbers


def _optional_scalar(ann: ast.expr | None) -> bool:
    import re

    if ann is None:
        return False
    t = unparse(ann)
    return bool(re.search(r"\bNone\b", t)) and bool(re.search(r"\b(int|float|str|Decimal)\b", t)) and "Callable" not in t


def truthiness_on_optionals(ctx: Ctx, files: set[str] | None):
    """Parameters / annotated locals of type `int | None` (float, str, Decimal likewise) used as a bare truth value: 0 and "" are values,
    not absence, so `if year and day_of_year` takes the wrong overload for year 0 (1 BCE).  Sites: every bare-name operand of an
    if / while / conditional-expression / assert test or of a boolean operator."""
    for f in sorted(set(ctx.M.func_of_node.values()), key=lambda x: x.qual):
        if isinstance(f.node, ast.Lambda) or "_compatibility" in f.mod.rel or (files is not None and f.mod.rel not in files):
            continue
        ann = {a.arg: a.annotation for a in f.node.args.args + f.node.args.kwonlyargs + f.node.args.posonlyargs}
        for s in own_nodes(f.node):
            if isinstance(s, ast.AnnAssign) and isinstance(s.target, ast.Name):
                ann[s.target.id] = s.annotation
        names = {k for k, v in ann.items() if _optional_scalar(v)}

        def bare(e: ast.expr):
            if isinstance(e, ast.BoolOp):
                for v in e.values:
                    yield from bare(v)
            elif isinstance(e, ast.UnaryOp) and isinstance(e.op, ast.Not):
                yield from bare(e.operand)
            elif isinstance(e, ast.Name):
                yield e

        seen: set[int] = set()
        for s in own_nodes(f.node):
            tests = []
            if isinstance(s, (ast.If, ast.While, ast.IfExp, ast.Assert)):
                tests.append(s.test)
            if isinstance(s, ast.BoolOp):
                tests.append(s)
            for t in tests:
                for nm in bare(t):
                    if id(nm) in seen:
                        continue
                    seen.add(id(nm))
                    yield f, t, nm.id, (unparse(ann[nm.id]) if nm.id in names else None)


def _make_truthy(prop: str):
    def r_truthy(ctx: Ctx) -> RuleResult:
        rr = RuleResult(f"R{prop[1:]}.truthy", "optional numbers / strings are tested with `is None`, never by truth value (0 and \"\" are values)", min_instances=0)
        if "truthy_total" not in ctx.cache:
            ctx.cache["truthy_total"] = sum(1 for _ in truthiness_on_optionals(ctx, None))
        if ctx.cache["truthy_total"] < 50:
            from ..model import AnalysisError

            raise AnalysisError(f"truth-value enumerator finds only {ctx.cache['truthy_total']} bare-name tests in the whole package (69 confirmed)")
        for f, t, name, ann in truthiness_on_optionals(ctx, anchor_scope(ctx, prop)):
            rr.inst(nontrivial=False)
            if ann is not None:
                rr.fail(f.qual, f"`{unparse(t)[:80]}` tests `{name}: {ann}` by truth value: the value 0 / \"\" is treated as absent", ctx.loc(f, t))
            else:
                rr.ok()
        return rr

    r_truthy.__name__ = f"r{prop[1:]}_truthy_optionals"
    return r_truthy


for _i in range(1, 21):
    _p = f"C{_i:02d}"
    rule(_p)(_make_truthy(_p))


# ------------------------------------------------------------------------------------------------ truncated views are not scaled back up

# accessors that return a quantity truncated to a coarser unit than the value holds (nanoseconds)
TRUNCATED_VIEWS = {"tick_of_day", "tick_of_second", "millisecond", "bcl_compatible_ticks", "to_unix_time_ticks", "to_unix_time_milliseconds", "to_unix_time_seconds"}


def scaled_views(ctx: Ctx, files: set[str] | None):
    """Products `<view> * <X_PER_Y constant>`: scaling a unit count up to a finer unit.  When the view is one of the truncating
    accessors of a nanosecond-precision value (tick_of_day, tick_of_second, millisecond ...) the product has lost the digits
    below the view's unit: `tick_of_day * NANOSECONDS_PER_TICK` is not `nanosecond_of_day`."""
    import re

    for f in sorted(set(ctx.M.func_of_node.values()), key=lambda x: x.qual):
        if "_compatibility" in f.mod.rel or (files is not None and f.mod.rel not in files):
            continue
        nodes = ast.walk(f.node) if isinstance(f.node, ast.Lambda) else own_nodes(f.node)
        for n in nodes:
            if isinstance(n, ast.BinOp) and isinstance(n.op, ast.Mult):
                for a, b in ((n.left, n.right), (n.right, n.left)):
                    if isinstance(a, ast.Call):
                        a = a.func
                    if isinstance(a, ast.Attribute) and re.search(r"_PER_", unparse(b)):
                        yield f, n, a.attr, a.attr in TRUNCATED_VIEWS
            # a truncating view used as the key of min / max / sorted orders values that differ below the view's unit arbitrarily
            if isinstance(n, ast.Call) and isinstance(n.func, ast.Name) and n.func.id in ("min", "max", "sorted"):
                for k in n.keywords:
                    if k.arg == "key":
                        attr = k.value.attr if isinstance(k.value, ast.Attribute) else (k.value.body.func.attr if isinstance(k.value, ast.Lambda) and isinstance(k.value.body, ast.Call) and isinstance(k.value.body.func, ast.Attribute) else k.value.body.attr if isinstance(k.value, ast.Lambda) and isinstance(k.value.body, ast.Attribute) else "")
                        yield f, n, attr, attr in TRUNCATED_VIEWS


def _make_resolution(prop: str):
    def r_resolution(ctx: Ctx) -> RuleResult:
        rr = RuleResult(f"R{prop[1:]}.resolution", "no truncating view of a nanosecond-precision value (tick_of_day, tick_of_second, millisecond, unix-time ticks ...) is scaled back up with a unit constant", min_instances=0)
        if "resolution_total" not in ctx.cache:
            ctx.cache["resolution_total"] = sum(1 for _ in scaled_views(ctx, None))
        if ctx.cache["resolution_total"] < 10:
            from ..model import AnalysisError

            raise AnalysisError(f"unit-scaling enumerator finds only {ctx.cache['resolution_total']} products in the whole package (16 confirmed)")
        for f, n, attr, bad in scaled_views(ctx, anchor_scope(ctx, prop)):
            rr.inst(nontrivial=False)
            if bad:
                rr.fail(f.qual, f"`{unparse(n)[:90]}`: `{attr}` is already truncated to its unit; scaling it back up drops the finer digits of the value", ctx.loc(f, n))
            else:
                rr.ok()
        return rr

    r_resolution.__name__ = f"r{prop[1:]}_resolution"
    return r_resolution


for _i in range(1, 21):
    _p = f"C{_i:02d}"
    rule(_p)(_make_resolution(_p))


# ------------------------------------------------------------------------------------------------ stored configuration is used

# name-private attributes that are stored and never read on the pinned tree: (class, attribute) -> reason
DEADFIELD_REVIEWED = {
    ("_PyodaFormatInfo", "__offset_date_time_pattern_parser"): "slot for a pattern type that is not ported yet",
    ("_PyodaFormatInfo", "__offset_time_pattern_parser"): "slot for a pattern type that is not ported yet",
    ("_PyodaFormatInfo", "__zoned_date_time_pattern_parser"): "slot for a pattern type that is not ported yet",
    ("_PyodaFormatInfo", "__year_month_pattern_parser"): "slot for a pattern type that is not ported yet",
    ("TzdbDateTimeZoneSource", "__guesses"): "Windows-zone guesses are not ported; the dictionary is only created",
}


def private_fields(ctx: Ctx, files: set[str] | None):
    """Name-private attributes (`self.__x`) of each class: stored somewhere in the class, and whether anything in the class reads
    them (getattr strings included).  A value that is stored and never read was meant to influence something and does not."""
    for lst in ctx.M.classes.values():
        for c in lst:
            if "_compatibility" in c.mod.rel or (files is not None and c.mod.rel not in files):
                continue
            stores: dict[str, ast.Attribute] = {}
            loads: set[str] = set()
            for n in ast.walk(c.node):
                if isinstance(n, ast.Attribute) and n.attr.startswith("__") and not n.attr.endswith("__"):
                    if isinstance(n.ctx, ast.Store):
                        stores.setdefault(n.attr, n)
                    else:
                        loads.add(n.attr)
                if isinstance(n, ast.Constant) and isinstance(n.value, str):
                    loads.add(n.value.replace("_" + c.name, ""))
                if isinstance(n, ast.AugAssign) and isinstance(n.target, ast.Attribute):
                    loads.add(n.target.attr)
            for a, n in sorted(stores.items()):
                yield c, a, n, a not in loads and (c.name, a) not in DEADFIELD_REVIEWED


def _make_deadfield(prop: str):
    def r_deadfield(ctx: Ctx) -> RuleResult:
        rr = RuleResult(f"R{prop[1:]}.deadfield", "every name-private attribute a class stores is read somewhere in that class (a stored setting that nothing reads has no effect; five reviewed placeholders excepted)", min_instances=0)
        if "deadfield_total" not in ctx.cache:
            ctx.cache["deadfield_total"] = sum(1 for _ in private_fields(ctx, None))
        if ctx.cache["deadfield_total"] < 150:
            from ..model import AnalysisError

            raise AnalysisError(f"private-attribute enumerator finds only {ctx.cache['deadfield_total']} attributes in the whole package")
        for c, a, n, bad in private_fields(ctx, anchor_scope(ctx, prop)):
            rr.inst(nontrivial=False)
            if bad:
                rr.fail(c.qual, f"`{a}` is stored but nothing in {c.name} reads it: the setting it carries is ignored", f"{c.mod.rel}:{n.lineno}")
            else:
                rr.ok()
        return rr

    r_deadfield.__name__ = f"r{prop[1:]}_deadfield"
    return r_deadfield


for _i in range(1, 21):
    _p = f"C{_i:02d}"
    rule(_p)(_make_deadfield(_p))


# ------------------------------------------------------------------------------------------------ identity comparisons on values


def identity_on_values(ctx: Ctx, files: set[str] | None):
    """`is` / `is not` comparisons: sites, and whether an operand folds to a number / string / tuple (an IntEnum member counts: it
    is an int, callers may pass the plain int, and two equal ints need not be the same object).  `x is 355` is false for an int
    computed at run time; `numbering is HebrewMonthNumbering.CIVIL` is false for the plain 1 the factory also accepts."""
    from ..model import UNKNOWN

    M = ctx.M
    for f in sorted(set(M.func_of_node.values()), key=lambda x: x.qual):
        if "_compatibility" in f.mod.rel or (files is not None and f.mod.rel not in files):
            continue
        nodes = ast.walk(f.node) if isinstance(f.node, ast.Lambda) else own_nodes(f.node)
        for c in nodes:
            if not (isinstance(c, ast.Compare) and any(isinstance(o, (ast.Is, ast.IsNot)) for o in c.ops)):
                continue
            bad = None
            for s_ in [c.left] + list(c.comparators):
                if isinstance(s_, ast.Constant) and (s_.value is None or s_.value is True or s_.value is False or s_.value is Ellipsis):
                    continue
                v = M.fold(s_, f.cls, f.mod) if isinstance(s_, (ast.Attribute, ast.Name, ast.Constant)) else UNKNOWN
                if isinstance(v, (int, str, float, bytes, tuple)) and not isinstance(v, bool):
                    bad = (unparse(s_), v)
            yield f, c, bad


def _make_identity(prop: str):
    def r_identity(ctx: Ctx) -> RuleResult:
        rr = RuleResult(f"R{prop[1:]}.identity", "`is` / `is not` never compares numbers, strings or IntEnum members (identity of equal values is an accident of the interpreter)", min_instances=0)
        if "identity_total" not in ctx.cache:
            ctx.cache["identity_total"] = sum(1 for _ in identity_on_values(ctx, None))
        if ctx.cache["identity_total"] < 150:
            from ..model import AnalysisError

            raise AnalysisError(f"identity-comparison enumerator finds only {ctx.cache['identity_total']} comparisons in the whole package (208 confirmed)")
        for f, c, bad in identity_on_values(ctx, anchor_scope(ctx, prop)):
            rr.inst(nontrivial=False)
            if bad:
                rr.fail(f.qual, f"`{unparse(c)[:80]}` compares by identity with `{bad[0]}` = {bad[1]!r}: an equal value that is not the very same object takes the other branch", ctx.loc(f, c))
            else:
                rr.ok()
        return rr

    r_identity.__name__ = f"r{prop[1:]}_identity_on_values"
    return r_identity


for _i in range(1, 21):
    _p = f"C{_i:02d}"
    rule(_p)(_make_identity(_p))


# ------------------------------------------------------------------------------------------------ what is validated is what is used


def validated_then_replaced(ctx: Ctx, files: set[str] | None):
    """A name is validated (`..._validate_...(name, ...)`, `_check_argument_range("name", name, lo, hi)`) and later, in the same
    function, REPLACED by a value computed from other inputs as well: the value that is used was never validated (e.g. the year
    validated as given, then converted from year-of-era to an absolute year with the era).  Re-normalising the validated value
    from itself (`n = trunc(n)`, `millis += DAY`) is fine."""
    M = ctx.M
    for f in sorted(set(M.func_of_node.values()), key=lambda x: x.qual):
        if isinstance(f.node, ast.Lambda) or "_compatibility" in f.mod.rel or (files is not None and f.mod.rel not in files):
            continue
        stmts = list(own_nodes(f.node))
        for s in stmts:
            if not (isinstance(s, ast.Call) and ("validate" in unparse(s.func) or unparse(s.func).endswith("_check_argument_range"))):
                continue
            names = {a.id for a in s.args if isinstance(a, ast.Name)}
            if unparse(s.func).endswith("_check_argument_range"):
                names = {s.args[1].id} if len(s.args) > 1 and isinstance(s.args[1], ast.Name) else set()
            bad = None
            for t in stmts:
                if isinstance(t, (ast.Assign, ast.AnnAssign)) and t.value is not None and (t.lineno, t.col_offset) > (s.lineno, s.col_offset):
                    for x in (t.targets if isinstance(t, ast.Assign) else [t.target]):
                        if isinstance(x, ast.Name) and x.id in names:
                            others = set()
                            for y in ast.walk(t.value):
                                if isinstance(y, ast.Name) and y.id != x.id and M.cls(y.id, required=False) is None:
                                    par = getattr(y, "_parent", None)
                                    if isinstance(par, ast.Call) and par.func is y:
                                        continue  # a function being called
                                    others.add(y.id)
                            # other *inputs*: parameters of the function (receivers like `calendar` alone do not change the value's meaning... they do: count them only with a second input)
                            params = {p.arg for p in f.value_params}
                            if len(others & params) >= 1 and any(o in params and o != x.id for o in others) and len([o for o in others if o in params]) >= 2:
                                bad = (x.id, t)
            yield f, s, bad


def _make_revalidate(prop: str):
    def r_revalidate(ctx: Ctx) -> RuleResult:
        rr = RuleResult(f"R{prop[1:]}.revalidate", "a validated name is not afterwards replaced by a value computed from further inputs (the value used is the value that was validated)", min_instances=0)
        if "revalidate_total" not in ctx.cache:
            ctx.cache["revalidate_total"] = sum(1 for _ in validated_then_replaced(ctx, None))
        if ctx.cache["revalidate_total"] < 60:
            from ..model import AnalysisError

            raise AnalysisError(f"validation-call enumerator finds only {ctx.cache['revalidate_total']} calls in the whole package (108 confirmed)")
        for f, s, bad in validated_then_replaced(ctx, anchor_scope(ctx, prop)):
            rr.inst(nontrivial=False)
            if bad:
                rr.fail(f.qual, f"`{bad[0]}` is validated by `{unparse(s)[:60]}` and then replaced by `{unparse(bad[1])[:70]}`: the value that is used was not the one validated", ctx.loc(f, bad[1]))
            else:
                rr.ok()
        return rr

    r_revalidate.__name__ = f"r{prop[1:]}_revalidate"
    return r_revalidate


for _i in range(1, 21):
    _p = f"C{_i:02d}"
    rule(_p)(_make_revalidate(_p))


# ------------------------------------------------------------------------------------------------ per-instance state is per instance

# class-level containers that instance methods write to on purpose: (class, attribute) -> reason
SHAREDSTATE_REVIEWED = {
    ("_GregorianYearMonthDayCalculator", "__MONTH_START_DAYS"): "filled in __init__ with values that depend on nothing but the constants of the class: every instance writes the same table",
    ("_GregorianYearMonthDayCalculator", "__YEAR_START_DAYS"): "as above",
}


def shared_mutable_state(ctx: Ctx, files: set[str] | None):
    """Containers created in a CLASS body ({} / [] / set() / dict() / list()) and written through `self` in a method: every
    instance writes into the one object, so what one instance caches (a zone under an id, a parsed pattern under its text) is
    served to every other instance - results then depend on which other objects were used before.  Writes through `cls` are the
    deliberate process-wide registries and are decided elsewhere (R13.4)."""
    M = ctx.M
    mut_ops = ("append", "extend", "insert", "add", "update", "pop", "remove", "clear", "setdefault")
    for lst in M.classes.values():
        for c in lst:
            if "_compatibility" in c.mod.rel or not c.mod.rel.startswith("pyoda_time/") or (files is not None and c.mod.rel not in files):
                continue
            cl: dict[str, ast.stmt] = {}
            for s_ in c.node.body:
                tg, v = None, None
                if isinstance(s_, ast.Assign) and len(s_.targets) == 1 and isinstance(s_.targets[0], ast.Name):
                    tg, v = s_.targets[0].id, s_.value
                if isinstance(s_, ast.AnnAssign) and isinstance(s_.target, ast.Name) and s_.value is not None:
                    tg, v = s_.target.id, s_.value
                if tg and (isinstance(v, (ast.Dict, ast.List, ast.Set)) or isinstance(v, ast.Call) and unparse(v.func) in ("dict", "list", "set", "defaultdict", "collections.defaultdict", "OrderedDict")):
                    cl[tg] = s_
            for name, st in sorted(cl.items()):
                writers = []
                for g in c.all_defs:
                    if isinstance(g.node, ast.Lambda):
                        continue
                    for n in own_nodes(g.node):
                        a = None
                        if isinstance(n, ast.Call) and isinstance(n.func, ast.Attribute) and n.func.attr in mut_ops and isinstance(n.func.value, ast.Attribute):
                            a = n.func.value
                        if isinstance(n, (ast.Assign, ast.AugAssign)):
                            for t in (n.targets if isinstance(n, ast.Assign) else [n.target]):
                                if isinstance(t, ast.Subscript) and isinstance(t.value, ast.Attribute):
                                    a = t.value
                        if a is not None and isinstance(a.value, ast.Name) and a.value.id == "self" and a.attr == name:
                            writers.append((g, n))
                yield c, name, st, writers if (c.name, name) not in SHAREDSTATE_REVIEWED else []


def _make_sharedstate(prop: str):
    def r_sharedstate(ctx: Ctx) -> RuleResult:
        rr = RuleResult(f"R{prop[1:]}.sharedstate", "no container created in a class body is written through `self` (per-instance caches and maps are created per instance; two reviewed tables)", min_instances=0)
        if "sharedstate_total" not in ctx.cache:
            ctx.cache["sharedstate_total"] = sum(1 for _ in shared_mutable_state(ctx, None))
        if ctx.cache["sharedstate_total"] < 5:
            from ..model import AnalysisError

            raise AnalysisError(f"class-level container enumerator finds only {ctx.cache['sharedstate_total']} containers in the whole package")
        for c, name, st, writers in shared_mutable_state(ctx, anchor_scope(ctx, prop)):
            rr.inst(nontrivial=False)
            if writers:
                g, n = writers[0]
                rr.fail(c.qual, f"`{name}` is created once in the class body but {g.qual} writes to it through `self` (`{unparse(n)[:60]}`): all instances of {c.name} share what each of them stores", ctx.loc(g, n))
            else:
                rr.ok()
        return rr

    r_sharedstate.__name__ = f"r{prop[1:]}_sharedstate"
    return r_sharedstate


for _i in range(1, 21):
    _p = f"C{_i:02d}"
    rule(_p)(_make_sharedstate(_p))


# ------------------------------------------------------------------------------------------------ rich comparisons are used as operators


def explicit_comparison_dunders(ctx: Ctx, files: set[str] | None):
    """Calls that spell a rich comparison as a method (`x.__eq__(y)`): unlike the operator, the method may return NotImplemented,
    which is truthy - `not self.__eq__(other)` is False for every foreign operand, so `!=` and `==` are both False.
    `super().__eq__(...)` inside the same dunder is the one legitimate form."""
    for f in sorted(set(ctx.M.func_of_node.values()), key=lambda x: x.qual):
        if "_compatibility" in f.mod.rel or (files is not None and f.mod.rel not in files):
            continue
        nodes = ast.walk(f.node) if isinstance(f.node, ast.Lambda) else own_nodes(f.node)
        for n in nodes:
            if isinstance(n, ast.Compare) or isinstance(n, ast.Call) and isinstance(n.func, ast.Attribute) and n.func.attr in ("__eq__", "__ne__", "__lt__", "__le__", "__gt__", "__ge__"):
                bad = isinstance(n, ast.Call) and not (isinstance(n.func.value, ast.Call) and unparse(n.func.value.func) == "super")
                yield f, n, bad


def _make_dunder(prop: str):
    def r_dunder(ctx: Ctx) -> RuleResult:
        rr = RuleResult(f"R{prop[1:]}.dunder", "rich comparisons are written with operators, never as explicit `.__eq__(...)` / `.__lt__(...)` calls (NotImplemented is truthy)", min_instances=0)
        if "dunder_total" not in ctx.cache:
            ctx.cache["dunder_total"] = sum(1 for _ in explicit_comparison_dunders(ctx, None))
        if ctx.cache["dunder_total"] < 500:
            from ..model import AnalysisError

            raise AnalysisError(f"comparison enumerator finds only {ctx.cache['dunder_total']} comparisons in the whole package")
        for f, n, bad in explicit_comparison_dunders(ctx, anchor_scope(ctx, prop)):
            rr.inst(nontrivial=False)
            if bad:
                rr.fail(f.qual, f"`{unparse(n)[:70]}` calls the comparison method directly: for an operand of another type it returns NotImplemented, which is truthy", ctx.loc(f, n))
            else:
                rr.ok()
        return rr

    r_dunder.__name__ = f"r{prop[1:]}_dunder_calls"
    return r_dunder


for _i in range(1, 21):
    _p = f"C{_i:02d}"
    rule(_p)(_make_dunder(_p))


# ------------------------------------------------------------------------------------------------ values copy the sequences they are given


def raw_sequence_stores(ctx: Ctx, files: set[str] | None):
    """Constructors of classes that define __eq__ / __hash__ (values): a parameter annotated as a Sequence / Iterable / list /
    Mapping / Collection stored as it is.  The value then shares the caller's object: it changes (and its hash with it) when the
    caller's list does, and a list never equals the tuple a decoded twin holds."""
    import re

    M = ctx.M
    for lst in M.classes.values():
        for c in lst:
            if not c.mod.rel.startswith("pyoda_time/") or "_compatibility" in c.mod.rel or (files is not None and c.mod.rel not in files):
                continue
            if "__hash__" not in c.methods and "__eq__" not in c.methods:
                continue
            for g in c.methods.values():
                if isinstance(g.node, ast.Lambda) or g.name != "__init__":
                    continue  # private constructors (_ctor / __ctor) are handed sequences the caller has just built and owns
                ann = {a.arg: (unparse(a.annotation) if a.annotation is not None else "") for a in g.node.args.args + g.node.args.kwonlyargs}
                for n in own_nodes(g.node):
                    if isinstance(n, (ast.Assign, ast.AnnAssign)) and n.value is not None:
                        t = n.targets[0] if isinstance(n, ast.Assign) else n.target
                        if not isinstance(t, ast.Attribute):
                            continue
                        v = n.value
                        if isinstance(v, ast.Call) and "_check_not_null" in unparse(v.func) and v.args:
                            v = v.args[0]
                        seqlike = isinstance(v, ast.Name) and bool(re.search(r"Sequence|Iterable|list\[|List\[|Mapping|dict\[|Collection", ann.get(v.id, "")))
                        if isinstance(v, ast.Name) and v.id in ann:
                            yield c, g, n, seqlike


def _make_rawseq(prop: str):
    def r_rawseq(ctx: Ctx) -> RuleResult:
        rr = RuleResult(f"R{prop[1:]}.rawseq", "constructors of value classes (with __eq__ / __hash__) never store a Sequence / Iterable / Mapping argument as it is: they copy it into an immutable container", min_instances=0)
        if "rawseq_total" not in ctx.cache:
            ctx.cache["rawseq_total"] = sum(1 for _ in raw_sequence_stores(ctx, None))
        if ctx.cache["rawseq_total"] < 20:
            from ..model import AnalysisError

            raise AnalysisError(f"constructor-store enumerator finds only {ctx.cache['rawseq_total']} parameter stores in value classes")
        for c, g, n, bad in raw_sequence_stores(ctx, anchor_scope(ctx, prop)):
            rr.inst(nontrivial=False)
            if bad:
                rr.fail(g.qual, f"`{unparse(n)[:80]}` keeps the caller's sequence: the value changes (and its hash) when the caller's object does, and never equals a twin holding a tuple", ctx.loc(g, n))
            else:
                rr.ok()
        return rr

    r_rawseq.__name__ = f"r{prop[1:]}_rawseq"
    return r_rawseq


for _i in range(1, 21):
    _p = f"C{_i:02d}"
    rule(_p)(_make_rawseq(_p))


# ------------------------------------------------------------------------------------------------ rules shared between properties

# A change made to break one property often does so through a mechanism whose home is a neighbouring property; the home rule is then
# registered for both and reports under its home id.  property -> [(module, rule function)]
SHARED = {
    "C01": [("c09", "r09_3_fast_path_bounds"), ("c10", "r10_14_borrow_and_carry_use_the_right_year"), ("c12", "r12_1_total_order"), ("c09", "r09_2_month_year_clamp"), ("c12", "r12_1b_hebrew_compare"), ("c02", "r02_5_leap_decisions"), ("c13", "r13_1_year_cache_keys"), ("c02", "r02_7_hebrew_molad"), ("c02", "r02_8_registry_round_trip")],
    "C02": [("c13", "r13_1_year_cache_keys"), ("c01", "r01_5_per_year_consistency"), ("c01", "r01_13_days_since_epoch_uses_hooks"), ("c01", "r01_14_gregorian_fast_tables")],
    "C03": [("c11", "r11_4_sign_discipline"), ("c15", "r15_12_timedelta_fields"), ("c15", "r15_13_no_coarser_type_on_the_way"), ("c05", "r05_10_safe_plus_at_the_ends_of_time")],
    "C04": [("c05", "r05_11_local_instant_day_range"), ("c02", "r02_5_leap_decisions"), ("c05", "r05_10_safe_plus_at_the_ends_of_time"), ("c06", "r06_11_fixed_zone_table")],
    "C06": [("c04", "r04_8_queries_are_used"), ("c02", "r02_5_leap_decisions"), ("c13", "r13_2_zone_interval_cache"), ("c01", "r01_5_per_year_consistency"), ("c17", "r17_11_offset_bucket_range"), ("c04", "r04_14_weekday_adjustment"), ("c12", "r12_2_3_eq_hash_fields"), ("c17", "r17_1_iso_shape"), ("c04", "r04_15_alternating_map_crosswise_savings"), ("c17", "r17_14_offset_field_getters")],
    "C18": [("c12", "r12_2_3_eq_hash_fields"), ("c09", "r09_12_months_between_is_checked_by_addition"), ("c13", "r13_12_packed_cache_words_are_unpacked"), ("c01", "r01_5_per_year_consistency"), ("c01", "r01_13_days_since_epoch_uses_hooks"), ("c01", "r01_3b_badi_table_readers"), ("c01", "r01_9_badi_year_lengths"), ("c10", "r10_15_single_boundary_fast_path"), ("c12", "r12_1b_hebrew_compare"), ("c13", "r13_20_cache_slots_are_read_once")],
    "C17": [("c01", "r01_14_gregorian_fast_tables"), ("c02", "r02_5_leap_decisions"), ("c13", "r13_13_bucket_providers_build_fresh_buckets"), ("c07", "r07_2_table_agreement"), ("c07", "r07_4_composite_pairing")],
    "C12": [("c09", "r09_12_months_between_is_checked_by_addition"), ("c13", "r13_4_publication"), ("c01", "r01_5_per_year_consistency")],
    "C16": [("c13", "r13_10_cache_slot_is_validated_for_its_own_key"), ("c01", "r01_11_trusted_packings"), ("c10", "r10_14_borrow_and_carry_use_the_right_year"), ("c01", "r01_10_year_starts_vs_year_lengths"), ("c01", "r01_5_per_year_consistency"), ("c02", "r02_5_leap_decisions")],
    "C09": [("c01", "r01_11_trusted_packings"), ("c10", "r10_14_borrow_and_carry_use_the_right_year"), ("c13", "r13_10_cache_slot_is_validated_for_its_own_key"), ("c13", "r13_12_packed_cache_words_are_unpacked"), ("c02", "r02_5_leap_decisions"), ("c01", "r01_3c_day_number_guard"), ("c01", "r01_5_per_year_consistency"), ("c03", "r03_16_unit_factories_split_exactly")],
    "C11": [("c02", "r02_5_leap_decisions"), ("c01", "r01_14_gregorian_fast_tables"), ("c04", "r04_18_transitions_pair_crosswise_and_may_be_at_the_end_of_time"), ("c03", "r03_11_trusted_instants"), ("c10", "r10_14_borrow_and_carry_use_the_right_year"), ("c13", "r13_2_zone_interval_cache"), ("c06", "r06_11_fixed_zone_table"), ("c04", "r04_13_wall_offset_decides_local_time"), ("c03", "r03_16_unit_factories_split_exactly"), ("c10", "r10_16_double_carry_is_symmetric"), ("c04", "r04_14_weekday_adjustment"), ("c17", "r17_11_offset_bucket_range"), ("c01", "r01_5_per_year_consistency"), ("c15", "r15_12_timedelta_fields")],
    "C15": [("c03", "r03_11_trusted_instants"), ("c02", "r02_5_leap_decisions"), ("c03", "r03_15_duration_truncated_views"), ("c01", "r01_14_gregorian_fast_tables"), ("c01", "r01_5_per_year_consistency")],
    "C14": [("c03", "r03_14_tick_arithmetic")],
    "C07": [("c03", "r03_19_total_unit_getter_of_the_duration_patterns"), ("c08", "r08_7_embedded_fields"), ("c17", "r17_8_variable_precision_predicates"), ("c08", "r08_10_field_set_tests"), ("c17", "r17_7_sign_predicates"), ("c17", "r17_2_exact_arithmetic"), ("c17", "r17_14_offset_field_getters"), ("c17", "r17_1_iso_shape"), ("c02", "r02_8_registry_round_trip")],
    "C05": [("c04", "r04_16_tie_at_the_end_of_time"), ("c01", "r01_cfp_calendar_free_productions"), ("c04", "r04_12_cache_periods_stay_in_range"), ("c13", "r13_2_zone_interval_cache")],
    "C10": [("c03", "r03_6_rounding_helpers_exact"), ("c01", "r01_5_per_year_consistency")],
    "C08": [("c07", "r07_14_field_masks"), ("c09", "r09_17_computed_values_overflow"), ("c01", "r01_12_era_calculator_pairing"), ("c01", "r01_16_single_era_year_bounds")],
    "C13": [("c01", "r01_2_registry"), ("c19", "r19_2_lockset"), ("c19", "r19_9_locks_are_created_once")],
    "C19": [("c01", "r01_9_badi_year_lengths"), ("c04", "r04_17_single_transition_zone_boundary"), ("c13", "r13_12_packed_cache_words_are_unpacked"), ("c01", "r01_5_per_year_consistency"), ("c13", "r13_2_zone_interval_cache"), ("c03", "r03_9_untrusted_guard"), ("c06", "r06_11_fixed_zone_table"), ("c04", "r04_14_weekday_adjustment"), ("c04", "r04_15_alternating_map_crosswise_savings")],
}


def register_shared(prop: str) -> None:
    import importlib

    from ..core import REGISTRY

    for mod, fn in SHARED.get(prop, []):
        m = importlib.import_module(f"sa.rules.{mod}")
        f = getattr(m, fn)
        if f not in REGISTRY.get(prop, []):
            rule(prop)(f)
