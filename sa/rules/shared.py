"""Generic rules registered for every property, each scoped to that property's anchor files.

Rxx.args   misplaced arguments: an argument whose name is the name of a *different* parameter of the resolved callee, while that
           parameter is not given the like-named value (`f(start=end, end=start)`, `Interval(end, start)`, a keyword pair crossed
           over).  On the pinned tree 2 442 resolved calls have no such argument except one reviewed case.
"""
from __future__ import annotations

import ast

from ..core import Ctx, RuleResult, anchor_files, rule
from ..kit import bind_args, own_nodes
from ..model import unparse

# (caller, callee parameter, argument) reviewed as intended, one line of reason each
ARGS_REVIEWED = {
    ("LocalDateTime.in_utc", "nanosecond_of_day_zero_offset", "nanosecond_of_day"): "the zero-offset overload takes the plain nanosecond-of-day (offset 0 contributes no bits)",
}


def _term(e: ast.expr) -> str | None:
    if isinstance(e, ast.Name):
        return e.id
    if isinstance(e, ast.Attribute):
        return e.attr.lstrip("_")
    return None


def misplaced_arguments(ctx: Ctx, files: set[str] | None):
    M, R = ctx.M, ctx.R
    for f in sorted(set(M.func_of_node.values()), key=lambda x: x.qual):
        if isinstance(f.node, ast.Lambda) or "_compatibility" in f.mod.rel or (files is not None and f.mod.rel not in files):
            continue
        for c in own_nodes(f.node):
            if not isinstance(c, ast.Call):
                continue
            tg, how = R.callees(c, f, count=False)
            if how != "resolved" or not tg:
                continue
            t = next((x for x in tg if x.name != "__new__"), tg[0])
            b = bind_args(c, t)
            if len(b) < 1:
                continue
            pn = [p.arg for p in t.value_params]
            bad = None
            for p, a in b.items():
                ta = _term(a)
                if ta and ta != p and ta in pn and _term(b.get(ta)) != ta:
                    if (f.qual, p, ta) in ARGS_REVIEWED:
                        continue
                    bad = (p, ta)
                    break
            yield f, c, t, bad


def _make(prop: str):
    def r_args(ctx: Ctx) -> RuleResult:
        rr = RuleResult(f"R{prop[1:]}.args", "no call passes a value named like one parameter of the callee into a different parameter (crossed-over / misplaced arguments)", min_instances=5)
        for f, c, t, bad in misplaced_arguments(ctx, anchor_files(prop)):
            rr.inst(nontrivial=False)
            if bad:
                rr.fail(f.qual, f"`{unparse(c)[:90]}` passes `{bad[1]}` as parameter `{bad[0]}` of {t.qual}, which also has a parameter `{bad[1]}` that does not receive it", ctx.loc(f, c))
            else:
                rr.ok()
        return rr

    r_args.__name__ = f"r{prop[1:]}_args_misplaced"
    return r_args


for _i in range(1, 21):
    _p = f"C{_i:02d}"
    rule(_p)(_make(_p))


# ------------------------------------------------------------------------------------------------ results never read


def unread_results(ctx: Ctx, files: set[str] | None):
    """Locals bound to the result of a call (or any computed expression) that no later code reads - not even a nested function.
    When a query is made and its answer dropped, the decision that follows is taken on something else (typically the neighbouring
    variable).  959 local bindings on the pinned tree, none unread."""
    for f in sorted(set(ctx.M.func_of_node.values()), key=lambda x: x.qual):
        if isinstance(f.node, ast.Lambda) or "_compatibility" in f.mod.rel or (files is not None and f.mod.rel not in files):
            continue
        loads = {x.id for x in ast.walk(f.node) if isinstance(x, ast.Name) and isinstance(x.ctx, ast.Load)}
        for s in own_nodes(f.node):
            tg: list[ast.Name] = []
            if isinstance(s, ast.Assign):
                tg = [t for t in s.targets if isinstance(t, ast.Name)]
            elif isinstance(s, ast.AnnAssign) and s.value is not None and isinstance(s.target, ast.Name):
                tg = [s.target]
            for t in tg:
                yield f, s, t.id, (t.id not in loads and not t.id.startswith("_"))


def _make_dead(prop: str):
    def r_dead(ctx: Ctx) -> RuleResult:
        rr = RuleResult(f"R{prop[1:]}.unread", "every value bound to a local is read by the code that follows (no query is made and its answer dropped)", min_instances=0)
        if "unread_total" not in ctx.cache:
            ctx.cache["unread_total"] = sum(1 for _ in unread_results(ctx, None))
        if ctx.cache["unread_total"] < 600:
            from ..model import AnalysisError

            raise AnalysisError(f"local-binding enumerator finds only {ctx.cache['unread_total']} bindings in the whole package (959 confirmed)")
        for f, s, name, unread in unread_results(ctx, anchor_files(prop)):
            rr.inst(nontrivial=False)
            if unread:
                rr.fail(f.qual, f"`{name} = {unparse(s.value)[:70]}` is never read: whatever is decided next does not depend on it", ctx.loc(f, s))
            else:
                rr.ok()
        return rr

    r_dead.__name__ = f"r{prop[1:]}_unread_results"
    return r_dead


for _i in range(1, 21):
    _p = f"C{_i:02d}"
    rule(_p)(_make_dead(_p))
