"""C07 - Formatting then parsing with the same pattern returns the original value.

The round trip of values is NOT decided (it quantifies over values, cultures and pattern texts).  Decided are structural
clauses without which the round trip cannot hold:
  R07.1  lock-step: on every path of every pattern-character handler the text produced and the text consumed advance
         together - a handler registers format and parse contributions together (or neither, or a parse action that
         consumes nothing).
  R07.2  table agreement: rows for the same letter in sibling parsers agree on the field flag; the declared [min, max] of a
         numeric row is what its parse action stores (abstract execution of the row), fits in max_count digits, and the
         getter/setter pair of a row reads and writes the same logical field.
  R07.3  fraction handlers parse and format with the same (count, scale).
  R07.4  composite patterns pair patterns[i] with format_predicates[i].
  R07.5  zero-padded format specifications are applied to non-negative operands only (the sign is written separately, so
         the digit count the parser expects is produced).
  R07.6  shortcuts keep the configuration: a cached / default parser or an ISO-only fast path is taken only under a test of
         every configuration value it ignores (calendar, template value, two-digit-year maximum).
"""
from __future__ import annotations

import ast
from typing import Any

from ..absint import Iv
from ..core import Ctx, RuleResult, rule
from ..exc import ExcAnalysis, facts_at
from ..kit import PathWalker, own_nodes, sub_nodes
from ..model import UNKNOWN, AnalysisError, Func, mangle, unparse
from ..patterns import BuildRun, parser_tables

TEXT = "pyoda_time/text/"
CAP = 3


def _all_nested(f: Func) -> list[Func]:
    return [g for lst in f.nested_all.values() for g in lst]


# cursor methods that advance the value cursor
CONSUMING = {"_match", "_match_case_insensitive", "_parse_digits", "_parse_fraction", "_parse_int64", "move", "move_next", "parse_partial", "_parse_era"}


class LockStep:
    """Per-function summary: the set of (consuming parse actions, non-consuming parse actions, format contributions)
    over its normally returning paths."""

    def __init__(self, ctx: Ctx) -> None:
        self.ctx = ctx
        self.M = ctx.M
        self.A = ExcAnalysis(ctx)
        self.memo: dict[int, frozenset[tuple[int, int, int]]] = {}
        self.stack: set[int] = set()
        self.builder = self.M.cls("_SteppedPatternBuilder")

    def summary(self, f: Func) -> frozenset[tuple[int, int, int]]:
        k = id(f)
        if k in self.memo:
            return self.memo[k]
        if k in self.stack:
            return frozenset({(0, 0, 0)})
        self.stack.add(k)
        try:
            if f.cls is self.builder and f.name == "_add_format_action":
                res = frozenset({(0, 0, 1)})
            else:
                res = self._walk(f)
        finally:
            self.stack.discard(k)
        self.memo[k] = res
        return res

    def _events(self, e: ast.AST, f: Func) -> list[frozenset[tuple[int, int, int]]]:
        """Summaries of the builder-affecting calls inside an expression, in evaluation order (inner first)."""
        out: list[frozenset[tuple[int, int, int]]] = []
        calls = [n for n in sub_nodes(e) if isinstance(n, ast.Call)]
        calls.sort(key=lambda n: (getattr(n, "end_lineno", 0), getattr(n, "end_col_offset", 0)))
        for c in calls:
            tg, how = self.ctx.R.callees(c, f, count=False)
            if not tg or how == "fallback":
                ind = self.A.resolve_callable(c.func, f, 0, set())
                if ind:
                    tg = ind
                elif how == "fallback" and len(tg) > 3:
                    tg = []
            if tg and all(t.cls is self.builder and t.name == "_add_parse_action" for t in tg):
                # classify the registered action: does it advance the cursor?
                arg = c.args[0] if c.args else next((k.value for k in c.keywords if k.arg == "parse_action"), None)
                acts = self.A.resolve_callable(arg, f, 0, set()) if arg is not None else None
                consuming = acts is None or not acts or any(self.consumes(a) for a in acts)
                out.append(frozenset({(1, 0, 0) if consuming else (0, 1, 0)}))
                continue
            sums: set[tuple[int, int, int]] = set()
            rel = [t for t in tg if t.mod.rel.startswith(TEXT) and (t.cls is self.builder or t.parent is not None or t.cls is None or "Helper" in (t.cls.name if t.cls else "") or t.name.startswith(("_add", "add_", "_handle", "handle", "__handle", "__add")))]
            for t in rel:
                sums |= set(self.summary(t))
            if sums and sums != {(0, 0, 0)}:
                out.append(frozenset(sums))
        return out

    @staticmethod
    def _add(st: tuple[int, int, int], d: tuple[int, int, int]) -> tuple[int, int, int]:
        return (min(CAP, st[0] + d[0]), min(CAP, st[1] + d[1]), min(CAP, st[2] + d[2]))

    def _walk(self, f: Func) -> frozenset[tuple[int, int, int]]:
        if isinstance(f.node, ast.Lambda):
            states = {(0, 0, 0)}
            for ev in self._events(f.node.body, f):
                states = {self._add(s0, d) for s0 in states for d in ev}
            return frozenset(states)

        def on_stmt(s: ast.stmt, st: tuple[int, int, int]):
            outs = {st}
            if isinstance(s, (ast.FunctionDef, ast.AsyncFunctionDef, ast.ClassDef)):
                return [st]
            for ev in self._events(s, f):
                outs = {self._add(s0, d) for s0 in outs for d in ev}
            return list(outs)

        def on_cond(t: ast.expr, st: tuple[int, int, int], truth: bool):
            outs = {st}
            for ev in self._events(t, f):
                outs = {self._add(s0, d) for s0 in outs for d in ev}
            return list(outs)

        w = PathWalker(on_stmt=on_stmt, on_cond=on_cond, max_iter=3)
        ex = w.run(f.body, (0, 0, 0))
        res = set(ex.fall) | {st for _, st in ex.returns}
        return frozenset(res) if res else frozenset()

    def consumes(self, f: Func) -> bool:
        nodes = list(sub_nodes(f.node.body)) if isinstance(f.node, ast.Lambda) else list(own_nodes(f.node))
        for n in nodes:
            if isinstance(n, ast.Call) and isinstance(n.func, ast.Attribute) and n.func.attr in CONSUMING:
                if n.func.attr == "_match_case_insensitive" and len(n.args) >= 2 and isinstance(n.args[1], ast.Constant) and n.args[1].value is False:
                    continue
                return True
        return False


def _row_handlers(ctx: Ctx, LS: LockStep, pt: Any, expr: ast.expr) -> list[Func] | None:
    from ..exc import ExcAnalysis

    h = LS.A.classbody_holder(pt.parser, pt.attr, pt.table)
    return LS.A.resolve_callable(expr, h, 0, set())


@rule("C07")
def r07_1_lock_step(ctx: Ctx) -> RuleResult:
    rr = RuleResult("R07.1", "lock-step: every path of every pattern-character handler registers format and parse contributions together (or none, or a parse action that consumes no input)", min_instances=28)
    LS = LockStep(ctx)
    tables = parser_tables(ctx)
    seen: set[int] = set()
    for pt in tables:
        for ch, expr in pt.rows.items():
            hs = _row_handlers(ctx, LS, pt, expr)
            if not hs:
                rr.inst()
                rr.fail(pt.parser.qual, f"handler for {ch!r} ({unparse(expr)[:50]}) could not be resolved to a function", pt.parser.mod.rel)
                continue
            for h in hs:
                if id(h) in seen:
                    continue
                seen.add(id(h))
                rr.inst()
                rr.states += 1
                sm = LS.summary(h)
                bad = [(pc, pn, q) for (pc, pn, q) in sorted(sm) if (pc > 0) != (q > 0)]
                if not bad:
                    rr.ok({"handler": h.qual, "row": f"{pt.parser.name}[{ch!r}]", "paths(consuming parse, non-consuming parse, format)": sorted(sm)})
                elif any(q > 0 for (_, _, q) in bad):
                    b = next(x for x in bad if x[2] > 0)
                    rr.fail(h.qual, f"a path registers {b[2]} format contribution(s) but no parse action that consumes input: the formatted text is not consumed when parsing (row {pt.parser.name}[{ch!r}])", h.loc)
                else:
                    b = bad[0]
                    rr.fail(h.qual, f"a path registers {b[0]} input-consuming parse action(s) and no format contribution: parsing expects text that formatting never writes (row {pt.parser.name}[{ch!r}])", h.loc)
    return rr


def _parse_only_ok(LS: LockStep, h: Func) -> bool:
    """The parse-only paths of h register closures that do not touch the cursor."""
    cands = _all_nested(h) + list(h.lambdas)
    parse_closures = [g for g in cands if not any(isinstance(n, ast.Call) and isinstance(n.func, ast.Attribute) and n.func.attr == "append" for n in (own_nodes(g.node) if not isinstance(g.node, ast.Lambda) else sub_nodes(g.node.body)))]
    return any(not LS.consumes(g) for g in parse_closures)


# ------------------------------------------------------------------------------------------- R07.2 table agreement


def _padded_rows(ctx: Ctx) -> list[tuple[Any, str, ast.Call]]:
    out = []
    for pt in parser_tables(ctx):
        for ch, expr in pt.rows.items():
            if isinstance(expr, ast.Call) and unparse(expr.func).split("[")[0].endswith("_handle_padded_field") or isinstance(expr, ast.Call) and unparse(expr.func).endswith("._handle_padded_field"):
                out.append((pt, ch, expr))
    return out


def _getter_reads(ctx: Ctx, e: ast.expr, pt: Any) -> str | None:
    """The property name a getter reads from its value (`value.minute` -> 'minute'); None when it computes."""
    LS_A = ExcAnalysis(ctx)
    h = LS_A.classbody_holder(pt.parser, pt.attr, pt.table)
    fs = LS_A.resolve_callable(e, h, 0, set())
    if not fs or len(fs) != 1:
        return None
    f = fs[0]
    body = f.node.body if isinstance(f.node, ast.Lambda) else (f.body[0].value if len(f.body) == 1 and isinstance(f.body[0], ast.Return) else None)
    if isinstance(body, ast.Attribute) and isinstance(body.value, ast.Name) and body.value.id in {a.arg for a in f.params}:
        return body.attr
    return None


FIELD_OF_PROPERTY = {
    # value property -> bucket field written by the matching setter
    "hour": "_hours_24", "clock_hour_of_half_day": "_hours_12", "minute": "_minutes", "second": "_seconds", "year": "_year",
    "year_of_era": "_year_of_era", "month": "_month_of_year_numeric", "day": "_day_of_month", "nanosecond_of_second": "_fractional_seconds",
}


@rule("C07")
def r07_2_table_agreement(ctx: Ctx) -> RuleResult:
    rr = RuleResult("R07.2", "handler tables: sibling rows for a letter agree on the field flag, a numeric row's parse action stores exactly its declared [min, max] into the field its getter reads, and max_count digits can represent max", min_instances=30)
    M = ctx.M
    rows = _padded_rows(ctx)
    if len(rows) < 12:
        raise AnalysisError(f"only {len(rows)} padded-field rows found (14 confirmed)")
    by_letter: dict[str, list[tuple[str, str]]] = {}
    runs: dict[str, BuildRun] = {}
    for pt, ch, call in rows:
        from ..kit import positional

        args = positional(call, M.func("_SteppedPatternBuilder._handle_padded_field", required=True))
        if len(args) != 7 or any(a is None for a in args):
            raise AnalysisError(f"{pt.parser.name}[{ch!r}]: _handle_padded_field no longer takes 7 positional arguments")
        max_count, fld, lo, hi = (M.fold(a, pt.parser, pt.parser.mod) for a in args[:4])
        fname = unparse(args[1]).split(".")[-1]
        by_letter.setdefault(ch, []).append((pt.parser.name, fname))
        # digits capacity
        rr.inst()
        if not all(isinstance(x, int) for x in (max_count, lo, hi)):
            rr.fail(pt.parser.qual, f"row {ch!r}: max_count / min / max are not constants", pt.parser.mod.rel)
            continue
        if 10 ** max_count - 1 < max(abs(lo), abs(hi)):
            rr.fail(pt.parser.qual, f"row {ch!r}: {max_count} digits cannot represent the declared maximum {hi}", pt.parser.mod.rel)
        elif lo > hi:
            rr.fail(pt.parser.qual, f"row {ch!r}: empty range [{lo}, {hi}]", pt.parser.mod.rel)
        else:
            rr.ok({"row": f"{pt.parser.name}[{ch!r}]", "digits": max_count, "range": [lo, hi]})
        # the parse action stores [lo, hi] into one bucket field; the getter reads the matching property
        if pt.parser.name not in runs:
            runs[pt.parser.name] = BuildRun(ctx, pt)
        br = runs[pt.parser.name]
        before = len(br.writes)
        br.run_row(ch, call)
        ws = br.writes[before:]
        rr.states += 1
        rr.inst()
        flds = {w.field for w in ws}
        if len(flds) != 1:
            rr.fail(pt.parser.qual, f"row {ch!r}: the parse action stores into {sorted(flds) or 'no field'} (exactly one bucket field expected)", pt.parser.mod.rel)
            continue
        fld_name = next(iter(flds))
        val = None
        for w in ws:
            val = w.value if val is None else __import__("sa.absint", fromlist=["join"]).join(val, w.value)
        if not (isinstance(val, Iv) and val.lo == lo and val.hi == hi):
            rr.fail(pt.parser.qual, f"row {ch!r}: declared range [{lo}, {hi}] but the parse action stores {val} into {fld_name}", pt.parser.mod.rel)
            continue
        prop = _getter_reads(ctx, args[4], pt)
        if prop is None:
            rr.ok({"row": f"{pt.parser.name}[{ch!r}]", "stores": f"{fld_name} in [{lo}, {hi}]", "getter": "computed (not a plain property read)"})
        elif FIELD_OF_PROPERTY.get(prop) is None:
            rr.undecided.append(f"{pt.parser.name}[{ch!r}]: getter reads .{prop}, no field correspondence known")
        elif FIELD_OF_PROPERTY[prop] != fld_name.lstrip("_").join(["_", ""]) and FIELD_OF_PROPERTY[prop] != fld_name:
            rr.fail(pt.parser.qual, f"row {ch!r}: the getter formats value.{prop} but the setter stores the parsed number into {fld_name} (expected {FIELD_OF_PROPERTY[prop]}): format and parse use different fields", pt.parser.mod.rel)
        else:
            rr.ok({"row": f"{pt.parser.name}[{ch!r}]", "getter": f"value.{prop}", "setter": fld_name, "range": [lo, hi]})
    for ch, lst in sorted(by_letter.items()):
        rr.inst()
        flags = {f for _, f in lst}
        if len(flags) > 1:
            rr.fail("handler tables", f"letter {ch!r} is bound to different fields in sibling parsers: {sorted(lst)}", "")
        else:
            rr.ok({"letter": ch, "field": next(iter(flags)), "parsers": len(lst)})
    return rr


# ------------------------------------------------------------------------------------------- R07.3 fraction handlers


@rule("C07")
def r07_3_fraction_scale(ctx: Ctx) -> RuleResult:
    rr = RuleResult("R07.3", "fraction handlers parse and format with the same (count, scale): _parse_fraction(count, scale, ..) vs _add_format_fraction*(count, scale, getter) inside one handler", min_instances=3)
    M = ctx.M
    for f in M.funcs.values():
        if not f.mod.rel.startswith(TEXT) or isinstance(f.node, ast.Lambda):
            continue
        fmts = [n for n in own_nodes(f.node) if isinstance(n, ast.Call) and isinstance(n.func, ast.Attribute) and n.func.attr in ("_add_format_fraction", "_add_format_fraction_truncate")]
        if not fmts:
            continue
        parses = [n for g in _all_nested(f) for n in own_nodes(g.node) if isinstance(n, ast.Call) and isinstance(n.func, ast.Attribute) and n.func.attr == "_parse_fraction"]
        if not parses:
            continue
        for fm in fmts:
            rr.inst()
            want = (unparse(fm.args[0]), unparse(fm.args[1])) if len(fm.args) >= 2 else None
            got = {(unparse(p.args[0]), unparse(p.args[1])) for p in parses if len(p.args) >= 2}
            if want is None or got != {want}:
                rr.fail(f.qual, f"fraction is formatted with (width, scale) = {want} but parsed with {sorted(got)}: digits are weighted differently in the two directions", ctx.loc(f, fm))
            else:
                rr.ok({"handler": f.qual, "count,scale": want})
    # the helper formats with the scale it is given: _append_fraction*(value, length, scale, ..)
    b = M.cls("_SteppedPatternBuilder")
    for nm in ("_add_format_fraction", "_add_format_fraction_truncate"):
        f = M.find_method(b, nm)
        if f is None:
            raise AnalysisError(f"_SteppedPatternBuilder.{nm} missing")
        rr.inst()
        calls = [n for g in _all_nested(f) for n in own_nodes(g.node) if isinstance(n, ast.Call) and "_append_fraction" in unparse(n.func)]
        if calls and [unparse(a) for a in calls[0].args[1:3]] == [a.arg for a in f.value_params[:2]]:
            rr.ok({"helper": nm, "forwards": "(width, scale)"})
        else:
            rr.fail(f.qual, "does not forward (width, scale) unchanged to the fraction formatter", f.loc)
    return rr


# ------------------------------------------------------------------------------------------- R07.4 composite pairing


@rule("C07")
def r07_4_composite_pairing(ctx: Ctx) -> RuleResult:
    rr = RuleResult("R07.4", "composite patterns: patterns[i] is selected by format_predicates[i] (same index on both lists in add and in the format lookup) and parsing tries the patterns in list order", min_instances=3)
    M = ctx.M
    cb = M.cls("CompositePatternBuilder")
    add = M.find_method(cb, "add")
    rr.inst()
    if add is None:
        raise AnalysisError("CompositePatternBuilder.add missing")
    def _unwrap(a: ast.expr) -> str:
        if isinstance(a, ast.Call) and unparse(a.func).endswith("_check_not_null") and a.args:
            return unparse(a.args[0])
        return unparse(a)

    apps = [(unparse(n.func.value), _unwrap(n.args[0])) for n in own_nodes(add.node) if isinstance(n, ast.Call) and isinstance(n.func, ast.Attribute) and n.func.attr == "append" and n.args]
    ps = [a for a in add.value_params]
    ok = len(apps) == 2 and {x[1] for x in apps} == {p.arg for p in ps[:2]} and all(("predicate" in tgt) == ("predicate" in arg) for tgt, arg in apps)
    if ok:
        rr.ok({"add": apps})
    else:
        rr.fail(add.qual, f"add does not append the pattern to the pattern list and the predicate to the predicate list: {apps}", add.loc)
    comp = next((c for c in M.all_classes() if c.name.endswith("__CompositePattern") or c.name == "__CompositePattern"), None)
    if comp is None:
        raise AnalysisError("composite pattern class missing")
    ffp = next((m for m in comp.all_defs if "find_format_pattern" in m.name), None)
    rr.inst()
    if ffp is None:
        raise AnalysisError("__find_format_pattern missing")
    src = unparse(ffp.node)
    # the pattern returned is indexed by the position of the predicate that accepted the value
    subs = [n for n in own_nodes(ffp.node) if isinstance(n, ast.Subscript) and "patterns" in unparse(n.value)]
    from ..kit import inline_locals as _inl

    # the position must be the loop's own index (enumerate / range over the predicate list): `list.index(predicate)` finds the FIRST
    # equal element, so when one predicate object is registered for two patterns the first pattern is used although the last
    # accepting one is documented to win
    by_value = [s_ for s_ in subs if "format_predicates.index(" in unparse(s_.slice) or "format_predicates.index(" in unparse(_inl(ffp.node, s_.slice))]
    by_position = [s_ for s_ in subs if isinstance(_inl(ffp.node, s_.slice), ast.Name) and any(isinstance(l, ast.For) and ("enumerate" in unparse(l.iter) or "range" in unparse(l.iter)) and "predicates" in unparse(l.iter) for l in own_nodes(ffp.node))]
    if by_value:
        rr.fail(ffp.qual, f"`{unparse(by_value[0])[:80]}` looks the accepting predicate up by VALUE: with the same predicate object registered twice the first of its patterns is used, not the last accepting one", ctx.loc(ffp, by_value[0]))
    elif by_position:
        # every position must be visited: range(len - 1, -1, -1) / reversed(range(len)) / enumerate
        short = None
        for l in own_nodes(ffp.node):
            if isinstance(l, ast.For) and isinstance(l.iter, ast.Call) and unparse(l.iter.func) == "range":
                a = l.iter.args
                if len(a) == 3 and unparse(a[2]) == "-1" and unparse(a[1]) != "-1":
                    short = l
                if len(a) == 2 and unparse(a[0]) != "0":
                    short = l
        if short is not None:
            rr.fail(ffp.qual, f"`for ... in {unparse(short.iter)[:60]}` does not visit every predicate position (position 0 - the first, most precise pattern - is never tried)", ctx.loc(ffp, short))
        else:
            rr.ok({"lookup": unparse(by_position[0])[:80], "by": "loop position"})
    else:
        rr.fail(ffp.qual, "the pattern used for formatting is not the one at the position of the accepting predicate", ffp.loc)
    # format() and append_format() must pick the SAME pattern: every other method of the composite that walks the predicates itself
    # (instead of delegating to the lookup) has to walk them last-added-first as well
    for m in sorted(comp.all_defs, key=lambda g: g.qual):
        if isinstance(m.node, ast.Lambda) or m is ffp or m.name == "__init__":
            continue
        loops = [l for l in own_nodes(m.node) if isinstance(l, (ast.For, ast.comprehension)) and "format_predicates" in unparse(l.iter)]
        for l in loops:
            rr.inst()
            it = unparse(l.iter)
            if "reversed(" in it or (isinstance(l.iter, ast.Call) and unparse(l.iter.func) == "range" and len(l.iter.args) == 3 and unparse(l.iter.args[2]) == "-1" and unparse(l.iter.args[1]) == "-1"):
                rr.ok({"method": m.qual, "walk": it[:60]})
            else:
                rr.fail(m.qual, f"`for ... in {it[:70]}` walks the predicates first-added-first: this method then writes the text of a different pattern from format(), which uses the LAST added pattern that accepts the value (`+05:30:00` where format() gives `+05:30`)", ctx.loc(m, l.iter))
    # the two parallel lists are filled pairwise at every construction site
    for f in M.funcs.values():
        if not f.mod.rel.startswith(TEXT) or isinstance(f.node, ast.Lambda):
            continue
        for n in own_nodes(f.node):
            if isinstance(n, ast.Call) and unparse(n.func).endswith("CompositePatternBuilder"):
                kw = {k.arg: k.value for k in n.keywords}
                if "patterns" in kw and "format_predicates" in kw:
                    rr.inst()
                    a, b = kw["patterns"], kw["format_predicates"]
                    if isinstance(a, ast.List) and isinstance(b, ast.List) and len(a.elts) == len(b.elts):
                        rr.ok({"site": f.qual, "n": len(a.elts)})
                    else:
                        rr.fail(f.qual, "patterns and format_predicates lists of different length", ctx.loc(f, n))
    return rr


# ------------------------------------------------------------------------------------------- R07.5 zero padding

INF = float("inf")
# documented preconditions of the number formatters (their docstrings / names); checked at every call made by a format action
HELPER_PRE = {
    "_FormatHelper._format_2_digits_non_negative": {"value": (0, 99)},
    "_FormatHelper._format_4_digits_value_fits": {"value": (-9999, 9999)},
    "_FormatHelper._left_pad_non_negative": {"value": (0, INF)},
    "_FormatHelper._left_pad": {},
    "_FormatHelper._append_fraction": {"value": (0, INF)},
    "_FormatHelper._append_fraction_truncate": {"value": (0, INF)},
    "_FormatHelper._format_invariant": {},
}


_YEAR = "the year is bounded by the calendars' validated range (C01 R01.3); the prover only sees the packed field's capacity"
_DUR = "relational: for a negative duration nanosecond_of_day is negative exactly when floor_days < 0, so the negated sum is non-negative; the interval domain does not link the two reads"
EXPECTED_UNDECIDED_ROWS = {
    ("_LocalDatePatternParser", "u", "_format_4_digits_value_fits"): _YEAR,
    ("_LocalDatePatternParser", "y", "_format_4_digits_value_fits"): _YEAR,
    ("_LocalDateTimePatternParser", "u", "_format_4_digits_value_fits"): _YEAR,
    ("_LocalDateTimePatternParser", "y", "_format_4_digits_value_fits"): _YEAR,
    ("_DurationPatternParser", "H", "_left_pad_non_negative"): _DUR,
    ("_DurationPatternParser", "M", "_left_pad_non_negative"): _DUR,
    ("_DurationPatternParser", "S", "_left_pad_non_negative"): _DUR,
}


def helper_spec_sites(ctx: Ctx, rr: RuleResult) -> None:
    """Inside the number formatters, under their preconditions, every zero-padded format spec has a non-negative operand."""
    from ..absint import Interp, NN, ConstV, num
    from ..oblig import get_contracts

    M = ctx.M
    fh = M.cls("_FormatHelper")
    for f in fh.all_defs:
        if isinstance(f.node, ast.Lambda):
            continue
        specs = [n for n in own_nodes(f.node) if isinstance(n, ast.FormattedValue) and n.format_spec is not None and _spec_text(n).startswith("0")]
        if not specs:
            continue
        if f.qual not in HELPER_PRE:
            rr.inst()
            rr.fail(f.qual, "number formatter with a zero-padded format spec has no recorded precondition", f.loc)
            continue
        I = Interp(M, ctx.R, get_contracts(ctx), budget=256, depth=4, max_nodes=4000)
        seen: dict[int, Any] = {}

        def on_f(node: ast.FormattedValue, v: Any, st: Any, fn: Func) -> None:
            if fn is f and node.format_spec is not None and _spec_text(node).startswith("0"):
                x = num(v) if isinstance(v, (Iv, ConstV)) else Iv(-INF, INF, False)
                seen[id(node)] = x if id(node) not in seen else Iv(min(seen[id(node)].lo, x.lo), max(seen[id(node)].hi, x.hi), seen[id(node)].prec and x.prec)

        I.on_fstring = on_f
        params = {p: Iv(lo, hi, True) for p, (lo, hi) in HELPER_PRE[f.qual].items()}
        I.analyse(f, params=params)
        rr.states += I.steps
        for n in specs:
            rr.inst()
            x = seen.get(id(n))
            if x is None:
                rr.ok({"site": f.qual, "spec": _spec_text(n), "note": "not reachable under the precondition"})
            elif x.lo >= 0:
                rr.ok({"site": f.qual, "spec": _spec_text(n), "operand": repr(x)})
            else:
                rr.fail(f.qual, f"zero-padded format `{{{unparse(n.value)}:{_spec_text(n)}}}` is applied to an operand that can be negative ({x}): the width then counts the minus sign, one digit fewer is written than the parser requires", ctx.loc(f, n))


def _spec_text(n: ast.FormattedValue) -> str:
    fs = n.format_spec
    if isinstance(fs, ast.JoinedStr):
        return "".join(v.value if isinstance(v, ast.Constant) and isinstance(v.value, str) else "{}" for v in fs.values)
    return unparse(fs) if fs is not None else ""


@rule("C07")
def r07_5_number_formatting(ctx: Ctx) -> RuleResult:
    rr = RuleResult("R07.5", "numbers are written with the digit count the parser requires: inside the number formatters every zero-padded spec has a non-negative operand (sign written separately), and every format action calls a formatter within its precondition (abstract execution of the format actions of every table row)", min_instances=25)
    helper_spec_sites(ctx, rr)
    from ..absint import ConstV, num

    for pt in parser_tables(ctx):
        br = ctx.cache.get(("c08.br", pt.parser.name))
        if br is None or not br.format_actions:
            br = BuildRun(ctx, pt)
            br.run()
            ctx.cache[("c08.br", pt.parser.name)] = br
        rr.states += br.steps
        agg: dict[tuple[str, str, str], Any] = {}
        for row, helper, bound, chain in br.helper_calls:
            for p, (lo, hi) in HELPER_PRE.get(helper, {}).items():
                v = bound.get(p)
                x = num(v) if isinstance(v, (Iv, ConstV)) else Iv(-INF, INF, False)
                k = (row, helper, p)
                agg[k] = x if k not in agg else Iv(min(agg[k].lo, x.lo), max(agg[k].hi, x.hi), agg[k].prec and x.prec)
        for (row, helper, p), x in sorted(agg.items()):
            rr.inst()
            lo, hi = HELPER_PRE[helper][p]
            why = EXPECTED_UNDECIDED_ROWS.get((pt.parser.name, row, helper.split(".")[-1]))
            if x.within(lo, hi):
                rr.ok({"row": f"{pt.parser.name}[{row!r}]", "formatter": helper.split(".")[-1], p: repr(x)})
            elif why is not None:
                rr.undecided.append(f"{pt.parser.name}[{row!r}]: {helper.split('.')[-1]}({p}) = {x} ({why})")
            else:
                rr.fail(pt.parser.qual, f"row {row!r}: format action passes {p} = {x} to {helper.split('.')[-1]}, not proved inside its precondition [{lo}, {hi}]: the text written need not have the width / sign the parser expects", pt.parser.mod.rel)
    return rr


# ------------------------------------------------------------------------------------------- R07.6 shortcuts keep configuration


@rule("C07")
def r07_6_shortcuts(ctx: Ctx) -> RuleResult:
    rr = RuleResult("R07.6", "shortcuts keep the configuration: an ISO-only fast path is taken only when the bucket's calendar is ISO, and the culture's cached default parser is used only when every configuration value the explicit parser receives equals its default", min_instances=4)
    M = ctx.M
    # (a) functions that build a value with a hard-coded ISO calendar from bucket fields: every call is guarded by calendar == iso
    for f in M.funcs.values():
        if not f.mod.rel.startswith(TEXT) or isinstance(f.node, ast.Lambda) or f.cls is None or not M.is_subclass(f.cls, "_ParseBucket"):
            continue
        hard = [n for n in own_nodes(f.node) if isinstance(n, ast.Attribute) and unparse(n) == "_CalendarOrdinal.ISO"]
        has_cal = any(k.annots.get("_calendar") is not None or "_calendar" in k.annots for k in M.mro(f.cls))
        if not hard or not has_cal:
            continue
        A = ExcAnalysis(ctx)
        for caller, call in A.callsites().get(id(f), []):
            rr.inst()
            fa = facts_at(call)
            if any(l.endswith("._calendar") and op == "==" and r == "CalendarSystem.iso" for (l, op, r) in fa):
                rr.ok({"fast_path": f.qual, "guard": "self._calendar == CalendarSystem.iso", "site": caller.qual})
            else:
                rr.fail(caller.qual, f"{f.name} builds the value in the ISO calendar, but the call is not guarded by a test that the bucket's calendar is ISO: values of other calendars are parsed as ISO dates", ctx.loc(caller, call))
    # (b) _create(...): cached parser only under a test of every configuration parameter of the explicit parser
    for f in M.funcs.values():
        if not f.mod.rel.startswith(TEXT) or isinstance(f.node, ast.Lambda) or f.name != "_create":
            continue
        for n in own_nodes(f.node):
            if not isinstance(n, ast.If) or not n.orelse:
                continue
            # else-arm constructs a parser explicitly with parameters; then-arm uses format_info's cached parser
            ctor_calls = [c for s in n.orelse for c in sub_nodes(s) if isinstance(c, ast.Call) and unparse(c.func).endswith("._ctor")]
            cached = [c for s in n.body for c in sub_nodes(s) if isinstance(c, ast.Attribute) and "pattern_parser" in c.attr and unparse(c.value) == "format_info"]
            if not ctor_calls or not cached:
                continue
            rr.inst()
            params = {a.arg for a in f.params}
            used = {x.id for c in ctor_calls for a in [*c.args, *[k.value for k in c.keywords]] for x in ast.walk(a) if isinstance(x, ast.Name) and x.id in params}
            from ..kit import inline_locals as _il

            tested = {x.id for x in ast.walk(_il(f.node, n.test)) if isinstance(x, ast.Name)}  # the test may be held in a local
            missing = sorted(used - tested)
            if missing:
                rr.fail(f.qual, f"the culture's cached default parser is used without testing {missing}: a pattern created with a non-default {missing[0]} silently behaves as the default one", ctx.loc(f, n))
            else:
                rr.ok({"create": f.qual, "configuration_tested": sorted(used)})
    return rr


@rule("C07")
def r07_7_duration_total_fields(ctx: Ctx) -> RuleResult:
    """The getter behind the duration pattern's total fields (H, M, S) returns the magnitude of the duration in whole units:
    for d days + n ns in floor form, |d*day + n| // unit - decided on intervals for d < 0 with n == 0, d < 0 with n > 0, d >= 0."""
    from ..absint import Obj
    from ..oblig import interp as mk

    rr = RuleResult("R07.7", "duration total fields (H / M / S): the formatted number is the magnitude of the duration in whole units, for negative durations with and without a partial day and for positive ones", min_instances=9)
    M = ctx.M
    f = M.func("_DurationPatternParser.__get_positive_nanosecond_units", required=False)
    if f is None:
        raise AnalysisError("_DurationPatternParser.__get_positive_nanosecond_units vanished")
    NPD = M.fold_class_const("PyodaConstants", "NANOSECONDS_PER_DAY")
    for unit, npu_name, upd_name in (("H", "NANOSECONDS_PER_HOUR", "HOURS_PER_DAY"), ("M", "NANOSECONDS_PER_MINUTE", "MINUTES_PER_DAY"), ("S", "NANOSECONDS_PER_SECOND", "SECONDS_PER_DAY")):
        npu, upd = M.fold_class_const("PyodaConstants", npu_name), M.fold_class_const("PyodaConstants", upd_name)
        if not all(isinstance(x, int) for x in (npu, upd, NPD)):
            raise AnalysisError("duration unit constants not foldable")
        cases = [
            ("negative, whole days", -3, Iv(0, 0), (3 * upd, 3 * upd)),
            ("negative, partial day", -3, Iv(1, NPD - 1), (2 * upd, 3 * upd - 1)),
            ("positive", 4, Iv(0, NPD - 1), (4 * upd, 5 * upd - 1)),
        ]
        for label, d, n, (lo, hi) in cases:
            rr.inst()
            rr.states += 1
            I = mk(ctx)
            I.max_depth = 6
            dur = Obj("Duration", {mangle("Duration", "__days"): Iv(d, d), mangle("Duration", "__nano_of_day"): n, "$exact": Iv(1, 1)})
            rets, _ = I.analyse(f, params={"duration": dur, "nanoseconds_per_unit": Iv(npu, npu), "units_per_day": Iv(upd, upd)})
            vals = [v for v, _ in rets]
            if vals and all(isinstance(v, Iv) and v.within(lo, hi) for v in vals):
                rr.ok({"unit": unit, "case": label, "result": [repr(v) for v in vals], "expected_window": [lo, hi]})
            else:
                rr.fail(f.qual, f"total field {unit}, {label} duration ({d} days + {n} ns in floor form): the formatted magnitude is {vals}, expected within [{lo}, {hi}] - the text then parses back to a different duration", f.loc)
    return rr


# shared with C08: an embedded date/time pattern must hand every field of the parsed value to the outer bucket, or the text does
# not parse back to the value that was formatted (home id R08.7)
# (cross-registration moved to sa/rules/shared.py: SHARED)

# (cross-registration moved to sa/rules/shared.py: SHARED)


# ------------------------------------------------------------------------------------------- composite format predicates


def offset_composites(ctx: Ctx):
    """The CompositePatternBuilder calls of the Offset parser: [(function, call, [(pattern texts, predicate expr, pattern expr)])].
    A pattern argument that is a parameter of a private helper is followed to the arguments of the helper's call sites in the
    same class (the composite may have been moved into a helper that is given the three pattern texts)."""
    M = ctx.M
    par = M.cls("_OffsetPatternParser")
    fi = M.cls("_PyodaFormatInfo")

    def pattern_text(prop: str) -> str | None:
        g = M.find_method(fi, prop)
        if g is None:
            return None
        for n in own_nodes(g.node):
            if isinstance(n, ast.Call) and isinstance(n.func, ast.Attribute) and n.func.attr == "get_string" and n.args and isinstance(n.args[0], ast.Constant):
                key = n.args[0].value
                for mod in M.mods.values():
                    if mod.rel.endswith("_pattern_resources.py"):
                        for d in ast.walk(mod.tree):
                            if isinstance(d, ast.Dict):
                                for k, v in zip(d.keys, d.values):
                                    if isinstance(k, ast.Constant) and k.value == key and isinstance(v, ast.Constant):
                                        return v.value
        return None

    def props_of(e: ast.expr, f, seen: frozenset = frozenset()) -> set[str]:
        direct = {a.attr for a in ast.walk(e) if isinstance(a, ast.Attribute) and a.attr.startswith("offset_pattern_")}
        if direct:
            return direct
        out: set[str] = set()
        pnames = [p.arg for p in f.value_params]
        for n in ast.walk(e):
            if isinstance(n, ast.Name) and n.id in pnames and (f.qual, n.id) not in seen and len(seen) < 6:
                for g in par.all_defs:
                    if isinstance(g.node, ast.Lambda):
                        continue
                    for c in own_nodes(g.node):
                        if isinstance(c, ast.Call):
                            tg, how = ctx.R.callees(c, g, count=False)
                            if how == "resolved" and f in tg:
                                from ..kit import bind_args

                                a = bind_args(c, f).get(n.id)
                                if a is not None:
                                    out |= props_of(a, g, seen | {(f.qual, n.id)})
        return out

    res = []
    for f in par.all_defs:
        if isinstance(f.node, ast.Lambda):
            continue
        for c in own_nodes(f.node):
            if not (isinstance(c, ast.Call) and unparse(c.func).endswith("CompositePatternBuilder")):
                continue
            kw = {k.arg: k.value for k in c.keywords}
            pats, preds = kw.get("patterns"), kw.get("format_predicates")
            if not (isinstance(pats, ast.List) and isinstance(preds, ast.List) and len(pats.elts) == len(preds.elts)):
                res.append((f, c, None))
                continue
            rows = []
            for pe, qe in zip(pats.elts, preds.elts):
                texts = {pattern_text(p) for p in props_of(pe, f)}
                rows.append((texts, qe, pe))
            res.append((f, c, rows))
    return res


@rule("C07")
def r07_9_offset_general_predicates(ctx: Ctx) -> RuleResult:
    """The general Offset patterns (g / i) format with the shortest of three patterns; the predicate that selects a pattern without
    a seconds (minutes) field must imply that the seconds (minutes and seconds) of the offset are zero, or that component is
    silently dropped and the text parses back to another offset.
    Decided per (pattern, predicate) pair of each CompositePatternBuilder call: the finest field of the pattern text (read from
    the resource table) gives the required divisor m of offset.seconds; the predicate is accepted by form (`<mod>(offset.<unit>, C)
    == 0` with C a multiple of m in that unit), otherwise it is evaluated by the abstract interpreter on exact offsets and a
    definite counterexample (predicate true, seconds not divisible) is a violation; no counterexample on the sample leaves the
    pair undecided (reported, not a proof)."""
    from ..absint import Iv, Obj
    from ..oblig import interp

    rr = RuleResult("R07.9", "general Offset patterns: a predicate that selects a pattern without seconds / minutes implies those components are zero", min_instances=3)
    M = ctx.M
    par = M.cls("_OffsetPatternParser")
    fi = M.cls("_PyodaFormatInfo")
    unit = {"seconds": 1, "milliseconds": 1000, "ticks": 10_000_000, "nanoseconds": 1_000_000_000}

    for f, c, rows in offset_composites(ctx):
        if True:
            if rows is None:
                rr.inst()
                rr.fail(f.qual, "CompositePatternBuilder call without matching literal pattern / predicate lists", ctx.loc(f, c))
                continue
            for texts, qe, pe in rows:
                rr.inst()
                if not texts or None in texts:
                    rr.fail(f.qual, f"pattern text of `{unparse(pe)[:60]}` not found in the resource table", ctx.loc(f, pe))
                    continue
                ms = {1 if "s" in t else 60 if "m" in t else 3600 for t in texts}
                if len(ms) != 1:
                    rr.fail(f.qual, f"`{unparse(pe)[:60]}` stands for patterns of different precision at its call sites: {sorted(texts)}", ctx.loc(f, pe))
                    continue
                m = ms.pop()
                text = "/".join(sorted(texts))
                # the predicate
                if isinstance(qe, ast.Lambda):
                    always = isinstance(qe.body, ast.Constant) and qe.body.value is True
                    if m == 1:
                        rr.ok({"pattern": text, "predicate": unparse(qe), "needs": "nothing (all fields present)"})
                    else:
                        rr.fail(f.qual, f"pattern `{text}` drops components but its predicate is `{unparse(qe)}`" + (" (always true)" if always else ""), ctx.loc(f, qe))
                    continue
                g = M.find_method(par, qe.attr) if isinstance(qe, ast.Attribute) else None
                if g is None:
                    rr.fail(f.qual, f"predicate `{unparse(qe)}` not resolved", ctx.loc(f, qe))
                    continue
                if m == 1:
                    rr.ok({"pattern": text, "predicate": g.name, "needs": "nothing"})
                    continue
                rets = [n.value for n in own_nodes(g.node) if isinstance(n, ast.Return) and n.value is not None]
                proved = False
                if len(rets) == 1 and len(g.body) <= 2 and isinstance(rets[0], ast.Compare) and len(rets[0].ops) == 1 and isinstance(rets[0].ops[0], ast.Eq) \
                        and isinstance(rets[0].comparators[0], ast.Constant) and rets[0].comparators[0].value == 0:
                    lhs = rets[0].left
                    a = b = None
                    if isinstance(lhs, ast.Call) and unparse(lhs.func).endswith("_csharp_modulo") and len(lhs.args) == 2:
                        a, b = lhs.args
                    elif isinstance(lhs, ast.BinOp) and isinstance(lhs.op, ast.Mod):
                        a, b = lhs.left, lhs.right
                    if a is not None and isinstance(a, ast.Attribute) and isinstance(a.value, ast.Name) and a.value.id == g.params[0].arg and a.attr in unit:
                        C = M.fold(b, g.cls, g.mod)
                        if isinstance(C, int) and C > 0:
                            if C % (m * unit[a.attr]) == 0:
                                proved = True
                                rr.ok({"pattern": text, "predicate": g.name, "form": f"offset.{a.attr} % {C} == 0", "implies seconds %": m})
                            else:
                                rr.fail(g.qual, f"selects pattern `{text}` when offset.{a.attr} % {C} == 0, which does not imply offset.seconds % {m} == 0: the dropped component can be non-zero", ctx.loc(g))
                                continue
                if proved:
                    continue
                # not of the recognised form: look for a definite counterexample by exact abstract evaluation
                sample = sorted({s * sg for k in range(0, 121) for d in (0, 1, 29, 30, 59) for sg in (1, -1) for s in [60 * k + d] if s <= 64800}) if ctx.tier == "quick" else range(-7200, 7201)
                cex = None
                for s in sample:
                    if s % m == 0:
                        continue
                    I = interp(ctx)
                    I.max_depth = 4
                    r2, _ = I.analyse(g, params={g.params[0].arg: Obj("Offset", {mangle("Offset", "__seconds"): Iv(s, s)})})
                    rr.states += 1
                    vals = {bool(v.lo) for v, _ in r2 if isinstance(v, Iv) and v.const}
                    if len(r2) >= 1 and vals == {True}:
                        cex = s
                        break
                if cex is not None:
                    rr.fail(g.qual, f"selects pattern `{text}` for an offset of {cex} seconds, whose seconds are not a multiple of {m}: formatting drops the remainder and the text parses back to a different offset", ctx.loc(g))
                else:
                    rr.undecided.append(f"{g.qual}: not of the form `offset.<unit> % C == 0`; no counterexample among the offsets evaluated (not a proof)")
                    rr.ok()
    return rr


@rule("C07")
def r07_10_half_day(ctx: Ctx) -> RuleResult:
    """AM/PM: the formatter writes the PM designator exactly for hours 12..23; the parser must (a) reject a 24-hour value whose half
    of the day differs from the parsed designator using that same split, and (b) rebuild the hour from 12-hour value and
    designator as h12 % 12 + 12 * pm.  Each expression involved is evaluated by the abstract interpreter for every hour
    0..23 (exact integers) and compared with h // 12 - however the expression is spelt."""
    from ..absint import Iv, Obj, State
    from ..oblig import interp

    rr = RuleResult("R07.10", "AM/PM split: format writes PM iff hour >= 12; parse checks and rebuilds the hour with the same split (evaluated for every hour)", min_instances=4)
    M = ctx.M
    bucket = next((c for c in M.all_classes() if c.name == "_LocalTimeParseBucket"), None)
    if bucket is None:
        raise AnalysisError("_LocalTimeParseBucket not found")
    f = next((g for g in bucket.all_defs if g.name.endswith("determine_hour")), None)
    if f is None:
        raise AnalysisError("_LocalTimeParseBucket.__determine_hour not found")

    def ev(expr: ast.expr, fields: dict[str, int], fn) -> Any:  # noqa: ANN401
        I = interp(ctx)
        I.max_depth = 4
        st = State({fn.self_name or "self": Obj(bucket.name, {k: Iv(v, v) for k, v in fields.items()})})
        return I.ev(expr, st, fn, 0)

    # (a) consistency test between the 24-hour value and the designator
    for n in own_nodes(f.node):
        if isinstance(n, ast.Compare) and len(n.ops) == 1 and isinstance(n.ops[0], (ast.NotEq, ast.Eq)):
            sides = [n.left, n.comparators[0]]
            ap = [s for s in sides if unparse(s) == "self._am_pm"]
            other = [s for s in sides if s not in ap]
            if len(ap) == 1 and other and "_hours_24" in unparse(other[0]):
                rr.inst()
                bad = None
                for h in range(24):
                    v = ev(other[0], {"_hours_24": h}, f)
                    rr.states += 1
                    if not (isinstance(v, Iv) and v.const and int(v.lo) == h // 12):
                        bad = (h, repr(v))
                        break
                if bad is None:
                    rr.ok({"check": unparse(n)[:80], "hours": 24})
                else:
                    rr.fail(f.qual, f"the 24-hour / designator consistency test uses `{unparse(other[0])[:60]}`, which is {bad[1]} for hour {bad[0]} while the formatter writes {'PM' if bad[0] >= 12 else 'AM'} (= {bad[0] // 12}): text produced by format is rejected", ctx.loc(f, n))
    # (b) recomposition from 12-hour value and designator
    for n in own_nodes(f.node):
        if isinstance(n, ast.Assign) and len(n.targets) == 1 and unparse(n.targets[0]) == "hour" and "_am_pm" in unparse(n.value) and "_hours_12" in unparse(n.value):
            rr.inst()
            bad = None
            for h in range(24):
                h12 = 12 if h % 12 == 0 else h % 12
                v = ev(n.value, {"_hours_12": h12, "_am_pm": h // 12}, f)
                rr.states += 1
                if not (isinstance(v, Iv) and v.const and int(v.lo) == h):
                    bad = (h, h12, repr(v))
                    break
            if bad is None:
                rr.ok({"compose": unparse(n.value)[:80], "hours": 24})
            else:
                rr.fail(f.qual, f"hour {bad[0]} is written as {bad[1]} {'PM' if bad[0] >= 12 else 'AM'} but `{unparse(n.value)[:60]}` rebuilds {bad[2]}", ctx.loc(f, n))
    # (c) the formatter's split
    for g in sorted(set(M.func_of_node.values()), key=lambda x: x.qual):
        if isinstance(g.node, ast.Lambda) or not g.mod.rel.endswith("_time_pattern_helper.py"):
            continue
        for n in own_nodes(g.node):
            # the choice may be a conditional expression or an if/else statement whose arms append the designators
            body_txt = unparse(n.body) if isinstance(n, ast.IfExp) else " ".join(unparse(x) for x in n.body) if isinstance(n, ast.If) else ""
            else_txt = unparse(n.orelse) if isinstance(n, ast.IfExp) else " ".join(unparse(x) for x in n.orelse) if isinstance(n, ast.If) else ""
            if isinstance(n, (ast.IfExp, ast.If)) and "pm_designator" in body_txt and "am_designator" in else_txt and "pm_designator" not in else_txt and isinstance(n.test, ast.Compare):
                call = next((c for c in ast.walk(n.test) if isinstance(c, ast.Call) and isinstance(c.func, ast.Name) and "getter" in c.func.id), None)
                if call is None:
                    continue  # a choice between the designators that does not look at the value (pattern-creation time)
                rr.inst()
                bad = None
                if True:
                    import copy

                    for h in range(24):
                        t = copy.deepcopy(n.test)
                        for x in ast.walk(t):
                            for fld, val in ast.iter_fields(x):
                                if isinstance(val, ast.Call) and unparse(val) == unparse(call):
                                    setattr(x, fld, ast.Constant(h))
                                elif isinstance(val, list):
                                    for i, e in enumerate(val):
                                        if isinstance(e, ast.Call) and unparse(e) == unparse(call):
                                            val[i] = ast.Constant(h)
                        ast.fix_missing_locations(t)
                        I = interp(ctx)
                        v = I.ev(t, State({}), g, 0)
                        rr.states += 1
                        if not (isinstance(v, Iv) and v.const and bool(v.lo) == (h >= 12)):
                            bad = (h, repr(v))
                            break
                if bad is None:
                    rr.ok({"format": unparse(n.test)[:60], "hours": 24})
                else:
                    rr.fail(g.qual, f"the formatter chooses the PM designator on `{unparse(n.test)[:60]}`, which is {bad[1]} for hour {bad[0]}", ctx.loc(g, n))
    return rr


@rule("C07")
def r07_11_parse_digit_capacity(ctx: Ctx) -> RuleResult:
    """Every numeric field is parsed by `_add_parse_value_action(min_digits, max_digits, char, min_value, max_value, ...)`, which
    stops reading after max_digits digits.  The formatter writes the value in full, so max_digits must be able to hold max_value
    (10**max_digits > max_value) - otherwise the largest values format to text that cannot be parsed back.  Arguments are folded
    to integers; an argument that is a parameter of the enclosing handler factory is followed to the factory's call sites (the
    handler tables), and each binding is checked."""
    from ..kit import bind_args

    rr = RuleResult("R07.11", "numeric parse actions can read as many digits as their maximum value has (10**max_digits > max_value) for every binding of the handler factories", min_instances=8)
    M = ctx.M
    target = M.func("_SteppedPatternBuilder._add_parse_value_action", required=True)

    def factory_calls(g) -> list[tuple[ast.Call, object, object]]:
        """call sites of a handler factory: (call, class-or-None, module) - in functions and in class bodies (the handler tables)"""
        out = []
        for h in set(M.func_of_node.values()):
            if isinstance(h.node, ast.Lambda):
                continue
            for c in ast.walk(h.node):
                if isinstance(c, ast.Call) and unparse(c.func).split(".")[-1].split("[")[0] == g.name:
                    out.append((c, h.cls, h.mod))
        for cl in M.all_classes():
            for st in cl.node.body:
                if isinstance(st, (ast.FunctionDef, ast.AsyncFunctionDef, ast.ClassDef)):
                    continue
                for c in ast.walk(st):
                    if isinstance(c, ast.Call) and unparse(c.func).split(".")[-1].split("[")[0] == g.name:
                        out.append((c, cl, cl.mod))
        return out

    def pairs(de: ast.expr, ve: ast.expr, fn) -> list[tuple[int, int]] | None:
        """(max_digits, max_value) for every way the enclosing factories are called"""
        d, v = M.fold(de, fn.cls, fn.mod), M.fold(ve, fn.cls, fn.mod)
        if isinstance(d, int) and isinstance(v, int):
            return [(d, v)]
        if isinstance(de, ast.Name) and isinstance(v, int):
            # a local holding the repeat count of the pattern character: every count the cursor accepts (1 .. K) is a binding
            g = fn
            while g is not None:
                for n in own_nodes(g.node):
                    if isinstance(n, (ast.Assign, ast.AnnAssign)) and getattr(n, "value", None) is not None and isinstance(n.value, ast.Call) and isinstance(n.value.func, ast.Attribute) \
                            and n.value.func.attr == "get_repeat_count" and n.value.args and any(isinstance(t, ast.Name) and t.id == de.id for t in ([n.target] if isinstance(n, ast.AnnAssign) else n.targets)):
                        k = M.fold(n.value.args[0], g.cls, g.mod)
                        if isinstance(k, int) and k >= 1:
                            return [(i, v) for i in range(1, k + 1)]
                g = g.parent
        g = fn
        while g is not None:
            ps = [p.arg for p in g.params]
            need = [e.id for e in (de, ve) if isinstance(e, ast.Name) and e.id in ps]
            if need:
                out = []
                for c, cl, mod in factory_calls(g):
                    b = bind_args(c, g)
                    vals = []
                    for e in (de, ve):
                        if isinstance(e, ast.Name) and e.id in ps:
                            a = b.get(e.id)
                            w = M.fold(a, cl, mod) if a is not None else None
                        else:
                            w = M.fold(e, fn.cls, fn.mod)
                        vals.append(w)
                    if not all(isinstance(w, int) for w in vals):
                        return None
                    out.append((vals[0], vals[1]))
                return out or None
            g = g.parent
        return None

    for f in sorted(set(M.func_of_node.values()), key=lambda x: x.qual):
        if isinstance(f.node, ast.Lambda) or "/text/" not in f.mod.rel:
            continue
        for c in own_nodes(f.node):
            if not (isinstance(c, ast.Call) and isinstance(c.func, ast.Attribute) and c.func.attr == "_add_parse_value_action"):
                continue
            b = bind_args(c, target)
            if "maximum_digits" not in b or "maximum_value" not in b:
                continue
            rr.inst()
            pr = pairs(b["maximum_digits"], b["maximum_value"], f)
            if pr is None:
                rr.undecided.append(f"{f.qual}: `{unparse(b['maximum_digits'])}` / `{unparse(b['maximum_value'])[:40]}` not folded to integers (culture or calendar dependent)")
                rr.ok()
                continue
            worst = [(d, v) for d, v in pr if not 10 ** d > v]
            if not worst:
                rr.ok({"site": f.qual, "bindings": len(pr), "tightest": min(pr, key=lambda x: 10 ** x[0] - x[1])})
            else:
                d, v = worst[0]
                rr.fail(f.qual, f"reads at most {d} digits for a field whose maximum value is {v} ({len(str(v))} digits): the largest values are written in full but cannot be parsed back", ctx.loc(f, c))
    return rr


@rule("C07")
def r07_12_two_digit_year(ctx: Ctx) -> RuleResult:
    """`yy`: the formatter writes year-of-era % 100; the parser puts a two-digit value into the template's century when it is
    <= two_digit_year_max and into the previous century when it is greater (the documented meaning of two_digit_year_max: "the
    maximum two-digit year to treat as the current century").  The century-adjusting test is evaluated by the abstract
    interpreter at the boundary values (max-1, max, max+1 for max in 0, 30, 50, 98, 99) and must be true exactly for yy > max."""
    from ..absint import Iv, Obj, State
    from ..oblig import interp

    rr = RuleResult("R07.12", "two-digit years: the century is stepped back exactly for values above two_digit_year_max (boundary values evaluated)", min_instances=1)
    M = ctx.M
    found = False
    for f in sorted(set(M.func_of_node.values()), key=lambda x: x.qual):
        if isinstance(f.node, ast.Lambda) or "/text/" not in f.mod.rel or f.cls is None:
            continue
        for n in own_nodes(f.node):
            if not (isinstance(n, ast.If) and "_two_digit_year_max" in unparse(n.test) and any(isinstance(x, ast.AugAssign) and isinstance(x.op, ast.Sub) for b in n.body for x in ast.walk(b))):
                continue
            found = True
            rr.inst()
            locals_ = {x.id for x in ast.walk(n.test) if isinstance(x, ast.Name) and x.id != f.self_name}
            bad = None
            for mx in (0, 30, 50, 98, 99):
                for yy in (mx - 1, mx, mx + 1):
                    if not 0 <= yy <= 99:
                        continue
                    I = interp(ctx)
                    env = {f.self_name or "self": Obj(f.cls.name, {"_year_of_era": Iv(yy, yy), "_two_digit_year_max": Iv(mx, mx)})}
                    for nm in locals_:
                        env[nm] = Iv(20, 20)  # the template's century (2000..2099)
                    v = I.ev(n.test, State(env), f, 0)
                    rr.states += 1
                    if not (isinstance(v, Iv) and v.const):
                        bad = bad or (yy, mx, "not decided: " + repr(v))
                    elif bool(v.lo) != (yy > mx):
                        bad = bad or (yy, mx, f"steps the century back: {bool(v.lo)}")
            if bad is None:
                rr.ok({"fn": f.qual, "test": unparse(n.test)[:80]})
            else:
                rr.fail(f.qual, f"two-digit year {bad[0]:02d} with two_digit_year_max={bad[1]}: {bad[2]}, but {bad[0]:02d} {'>' if bad[0] > bad[1] else '<='} {bad[1]} means the {'previous' if bad[0] > bad[1] else 'template'} century - the value the formatter wrote parses back a century off", ctx.loc(f, n))
    if not found:
        raise AnalysisError("century adjustment for two-digit years not found in the text layer")
    return rr


@rule("C07")
def r07_13_calendar_text_symmetry(ctx: Ctx) -> RuleResult:
    """The calendar specifier: parsing matches the text against `CalendarSystem.ids` and resolves it with `for_id`, so formatting
    must write the calendar's *id* (ids are unique; names are shared by all Hebrew, all Hijri and all Persian variants)."""
    rr = RuleResult("R07.13", "calendar specifier: the format action writes the id that the parse action looks calendars up by", min_instances=1)
    M = ctx.M
    found = False
    for f in sorted(set(M.func_of_node.values()), key=lambda x: x.qual):
        if isinstance(f.node, ast.Lambda) or "/text/" not in f.mod.rel or not f.nested:
            continue
        lookups = {x.func.attr for g in f.nested.values() for x in ast.walk(g.node) if isinstance(x, ast.Call) and isinstance(x.func, ast.Attribute) and unparse(x.func.value) == "CalendarSystem" and x.func.attr in ("for_id", "for_name")}
        if not lookups:
            continue
        found = True
        rr.inst()
        key = "id" if "for_id" in lookups else "name"
        written = []
        for g in f.nested.values():
            for x in ast.walk(g.node):
                if isinstance(x, ast.Call) and isinstance(x.func, ast.Attribute) and x.func.attr == "append" and x.args and isinstance(x.args[0], ast.Attribute):
                    written.append((g, x, x.args[0].attr))
        if not written:
            rr.fail(f.qual, "parse action resolves calendars but no format action writes one", ctx.loc(f))
        elif all(a == key for _, _, a in written):
            rr.ok({"handler": f.qual, "parse looks up by": key, "format writes": key})
        else:
            g, x, a = next(w for w in written if w[2] != key)
            rr.fail(f.qual, f"the format action writes the calendar's `{a}` but the parse action looks calendars up by `{key}`: calendars whose {a} differs from their {key} (Hebrew, Hijri, Persian variants) do not parse back", ctx.loc(g, x))
    if not found:
        raise AnalysisError("calendar specifier handler (CalendarSystem.for_id in a nested parse action) not found")
    return rr


# ------------------------------------------------------------------------------------------- R07.14 date / time field masks


@rule("C07")
def r07_14_field_masks(ctx: Ctx) -> RuleResult:
    """A LocalDateTime bucket splits the fields a pattern used into the date part and the time part with the masks ALL_DATE_FIELDS
    and ALL_TIME_FIELDS and hands each part to the date / time bucket.  A field missing from its mask is silently dropped there:
    without YEAR_TWO_DIGITS the date bucket no longer knows that `yy` was a two-digit year and takes 31 for the year 31.  The
    flags are evaluated from the class body: single fields are distinct bits, the two masks are disjoint, and every single field
    whose name denotes a date (year / month / day / era / calendar / embedded date) or time (hours / minutes / seconds / am-pm /
    embedded time) component is in the corresponding mask."""
    from ..kit import eval_int_expr

    rr = RuleResult("R07.14", "_PatternFields: ALL_DATE_FIELDS / ALL_TIME_FIELDS are disjoint and contain every date / time component field", min_instances=3)
    M = ctx.M
    c = M.cls("_PatternFields")
    env: dict[str, int] = {}
    for s in c.node.body:
        if isinstance(s, ast.Assign) and len(s.targets) == 1 and isinstance(s.targets[0], ast.Name):
            v = eval_int_expr(s.value, env, lambda e: None)
            if v is not None:
                env[s.targets[0].id] = v
    singles = {n: v for n, v in env.items() if v and v & (v - 1) == 0}
    loc = f"{c.mod.rel}:{c.node.lineno}"
    rr.inst()
    if len(set(singles.values())) == len(singles) and len(singles) >= 20:
        rr.ok({"single fields": len(singles)})
    else:
        rr.fail(c.qual, "single pattern fields are not distinct bits", loc)
    import re

    date_names = [n for n in singles if re.match(r"(YEAR|MONTH|DAY|ERA$|CALENDAR$|EMBEDDED_DATE$)", n)]
    time_names = [n for n in singles if re.match(r"(HOURS|MINUTES$|SECONDS$|FRACTIONAL_SECONDS$|AM_PM$|EMBEDDED_TIME$)", n)]
    for mask, names in (("ALL_DATE_FIELDS", date_names), ("ALL_TIME_FIELDS", time_names)):
        rr.inst()
        got = env.get(mask)
        want = 0
        for n in names:
            want |= singles[n]
        if got == want:
            rr.ok({mask: sorted(names)})
        else:
            missing = [n for n in names if not (got or 0) & singles[n]]
            extra = [n for n, v in singles.items() if (got or 0) & v and n not in names]
            rr.fail(c.qual, f"{mask}: missing {missing}, unexpected {extra}: a field outside its mask is dropped when the date-time bucket hands the fields to the date / time bucket", loc)
    return rr


# ------------------------------------------------------------------------------------------- R07.15 with_* keeps the other settings


@rule("C07")
def r07_15_with_methods_keep_other_settings(ctx: Ctx) -> RuleResult:
    """`pattern.with_culture(c)`, `with_template_value(v)`, `with_calendar(k)` ... return a copy of the pattern with ONE setting
    replaced.  The public factories (`create`, `create_with_*`) take only some of the settings and give the others their
    defaults (two_digit_year_max = 30, the default template): a `with_*` method built on a public factory silently resets what
    it does not pass, and what was formatted with the old setting no longer parses with the "same" pattern.  Every `with_*`
    method of a pattern class must therefore construct through the private factory / constructor (or another `with_*`)."""
    rr = RuleResult("R07.15", "with_* methods of the pattern classes construct through the private factory (all settings passed on), never through the public create* factories", min_instances=10)
    M = ctx.M
    for lst in M.classes.values():
        for c in lst:
            if not c.mod.rel.startswith("pyoda_time/text/") or c.name.startswith("_") or not c.name.endswith("Pattern"):
                continue
            for f in c.methods.values():
                if isinstance(f.node, ast.Lambda) or not (f.name.startswith("with_") or "__with_" in f.name):
                    continue
                rr.inst()
                bad = next((n for n in own_nodes(f.node) if isinstance(n, ast.Call) and isinstance(n.func, ast.Attribute) and (n.func.attr == "create" or n.func.attr.startswith("create_with_"))), None)
                if bad is None:
                    rr.ok({"method": f.qual})
                else:
                    rr.fail(f.qual, f"`{unparse(bad)[:70]}` rebuilds the pattern with a public factory: settings the factory does not take (two-digit-year maximum, template value ...) fall back to their defaults", ctx.loc(f, bad))
    return rr


@rule("C07")
def r07_16_annual_date_day_check_matches_the_type(ctx: Ctx) -> RuleResult:
    """AnnualDate validates its day against the month lengths of the leap year 2000 (29 February is an annual date).  The annual-date
    parse bucket repeats that check before constructing the value; it must ask the same question - the ISO calendar's month
    length in year 2000 - or a value the type accepts and the pattern formats (02-29) is rejected when parsed back."""
    rr = RuleResult("R07.16", "the annual-date parse bucket bounds the day by the ISO month length of the leap year 2000, like the AnnualDate constructor", min_instances=1)
    M = ctx.M
    f = M.func("_AnnualDateParseBucket.calculate_value")
    rr.inst()
    tests = [n for n in own_nodes(f.node) if isinstance(n, ast.If) and "day" in unparse(n.test) and any(isinstance(x, ast.Return) for x in n.body)]
    ok = any("get_days_in_month(2000" in unparse(t.test).replace(" ", "").replace("year=", "") for t in tests)
    if ok:
        rr.ok({"bound": next(unparse(t.test)[:80] for t in tests if "get_days_in_month" in unparse(t.test))})
    else:
        rr.fail(f.qual, f"the day is bounded by `{unparse(tests[0].test)[:80] if tests else '?'}`, not by the ISO month length in the leap year 2000: 29 February formats and does not parse back", ctx.loc(f, tests[0]) if tests else ctx.loc(f))
    return rr


SIGNED_MAGNITUDE_PARSERS = ("_duration_pattern_parser.py", "_offset_pattern_parser.py")


@rule("C07")
def r07_17_sibling_getters_agree(ctx: Ctx) -> RuleResult:
    """The date and time handler factories (_DatePatternHelper / _TimePatternHelper `_create_*`) are shared by the pattern parsers
    of LocalDate, LocalDateTime, AnnualDate, LocalTime...; each parser hands in its own getter for the same field.  The parse side
    (the shared bucket checks) and the name tables are common, so the getters of one slot must read the SAME field the same way:
    a day-of-week getter that renumbers Sunday as 0 in one parser indexes the name table differently from its sibling.  For every
    (factory, parameter) slot filled by two or more parsers the getters' returned expressions are compared after renaming the
    receiver."""
    from ..kit import bind_args

    rr = RuleResult("R07.17", "getters handed to one slot of a shared date / time handler factory read the same field the same way in every parser (sibling agreement)", min_instances=4)
    M = ctx.M
    helpers = [c for c in M.all_classes() if c.name in ("_DatePatternHelper", "_TimePatternHelper")]
    if len(helpers) != 2:
        raise AnalysisError("_DatePatternHelper / _TimePatternHelper not found")
    factories = {f.name: f for c in helpers for f in c.all_defs if not isinstance(f.node, ast.Lambda) and f.name.startswith("_create")}
    slots: dict[tuple[str, str], list] = {}

    def getter_expr(e: ast.expr, cl, mod):
        """normalised returned expression of a getter given as a lambda or as the name of a one-return function"""
        if isinstance(e, ast.Lambda) and len(e.args.args) == 1:
            p, body = e.args.args[0].arg, e.body
        elif isinstance(e, (ast.Name, ast.Attribute)):
            nm = unparse(e).split(".")[-1]
            cands = [g for g in M.func_of_node.values() if not isinstance(g.node, ast.Lambda) and g.mod is mod and (g.name == nm or (g.cls is not None and mangle(g.cls.name, g.name) == mangle(g.cls.name, nm)))]
            if len(cands) != 1:
                return None
            g = cands[0]
            rets = [n for n in own_nodes(g.node) if isinstance(n, ast.Return) and n.value is not None]
            vp = [p for p in g.params if p.arg != g.self_name]
            if len(rets) != 1 or len(vp) != 1 or len([s for s in g.node.body if not (isinstance(s, ast.Expr) and isinstance(s.value, ast.Constant))]) != 1:
                return None
            p, body = vp[0].arg, rets[0].value
        else:
            return None
        import copy

        b2 = copy.deepcopy(body)
        for x in ast.walk(b2):
            if isinstance(x, ast.Name) and x.id == p:
                x.id = "_"
        return unparse(b2)

    for h in sorted(set(M.func_of_node.values()), key=lambda x: x.qual):
        if isinstance(h.node, ast.Lambda) or "/text/" not in h.mod.rel:
            continue
        for c in own_nodes(h.node):
            if isinstance(c, ast.Call):
                nm = unparse(c.func).split(".")[-1].split("[")[0]
                if nm in factories:
                    b = bind_args(c, factories[nm])
                    for pn, a in b.items():
                        if "getter" in pn:
                            slots.setdefault((nm, pn), []).append((h, c, a, getter_expr(a, h.cls, h.mod)))
    for cl in M.all_classes():
        if "/text/" not in cl.mod.rel:
            continue
        for st in cl.node.body:
            if isinstance(st, (ast.FunctionDef, ast.AsyncFunctionDef, ast.ClassDef)):
                continue
            for c in ast.walk(st):
                if isinstance(c, ast.Call):
                    nm = unparse(c.func).split(".")[-1].split("[")[0]
                    if nm in factories:
                        b = bind_args(c, factories[nm])
                        for pn, a in b.items():
                            if "getter" in pn:
                                slots.setdefault((nm, pn), []).append((cl, c, a, getter_expr(a, cl, cl.mod)))
    for (fn, pn), uses in sorted(slots.items()):
        # signed magnitudes (Duration, Offset) are written from the absolute value: their getters differ from the calendar / clock types by design
        uses = [u for u in uses if u[0].mod.rel.rsplit("/", 1)[-1] not in SIGNED_MAGNITUDE_PARSERS]
        if len(uses) < 2:
            continue
        rr.inst()
        exprs = {}
        for owner, c, a, ex in uses:
            if ex is not None:
                exprs.setdefault(ex, []).append((owner, c))
        if len(exprs) <= 1:
            rr.ok({"slot": f"{fn}({pn})", "parsers": len(uses), "reads": next(iter(exprs), "not resolved")})
            continue
        major = max(exprs.items(), key=lambda kv: len(kv[1]))[0]
        for ex, where in sorted(exprs.items()):
            if ex == major:
                continue
            owner, c = where[0]
            q = getattr(owner, "qual", getattr(owner, "name", "?"))
            loc = ctx.loc(owner, c) if hasattr(owner, "params") else f"{owner.mod.rel}:{c.lineno}"
            rr.fail(q, f"slot `{pn}` of {fn}: this parser's getter returns `{ex}`, its sibling(s) `{major}`; the shared handler indexes the same tables / writes the same digits for both", loc)
    return rr


@rule("C07")
def r07_18_optional_fraction_gives_back_the_separator(ctx: Ctx) -> RuleResult:
    """`.FFF` / `;FFF`: for a zero fraction the formatter REMOVES the separator it wrote (the truncating fraction formatter drops a
    trailing separator), so the text goes straight on with whatever follows in the pattern.  The parse action of the fraction
    therefore meets the next literal; if that literal is itself `.` or `,` it is matched as the fraction's separator and a digit
    is demanded - the pattern `ss;FFF, m` cannot parse the `00, 0` it produced.  A parse action that fails after the separator
    matched, without moving the cursor back when no digit follows, has this hole."""
    rr = RuleResult("R07.18", "optional fraction: when the matched separator is not followed by a digit the parse action gives the separator back (the formatter omits it for a zero fraction, so the next literal may be a separator)", min_instances=2)
    M = ctx.M
    c = M.cls("_TimePatternHelper", required=True)
    for f in sorted(set(M.func_of_node.values()), key=lambda x: x.qual):
        if isinstance(f.node, ast.Lambda) or f.mod is not c.mod or f.name != "parse_action":
            continue
        calls = [n for n in own_nodes(f.node) if isinstance(n, ast.Call) and isinstance(n.func, ast.Attribute)]
        matches = [n for n in calls if n.func.attr == "_match" and n.args and isinstance(n.args[0], ast.Constant) and n.args[0].value in (".", ",")]
        frac = [n for n in calls if n.func.attr == "_parse_fraction"]
        if not matches or not frac:
            continue
        rr.inst()
        rewinds = [n for n in calls if n.func.attr in ("move", "_move", "move_previous", "_move_previous")]
        outer = f.parent
        while outer is not None and outer.parent is not None and outer.cls is None:
            outer = outer.parent
        where = (outer.qual if outer is not None else f.qual)
        if rewinds:
            rr.ok({"handler": where, "rewinds": len(rewinds)})
        else:
            rr.fail(where, "the fraction's parse action keeps the matched separator when no digit follows: a zero fraction is written without its separator, so a pattern whose next literal is `.` or `,` (`ss;FFF, m` -> '00, 0') cannot parse the text it produced", ctx.loc(f))
    return rr


@rule("C07")
def r07_19_unparsed_fields_come_from_the_template(ctx: Ctx) -> RuleResult:
    """A pattern need not contain every field: what the text does not give comes from the template value.  The parse buckets keep
    one attribute per field, filled only when the pattern has that field.  In the hour calculation the AM/PM attribute may
    therefore be read only on a path whose condition names the AM_PM field flag - `hh:mm` with a 15:00 template must give the
    afternoon - and in the year calculation everything added to the parsed year OF ERA is itself a year of era (the century of
    the template's `year_of_era`, not of its absolute `year`, which is negative before the common era)."""
    from ..kit import inline_locals

    rr = RuleResult("R07.19", "parse buckets read a field attribute only under a test naming that field's flag, and year-of-era arithmetic stays in years of era", min_instances=2)
    M = ctx.M
    bucket = next((c for c in M.all_classes() if c.name == "_LocalTimeParseBucket"), None)
    f = next((g for g in bucket.all_defs if g.name.endswith("determine_hour")), None) if bucket else None
    if f is None:
        raise AnalysisError("_LocalTimeParseBucket.__determine_hour not found")
    rr.inst()
    bad = None
    parents = {}
    for n in ast.walk(f.node):
        for ch in ast.iter_child_nodes(n):
            parents[id(ch)] = n
    for n in own_nodes(f.node):
        if isinstance(n, ast.Attribute) and n.attr == "_am_pm" and isinstance(n.ctx, ast.Load):
            # the chain of enclosing If tests
            tests = []
            x = n
            while id(x) in parents:
                p = parents[id(x)]
                if isinstance(p, ast.If) and x in p.body:
                    tests.append(unparse(p.test))
                if isinstance(p, ast.IfExp) and x is p.body:
                    tests.append(unparse(p.test))
                if isinstance(p, ast.BoolOp) and isinstance(p.op, ast.And) and x in p.values:
                    tests += [unparse(v_) for v_ in p.values[: p.values.index(x)]]  # `has_any(AM_PM) and ... self._am_pm`
                x = p
            if not any("AM_PM" in t for t in tests):
                bad = bad or n
    if bad is None:
        rr.ok({"fn": f.qual})
    else:
        rr.fail(f.qual, f"`{unparse(parents[id(bad)])[:80]}` reads the parsed AM/PM designator on a path that is also taken when the pattern has no `t` field: the half of the day then is not taken from the template value (`hh:mm:ss` with a 15:00 template parses 04:30 as 04:30, the formatter wrote it for 16:30)", ctx.loc(f, bad))
    # year-of-era arithmetic
    n_sites = 0
    for g in sorted(set(M.func_of_node.values()), key=lambda x: x.qual):
        if isinstance(g.node, ast.Lambda) or "/text/" not in g.mod.rel:
            continue
        for n in own_nodes(g.node):
            tgt = n.target if isinstance(n, (ast.AugAssign, ast.AnnAssign)) else (n.targets[0] if isinstance(n, ast.Assign) and len(n.targets) == 1 else None)
            if tgt is None or not (isinstance(tgt, ast.Attribute) and tgt.attr.endswith("year_of_era")) or getattr(n, "value", None) is None:
                continue
            if not isinstance(n, ast.AugAssign):
                continue
            n_sites += 1
            rr.inst()
            v = inline_locals(g.node, n.value)
            # everything that flows into the added quantity: the values of the locals it names, transitively (a local that is
            # assigned and then adjusted in place, like the century, is not inlined)
            exprs, seen_names, work = [v], set(), [x.id for x in ast.walk(v) if isinstance(x, ast.Name)]
            while work:
                nm = work.pop()
                if nm in seen_names:
                    continue
                seen_names.add(nm)
                for m in own_nodes(g.node):
                    tg = [m.target] if isinstance(m, (ast.AugAssign, ast.AnnAssign)) else (m.targets if isinstance(m, ast.Assign) else [])
                    if any(isinstance(t, ast.Name) and t.id == nm for t in tg) and getattr(m, "value", None) is not None:
                        exprs.append(m.value)
                        work += [x.id for x in ast.walk(m.value) if isinstance(x, ast.Name)]
            absyear = [x for e_ in exprs for x in ast.walk(e_) if isinstance(x, ast.Attribute) and x.attr == "year"]
            if absyear:
                rr.fail(g.qual, f"`{unparse(n)[:70]}` adds a quantity computed from `{unparse(absyear[0])}` (an absolute year) to a year of era: for a template before the common era the century is negative and the two-digit year lands in the wrong era", ctx.loc(g, n))
            else:
                rr.ok({"fn": g.qual, "update": unparse(n)[:60]})
    if n_sites == 0:
        raise AnalysisError("no in-place update of a year-of-era attribute found in the text layer (the two-digit-year century is expected)")
    return rr


@rule("C07")
def r07_20_format_helpers_never_shorten_the_output(ctx: Ctx) -> RuleResult:
    """Format actions append to one shared StringBuilder, each writing its own field.  A helper that SHORTENS the builder removes
    text another action wrote: `_append_fraction_truncate` drops a preceding '.' when the fraction is zero - also when that '.'
    is a quoted literal (`ss'.'FFF`), an escaped character or the culture's time separator, which the parser then still expects.
    No number-formatting helper assigns to / decrements the builder's length or deletes from it."""
    rr = RuleResult("R07.20", "number-formatting helpers only append: none shortens the output buffer (text written by another format action is never removed)", min_instances=5)
    M = ctx.M
    fh = M.cls("_FormatHelper", required=True)
    for f in sorted(fh.all_defs, key=lambda g: g.qual):
        if isinstance(f.node, ast.Lambda):
            continue
        bparams = {p.arg for p in f.params if p.annotation is not None and "StringBuilder" in unparse(p.annotation)}
        if not bparams:
            continue
        rr.inst()
        bad = None
        for n in own_nodes(f.node):
            tg = [n.target] if isinstance(n, (ast.AugAssign, ast.AnnAssign)) else (n.targets if isinstance(n, ast.Assign) else [])
            for t in tg:
                if isinstance(t, ast.Attribute) and t.attr == "length" and isinstance(t.value, ast.Name) and t.value.id in bparams:
                    bad = bad or n
            if isinstance(n, ast.Call) and isinstance(n.func, ast.Attribute) and n.func.attr in ("remove", "clear", "pop") and isinstance(n.func.value, ast.Name) and n.func.value.id in bparams:
                bad = bad or n
            if isinstance(n, ast.Delete):
                bad = bad or n
        if bad is None:
            rr.ok({"helper": f.qual})
        else:
            rr.fail(f.qual, f"`{unparse(bad)[:60]}` shortens the output buffer: for a zero fraction the character before it is removed whenever it is '.', whichever format action wrote it (`HH:mm:ss'.'FFF` writes '01:02:03' and then cannot parse it: the quoted '.' is expected)", ctx.loc(f, bad))
    return rr
