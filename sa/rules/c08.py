"""C08 - Parsing never raises; pattern creation fails only with InvalidPatternError.

Decided statically (clauses, not the whole behaviour):
  R08.1  parse time, text layer: no raising construct located in pyoda_time/text (explicit raise, subscript, int(str),
         str.format ...) is reachable from a parse entry - call-graph exception effects (E4) filtered by reachability of
         the raise under its calling contexts (range prover, RP) and by dominating guards.
  R08.2  creation time, text layer: the same for every create*/with_* entry, allowing InvalidPatternError only.
  R08.3  message formats: every message reaching str.format is a constant of _TextErrorMessages and its placeholders are
         covered by the arguments supplied at that site (printf-style check of ~150 sites).
  R08.4  value construction from parsed fields: bucket field ranges are obtained by abstractly executing every row of every
         handler table and every parse action it registers; with those ranges every range check and trusted-constructor
         precondition reached from the bucket's calculate_value is discharged or reported.
  R08.5  ParseResult discipline: value/exception slots are exclusive, value types are always truthy, `.value` is read only
         after a success test, abstract bucket/pattern methods are overridden by every concrete class.
Not decided: raises inside calendars / globalization reached through value construction whose guard is a calendar query
(listed in evidence), resource exhaustion (deeply nested embedded patterns).
"""
from __future__ import annotations

import ast
import string
from typing import Any

from ..absint import NN, ConstV, Interp, Iv, Obj, State, Top, join, num
from ..core import Ctx, RuleResult, rule
from ..exc import Esc, ExcAnalysis, ExcConfig, atoms, facts_at
from ..kit import own_nodes, sub_nodes
from ..model import UNKNOWN, AnalysisError, Func, mangle, unparse
from ..oblig import get_contracts
from ..patterns import field_ranges, parser_tables
from ..rp import RaiseReach
from ..textsum import apply_text_summaries

TEXT = "pyoda_time/text/"

ON_REQUEST = {
    "ParseResult.get_value_or_throw": "the documented 'error available on request' of a failed result",
    "ParseResult.exception": "the documented 'error available on request' of a failed result",
    "ParseResult.value": "the documented 'error available on request' of a failed result (reads inside parse are decided by R08.5)",
    "_Preconditions._check_not_null": "TypeError for a None argument: outside 'any text' / 'any pattern text'",
    "_SteppedPatternBuilder._build.<locals>.multicast_delegate": "runs the format actions once on the builder's fixed sample value to size the output buffer: whether they raise depends on the culture's name tables and the sample constant, not on the pattern text - formatting is C07's subject and is not decided here",
}

# raising library operations in the text layer whose safety is an arithmetic fact the guards do not show
# raises decided by another rule of this property, or unreachable for a reason the prover cannot see
REVIEWED_RAISES = {
    ("ParseResult._ctor", "raise RuntimeError('Exactly one of value and exception_provider can be specified')"): "decided per call site by R08.5: every _ctor call passes exactly one slot and every for_value call a non-None value",
    ("_SteppedPatternBuilder._add_embedded_local_partial", "raise RuntimeError(\"Bug in Pyoda Time: embedded pattern type wasn't date, time, or date+time\")"): "the type letter is '<', 'd' or 't' whenever get_embedded_pattern() returned: for any other letter the cursor is not on '<' and get_embedded_pattern raises InvalidPatternError first",
}

REVIEWED_OPS = {
    ("_ValueCursor._parse_fraction", "math.pow(10.0, scale - count)"): "exponent is scale - count with minimum_digits <= count <= maximum_digits <= scale <= 9 at every call site (R07.3 / R08.4 check scale); 10.0**k for 0 <= k <= 9 is exact",
    ("_ValueCursor._parse_fraction", "int(result * math.pow(10.0, scale - count))"): "finite float below 10**9: int() raises only for inf / nan",
    ("_OffsetPatternParser.__parse_partial_pattern", "pattern_text[0]"): "pattern_text is either the caller's text (rejected when empty at the top) or one of the culture's offset pattern resources, which are non-empty constants",
    ("_TimePatternHelper.__handle_half_am_pm_designator", "specified_designator[0]"): "called only when exactly one of the AM/PM designators is empty, with the non-empty one",
}


def _review_still_holds(f: Func | None, fq: str, what: str) -> bool:
    """A reviewed exemption is only as good as the structural fact it rests on; where that fact is local it is re-checked."""
    if f is None:
        return False
    if fq == "_SteppedPatternBuilder._add_embedded_local_partial":
        # `case _: raise RuntimeError` is dead only if get_embedded_pattern() has run (and raised for an unknown type letter)
        # before the match statement is entered: an unconditional earlier sibling statement of the match must contain the call
        for m in own_nodes(f.node):
            if isinstance(m, ast.Match) and any(isinstance(x, ast.Raise) and "RuntimeError" in unparse(x) for c in m.cases for b in c.body for x in ast.walk(b)):
                par = getattr(m, "_parent", None)
                blk = getattr(par, "body", [])
                if m in blk:
                    before = blk[: blk.index(m)]
                    return any(isinstance(st, (ast.Assign, ast.AnnAssign, ast.Expr)) and any(isinstance(c, ast.Call) and isinstance(c.func, ast.Attribute) and c.func.attr == "get_embedded_pattern" for c in ast.walk(st)) for st in before)
        return False
    return True


def _cfg(allowed_excluded: dict[str, str] | None = None) -> ExcConfig:
    return ExcConfig(excluded_funcs=dict(ON_REQUEST, **(allowed_excluded or {})))


def _is_narrowing_assert(test: ast.expr) -> bool:
    if isinstance(test, ast.Call) and unparse(test.func) == "isinstance":
        return True
    return isinstance(test, ast.Compare) and len(test.ops) == 1 and isinstance(test.ops[0], ast.IsNot) and isinstance(test.comparators[0], ast.Constant) and test.comparators[0].value is None


def _entries(ctx: Ctx, mode: str) -> list[Func]:
    out = []
    for f in ctx.M.funcs.values():
        if not f.mod.rel.startswith(TEXT) or f.cls is None or isinstance(f.node, ast.Lambda):
            continue
        if mode == "parse" and f.name in ("parse", "parse_partial"):
            out.append(f)
        if mode == "create" and not f.cls.name.startswith("_") and (f.name.startswith("create") or f.name.startswith("with_")):
            out.append(f)
    return sorted(out, key=lambda g: g.qual)


def _analysis(ctx: Ctx) -> ExcAnalysis:
    if "c08.exc" not in ctx.cache:
        ctx.cache["c08.exc"] = ExcAnalysis(ctx, _cfg())
    return ctx.cache["c08.exc"]


def _reach(ctx: Ctx) -> RaiseReach:
    if "c08.rp" not in ctx.cache:
        ctx.cache["c08.rp"] = RaiseReach(ctx, _analysis(ctx).callsites())
    return ctx.cache["c08.rp"]


def _layer_rule(ctx: Ctx, rr: RuleResult, mode: str, allowed: set[str]) -> None:
    M = ctx.M
    A = _analysis(ctx)
    RR = _reach(ctx)
    entries = _entries(ctx, mode)
    if len(entries) < (10 if mode == "parse" else 25):
        raise AnalysisError(f"only {len(entries)} {mode} entry points found")
    region: dict[int, Func] = {}
    ops: dict[tuple[str, str, str], Esc] = {}
    raises: dict[tuple[str, str], Esc] = {}
    for f in entries:
        for e in A.escapes(f):
            of = M.funcs.get(e.fn)
            if of is None or not of.mod.rel.startswith(TEXT):
                continue
            if e.kind == "op":
                ops.setdefault((e.exc, e.fn, e.what), e)
            elif e.kind == "raise":
                raises.setdefault((e.fn, e.what), e)
        for g in A.reachable(f):
            if g.mod.rel.startswith(TEXT):
                region[id(g)] = g
    rr.states += len(region)
    fmt_ok = _verified_format_receivers(ctx)
    # (a) raising library operations located in the text layer
    for (exc, fq, what), e in sorted(ops.items()):
        rr.inst()
        if (fq, what) in REVIEWED_OPS:
            rr.ok({"op": f"{fq}: {what}", "reviewed": REVIEWED_OPS[(fq, what)]})
            continue
        if ".format(...)" in what and fq in fmt_ok:
            rr.ok({"op": f"{fq}: {what[:50]}", "discharged": "every format string reaching it is a constant message (R08.3)"})
            continue
        if fq == "ParseResult._for_invalid_value" and what == "args[0]" and fq in fmt_ok:
            rr.ok({"op": f"{fq}: {what}", "discharged": "every cursor-form call supplies the message argument (R08.3)"})
            continue
        rr.fail(fq, f"{exc} may escape {mode}: {what}", e.loc, path=" > ".join((*e.chain, e.fn)))
    for k, why in sorted(A.discharged.items()):
        of = M.funcs.get(k[1])
        if of is not None and of.mod.rel.startswith(TEXT) and id(of) in region:
            rr.inst()
            rr.ok({"op": f"{k[1]}: {k[2][:60]}", "guard": why})
    # (b) explicit raises located in the text layer: connected by calls (E4) and reachable under calling contexts (RP)
    for (fq, what), e in sorted(raises.items()):
        rr.inst()
        of = M.funcs[fq]
        if e.exc in allowed or any(A.H.is_sub(e.exc, a) for a in allowed):
            rr.ok()
            continue
        if e.exc == "AssertionError":
            node = next((n for n in own_nodes(of.node) if isinstance(n, ast.Assert) and "assert " + unparse(n.test)[:100] == what), None) if not isinstance(of.node, ast.Lambda) else None
            if node is not None and _is_narrowing_assert(node.test):
                rr.ok({"assert": what[:70], "kind": "type-narrowing assertion (isinstance / is not None), not a value test"})
                continue
            rr.fail(fq, f"assertion on a value can fail during {mode}: {what}", e.loc)
            continue
        if e.exc == "NotImplementedError" and _abstract(of):
            rr.ok({"abstract": fq, "note": "overridden by every concrete subclass (R08.5)"})
            continue
        if (fq, what) in REVIEWED_RAISES and _review_still_holds(of, fq, what):
            rr.ok({"raise": f"{fq}: {what[:60]}", "reviewed": REVIEWED_RAISES[(fq, what)]})
            continue
        origin = (fq, what[6:][:80] if what.startswith("raise ") else what[:80])
        st, chain = RR.rooted(of, origin)
        rr.states += 1
        if st == "infeasible":
            rr.ok({"raise": f"{fq}: {what[:60]}", "rp": "not reachable under any calling context from a root"})
        elif st == "feasible":
            rr.fail(fq, f"{e.exc} may escape {mode}: {what}", e.loc, path=" > ".join(chain), e4_path=" > ".join((*e.chain, e.fn)), verdict="reachable under the abstract calling contexts")
        else:
            rr.undecided.append(f"{fq}: {what[:60]} (range prover could not inline the whole context: {' > '.join(chain)[:100]})")
    for (fq, text), loc in sorted(A.unresolved.items()):
        of = M.funcs.get(fq)
        if of is not None and of.mod.rel.startswith(TEXT) and id(of) in region:
            rr.inst()
            rr.fail(fq, f"call not resolved by the analysis: {text}", loc, note="exception effects unknown")
    rr.notes.append(f"{mode} entry points: {len(entries)}; text-layer functions reachable: {len(region)}; range-prover runs: {RR.runs}")


def _abstract(f: Func) -> bool:
    if isinstance(f.node, ast.Lambda):
        return False
    b = f.body
    return len(b) == 1 and (isinstance(b[0], ast.Raise) and b[0].exc is not None and "NotImplementedError" in unparse(b[0].exc) or isinstance(b[0], ast.Expr) and isinstance(b[0].value, ast.Constant) and b[0].value.value is Ellipsis or isinstance(b[0], ast.Pass))


@rule("C08")
def r08_1_parse_layer(ctx: Ctx) -> RuleResult:
    rr = RuleResult("R08.1", "parse time: no raising construct of the text layer is reachable from any parse / parse_partial entry (exception effects over the call graph, raise reachability under calling contexts, dominating guards)", min_instances=20)
    _layer_rule(ctx, rr, "parse", set())
    return rr


@rule("C08")
def r08_2_create_layer(ctx: Ctx) -> RuleResult:
    rr = RuleResult("R08.2", "creation time: from every create* / with_* entry only InvalidPatternError can come out of the text layer", min_instances=40)
    _layer_rule(ctx, rr, "create", {"InvalidPatternError"})
    return rr


# ------------------------------------------------------------------------------------------- R08.3 message formats

SINKS = {
    # callee qualname: (format parameter, name of the vararg carrying the format arguments, sink kind)
    "InvalidPatternError.__init__": ("message", "args", "plain"),
    "ParseResult._for_invalid_value_post_parse": ("format_string", "args", "plain"),
    "ParseResult._for_invalid_value": (None, "args", "first-vararg"),
    "_Preconditions._check_argument": ("message", "message_args", "plain"),
}


def _manual_heads(fmt: str) -> list[str]:
    try:
        return [fname.split(".")[0].split("[")[0] for _, fname, _, _ in string.Formatter().parse(fmt) if fname]
    except ValueError:
        return []


def _placeholders(fmt: str) -> tuple[int, set[str]] | None:
    """(number of positional arguments needed, keyword names needed); None when malformed."""
    need = 0
    kws: set[str] = set()
    auto = 0
    try:
        for _, fname, _, _ in string.Formatter().parse(fmt):
            if fname is None:
                continue
            head = fname.split(".")[0].split("[")[0]
            if head == "":
                auto += 1
                need = max(need, auto)
            elif head.isdigit():
                need = max(need, int(head) + 1)
            else:
                kws.add(head)
    except ValueError:
        return None
    if auto and any(h.isdigit() for h in _manual_heads(fmt)):
        return None  # `{} ... {2}`: str.format refuses to switch from automatic to manual numbering (ValueError when formatted)
    return need, kws


def _sink_sites(ctx: Ctx) -> list[tuple[str, Func, ast.Call, ast.expr | None, list[ast.expr], bool]]:
    """(sink, caller, call, format expression, argument expressions, has starred) for every resolved call of a sink."""
    A = _analysis(ctx)
    M = ctx.M
    out = []
    cs = A.callsites()
    for q, (fparam, vname, kind) in SINKS.items():
        f = M.func(q, required=False)
        if f is None:
            raise AnalysisError(f"message sink {q} vanished")
        va = f.node.args.vararg
        if va is None or va.arg != vname or (fparam is not None and fparam not in {a.arg for a in f.params}):
            raise AnalysisError(f"message sink {q} no longer has the shape ({fparam}, *{vname})")
        npos = len([p for p in f.value_params if p.arg not in {k.arg for k in f.node.args.kwonlyargs}])
        for caller, call in cs.get(id(f), []):
            pos = [a for a in call.args]
            starred = any(isinstance(a, ast.Starred) for a in pos)
            fixed, extra = pos[:npos], pos[npos:]
            if kind == "plain":
                names = [p.arg for p in f.value_params][:npos]
                fexpr = None
                if fparam in names and names.index(fparam) < len(fixed):
                    fexpr = fixed[names.index(fparam)]
                for k in call.keywords:
                    if k.arg == fparam:
                        fexpr = k.value
                out.append((q, caller, call, fexpr, [a for a in extra if not isinstance(a, ast.Starred)], starred))
            else:
                # _for_invalid_value(cursor_or_provider, FMT, *params): provider form has no message
                if not extra:
                    out.append((q, caller, call, None, [], starred))
                else:
                    out.append((q, caller, call, extra[0], [a for a in extra[1:] if not isinstance(a, ast.Starred)], starred))
    return out


def _verified_format_receivers(ctx: Ctx) -> set[str]:
    """Sinks all of whose call sites pass a constant message (used by R08.1/2 to discharge the .format origins)."""
    if "c08.fmt_ok" not in ctx.cache:
        bad: set[str] = set()
        for q, caller, call, fexpr, params, starred in _sink_sites(ctx):
            if fexpr is None:
                if q == "ParseResult._for_invalid_value" and call.args and not _is_provider(ctx, call.args[0], caller):
                    bad.add(q)
                continue
            v = _fold(ctx, fexpr, caller)
            if not isinstance(v, str):
                bad.add(q)
        ctx.cache["c08.fmt_ok"] = set(SINKS) - bad
    return ctx.cache["c08.fmt_ok"]


def _fold(ctx: Ctx, e: ast.expr, f: Func) -> Any:
    try:
        return ctx.M.fold(e, f.cls, f.mod)
    except Exception:
        return UNKNOWN


def _is_provider(ctx: Ctx, e: ast.expr, f: Func) -> bool:
    """The first argument of _for_invalid_value is an exception provider (a function), not a cursor."""
    if isinstance(e, ast.Lambda):
        return True
    if isinstance(e, ast.Name):
        owner: Func | None = f
        while owner is not None:
            if e.id in owner.nested:
                return True
            owner = owner.parent
    t = ctx.R.type_of(e, ctx.R.scope(f))
    return isinstance(t, tuple) and t[0] in ("func", "bound", "callable")


@rule("C08")
def r08_3_message_formats(ctx: Ctx) -> RuleResult:
    rr = RuleResult("R08.3", "every message that reaches str.format in an error path is a constant of the message table and the arguments supplied at the site cover its placeholders (no IndexError/KeyError while building a failure or an InvalidPatternError)", min_instances=70)
    sites = _sink_sites(ctx)
    for q, caller, call, fexpr, params, starred in sites:
        if not caller.mod.rel.startswith(TEXT):
            continue  # other layers' argument checks are not part of this property
        rr.inst()
        where = caller.qual
        loc = ctx.loc(caller, call)
        if fexpr is None:
            if q == "ParseResult._for_invalid_value":
                if call.args and _is_provider(ctx, call.args[0], caller):
                    rr.ok()
                else:
                    rr.fail(where, f"{q.split('.')[-1]}({unparse(call.args[0])[:30] if call.args else ''}) is given a cursor but no message: args[0] raises IndexError while the failure is built", loc)
            else:
                rr.fail(where, f"call of {q} without a format string", loc)
            continue
        v = _fold(ctx, fexpr, caller)
        if not isinstance(v, str):
            rr.fail(where, f"format string {unparse(fexpr)[:50]} passed to {q} is not a constant message: text containing braces would make str.format raise", loc)
            continue
        ph = _placeholders(v)
        if ph is None:
            rr.fail(where, f"message {unparse(fexpr)[:50]} is not a well-formed format string", loc)
            continue
        need, kws = ph
        if kws:
            rr.fail(where, f"message {unparse(fexpr)[:50]} uses keyword placeholders {sorted(kws)} but only positional arguments are forwarded", loc)
        elif starred:
            rr.ok({"site": where, "message": unparse(fexpr)[:50], "note": "arguments forwarded with *"})
        elif need > len(params):
            # InvalidPatternError / _check_argument skip formatting when no argument is given: placeholders then stay verbatim
            if not params and q in ("InvalidPatternError.__init__", "_Preconditions._check_argument"):
                rr.ok({"site": where, "message": unparse(fexpr)[:50], "note": "no arguments: message used verbatim"})
            else:
                rr.fail(where, f"message {unparse(fexpr)[:50]} needs {need} argument(s), the call supplies {len(params)}: IndexError while the error is built", loc)
        else:
            rr.ok({"site": where, "message": unparse(fexpr)[:40], "args": len(params), "needed": need})
    # the two composing formats inside the factories themselves
    pr = ctx.M.cls("ParseResult")
    for f in pr.all_defs:
        for n in ([] if isinstance(f.node, ast.Lambda) else [x for g in [f, *[h for lst in f.nested_all.values() for h in lst]] for x in own_nodes(g.node)]):
            if isinstance(n, ast.Call) and isinstance(n.func, ast.Attribute) and n.func.attr == "format":
                rr.inst()
                recv = n.func.value
                v = _fold(ctx, recv, f)
                if isinstance(v, str):
                    ph = _placeholders(v)
                    if ph is None or ph[0] > len(n.args) or ph[1]:
                        rr.fail(f.qual, f"{unparse(recv)[:50]}.format needs {ph[0] if ph else '?'} arguments, {len(n.args)} supplied", ctx.loc(f, n))
                    else:
                        rr.ok()
                elif isinstance(recv, ast.Name) and (recv.id in {a.arg for a in f.params} or recv.id == "format_string"):
                    rr.ok({"site": f.qual, "receiver": recv.id, "note": "the forwarded message parameter (its call sites are checked above)"})
                else:
                    rr.fail(f.qual, f"{unparse(recv)[:50]}.format(...): the receiver is computed text, not a message constant - input text containing braces makes it raise", ctx.loc(f, n))
    return rr


# ------------------------------------------------------------------------------------------- R08.4 value construction


def _year_guarded(ctx: Ctx, f: Func | None) -> bool:
    """Every static call of f (which packs a date with the ISO ordinal hard-coded) is dominated by a test that the bucket's
    calendar is ISO and that the year lies between that calendar's min_year and max_year."""
    if f is None:
        return False
    A = _analysis(ctx)
    sites = A.callsites().get(id(f), [])
    if not sites:
        return False
    for caller, call in sites:
        fa = facts_at(call)
        cal = next((l for (l, op, r) in fa if op == "==" and r == "CalendarSystem.iso"), None)
        if cal is None:
            return False
        lo = any(l == f"{cal}.min_year" and op == "<=" and r.endswith("._year") for (l, op, r) in fa)
        hi = any(l.endswith("._year") and op == "<=" and r == f"{cal}.max_year" for (l, op, r) in fa)
        if not (lo and hi):
            return False
    return True


EXPECTED_UNDECIDED_CONSTRUCT = {
    "_LocalDatePatternParser._LocalDateParseBucket._calculate_value: packed month >= 1": "the month may come from the month-name index (>= 1 because the empty 0th name never matches) or the template value: relational, not an interval fact",
}


def _bucket_obj(ctx: Ctx, bucket_cls_name: str, parser: str, ranges: dict[tuple[str, str, str], Any], depth: int = 0) -> Obj:
    """Abstract bucket for a parser: constructor state joined with everything the parser's parse actions may store."""
    M = ctx.M
    c = M.cls(bucket_cls_name)
    fields: dict[str, Any] = {}
    ctor = c.methods.get("_ctor") or c.methods.get("__init__")
    if ctor is not None:
        I = Interp(M, ctx.R, get_contracts(ctx), budget=128, depth=5, max_nodes=4000)
        rets, falls = I.analyse(ctor)
        vals = [v for v, _ in rets if isinstance(v, Obj)]
        if ctor.name == "__init__":
            for s in falls:
                o = s.get(ctor.self_name or "self")
                if isinstance(o, Obj):
                    vals.append(I._materialize(ctor.self_name or "self", o, s))
        for v in vals:
            for k, x in v.fields.items():
                if k.startswith("$"):
                    continue
                fields[k] = x if k not in fields else join(fields[k], x)
    for (p, b, fld), v in ranges.items():
        if p == parser and b == c.name:
            fields[fld] = v if fld not in fields else join(fields[fld], v)
    # nested buckets (date + time inside the date-time bucket)
    for nm, ann in c.annots.items():
        t = M.ann_type(ann, c.mod)
        if isinstance(t, str) and depth < 2:
            k = M.cls(t, required=False)
            if k is not None and M.is_subclass(k, "_ParseBucket") and k is not c:
                fields[nm] = _bucket_obj(ctx, k.name, parser, ranges, depth + 1)
    fields["$exact"] = Iv(1, 1)
    return Obj(c.name, fields)


@rule("C08")
def r08_4_value_construction(ctx: Ctx) -> RuleResult:
    rr = RuleResult("R08.4", "values are built from parsed fields only inside the target type's range: bucket field ranges (from abstract execution of every handler row and parse action) discharge every range check and trusted-constructor precondition reached from calculate_value", min_instances=20)
    M = ctx.M
    ranges_cls, writes, problems, actions = field_ranges(ctx)
    for p in problems:
        rr.inst()
        rr.fail("pattern-build", f"abstract execution of the handler tables is incomplete: {p}", "")
    # per-parser ranges
    per: dict[tuple[str, str, str], Any] = {}
    by_parser_bucket: dict[str, set[str]] = {}
    tables = parser_tables(ctx)
    from ..patterns import BuildRun

    for pt in tables:
        br = ctx.cache.setdefault(("c08.br", pt.parser.name), None)
        if br is None:
            br = BuildRun(ctx, pt)
            br.run()
            ctx.cache[("c08.br", pt.parser.name)] = br
        for w in br.writes:
            k = (pt.parser.name, w.bucket, w.field)
            per[k] = w.value if k not in per else join(per[k], w.value)
        rr.states += br.steps
    C = get_contracts(ctx)
    pres = {q for (q, _p) in C.pre}
    decided_sites = 0
    from ..calendars import calculator_instances

    INF = float("inf")
    iso_ordinal = M.fold_class_const("_CalendarOrdinal", "ISO")
    greg = next((ci for ci in calculator_instances(ctx) if ci.cls == "_GregorianYearMonthDayCalculator"), None)
    if greg is None or not isinstance(iso_ordinal, int):
        raise AnalysisError("Gregorian calculator instance / ISO ordinal not found")
    for pt in tables:
        if pt.bucket is None:
            raise AnalysisError(f"bucket class of {pt.parser.name} not found")
        calc = M.find_method(pt.bucket, "calculate_value")
        if calc is None:
            raise AnalysisError(f"{pt.bucket.name}.calculate_value missing")
        so = _bucket_obj(ctx, pt.bucket.name, pt.parser.name, per)
        I = Interp(M, ctx.R, C, budget=512, depth=7, max_nodes=6000)
        I.hooks_all_depths = True
        apply_text_summaries(ctx, I)
        checks: list[tuple[str, str, tuple[float, float], Any, str, str]] = []

        def on_call(c: ast.Call, f: Func, bound: dict[str, Any], st: State, fn: Func, _I: Interp = I) -> None:
            chain = " > ".join(_I._inline_names[-4:])
            if f.qual == "_Preconditions._check_argument_range":
                v, lo, hi = bound.get("value"), bound.get("min_inclusive"), bound.get("max_inclusive")
                if isinstance(lo, Iv) and isinstance(hi, Iv) and lo.const and hi.const:
                    checks.append(("range", f"{fn.qual}: {unparse(c.args[0]) if c.args else '?'}", (lo.lo, hi.hi), v, chain, ctx.loc(fn, c)))
                else:
                    checks.append(("range?", f"{fn.qual}: {unparse(c.args[0]) if c.args else '?'}", (float("-inf"), float("inf")), v, chain, ctx.loc(fn, c)))
            elif f.qual in pres:
                for (q, p), b in C.pre.items():
                    if q == f.qual and p in bound:
                        checks.append(("pre", f"{f.qual}({p})", b, bound[p], chain, ctx.loc(fn, c)))
            elif f.qual == "_YearMonthDayCalendar._ctor" and fn.mod.rel.startswith(TEXT) and "year" in bound:
                # unvalidated packing of parsed fields: month/day start at 1 in every calendar; with the ISO ordinal hard-coded the
                # year must be inside the ISO calendar's range and month/day inside the Gregorian maxima
                co = bound.get("calendar_ordinal")
                iso = co is not None and isinstance(co, Iv) and co.const and co.lo == iso_ordinal
                checks.append(("ymd", f"{fn.qual}: packed month >= 1", (1, 12 if iso else INF), bound.get("month"), chain, ctx.loc(fn, c)))
                checks.append(("ymd", f"{fn.qual}: packed day >= 1", (1, 31 if iso else INF), bound.get("day"), chain, ctx.loc(fn, c)))
                if iso:
                    checks.append(("ymd", f"{fn.qual}: packed ISO year", (greg.min_year, greg.max_year), bound.get("year"), chain, ctx.loc(fn, c)))

        I.on_call = on_call
        I.analyse(calc, self_obj=so)
        rr.states += I.steps
        seen: dict[tuple[str, str], tuple[str, Any, tuple[float, float], str, str]] = {}
        for kind, target, b, v, chain, loc in checks:
            x = num(v) if isinstance(v, (Iv, ConstV)) else None
            if kind == "range?":
                status = "UNDECIDED"
            elif x is not None and x.within(b[0], b[1]):
                status = "PROVED"
            elif isinstance(v, Iv) and v.prec and v.bounded:
                status = "REFUTED"
            else:
                status = "UNDECIDED"
            key = (kind, target)
            rank = {"REFUTED": 0, "UNDECIDED": 1, "PROVED": 2}
            if key not in seen or rank[status] < rank[seen[key][0]]:
                seen[key] = (status, v, b, chain, loc)
        for (kind, target), (status, v, b, chain, loc) in sorted(seen.items()):
            rr.inst()
            decided_sites += 1
            site_fn = target.split(":")[0].split("(")[0]
            sf = M.funcs.get(site_fn) or M.funcs.get(site_fn.rsplit(".", 1)[0])
            calendar_dep = kind != "ymd" and (sf is None or not sf.mod.rel.startswith(TEXT)) and any(t in chain or t in target for t in ("CalendarSystem", "YearMonthDayCalculator", "_EraCalculator", "LocalDate.", "LocalDateTime.", "AnnualDate.", "_YearMonthDay"))
            if status == "PROVED":
                rr.ok({"parser": pt.parser.name, "check": target, "value": repr(v), "bounds": [b[0], b[1]]})
            elif kind == "ymd" and "ISO year" in target and _year_guarded(ctx, M.funcs.get(site_fn)):
                rr.ok({"parser": pt.parser.name, "check": target, "guard": "every call is dominated by calendar == ISO and calendar.min_year <= year <= calendar.max_year"})
            elif target in EXPECTED_UNDECIDED_CONSTRUCT:
                rr.undecided.append(f"{pt.parser.name}: {target} = {v} ({EXPECTED_UNDECIDED_CONSTRUCT[target]})")
            elif calendar_dep:
                rr.undecided.append(f"{pt.parser.name}: {target} = {v} (reached through a calendar object whose concrete class / state the prover does not know - not decided)")
            elif status == "REFUTED":
                rr.fail(f"{pt.bucket.name}.calculate_value", f"{target} can be {v}, outside [{int(b[0])}, {int(b[1])}]: the value constructor raises inside parse (or builds an invalid value)", loc, path=chain, parser=pt.parser.name)
            elif calendar_dep:
                rr.undecided.append(f"{pt.parser.name}: {target} = {v} (guarded by calendar queries - relational, not decided)")
            else:
                rr.fail(f"{pt.bucket.name}.calculate_value", f"{target} is not proved inside [{b[0]}, {b[1]}] (computed {v}) from the field ranges the parse actions establish", loc, path=chain, parser=pt.parser.name)
        for rq, rt in sorted(set(I.raise_log)):
            of = M.funcs.get(rq)
            if of is not None and not of.mod.rel.startswith(TEXT) and "_Preconditions" not in rq:
                rr.undecided.append(f"{pt.parser.name}: raise in {rq} ({rt[:40]}) reachable in the abstract run (calendar / value-type internals, not decided)")
    rr.notes.append("bucket field ranges established by the parse actions: " + "; ".join(f"{p.replace('PatternParser', '')}.{f}={v!r}" for (p, b, f), v in sorted(per.items()) if isinstance(v, Iv))[:1500])
    return rr


# ------------------------------------------------------------------------------------------- R08.5 ParseResult discipline


@rule("C08")
def r08_5_parse_result_discipline(ctx: Ctx) -> RuleResult:
    rr = RuleResult("R08.5", "ParseResult discipline: exactly one of value / exception provider; parsed value types are always truthy; `.value` is read inside parse only after a success test; abstract bucket and pattern methods are overridden everywhere", min_instances=25)
    M = ctx.M
    pr = M.cls("ParseResult")
    # (a) every construction passes exactly one slot, and a value that cannot be None
    from .c20 import _expr_not_none

    A = _analysis(ctx)
    ctor = M.func("ParseResult._ctor")
    for caller, call in A.callsites().get(id(ctor), []):
        rr.inst()
        kw = {k.arg: k.value for k in call.keywords}
        has_val = bool(call.args) or "value" in kw
        has_exc = "exception_provider" in kw
        if has_val == has_exc:
            rr.fail(caller.qual, f"ParseResult._ctor called with {'both' if has_val else 'neither'} of value / exception_provider: RuntimeError while the result is built", ctx.loc(caller, call))
        else:
            rr.ok()
    fv = M.func("ParseResult.for_value")
    for caller, call in A.callsites().get(id(fv), []):
        if not caller.mod.rel.startswith(TEXT):
            continue
        rr.inst()
        arg = call.args[0] if call.args else None
        why = _expr_not_none(ctx, arg, caller, 0, set()) if arg is not None else "no argument"
        if why is None:
            rr.ok()
        else:
            # a local holding a constructed value / a parameter typed non-optional is fine; report only definite None-ability
            t = ctx.R.type_of(arg, ctx.R.scope(caller)) if arg is not None else None
            if isinstance(t, str) and t != "None":
                rr.ok()
            else:
                rr.fail(caller.qual, f"ParseResult.for_value({unparse(arg)[:40] if arg is not None else ''}) may be given None: {why}", ctx.loc(caller, call))
    # (b) value types never falsy (the constructor and get_value_or_throw test truthiness / None-ness of the value)
    vtypes: set[str] = set()
    for f in M.funcs.values():
        if not f.mod.rel.startswith(TEXT) or isinstance(f.node, ast.Lambda) or f.node.returns is None:
            continue
        u = unparse(f.node.returns)
        if u.startswith("ParseResult[") and u.endswith("]"):
            vtypes.add(u[len("ParseResult["):-1].split(".")[-1])
    for t in sorted(vtypes):
        c = M.cls(t, required=False)
        if c is None:
            continue
        rr.inst()
        if M.find_method(c, "__bool__") is not None or M.find_method(c, "__len__") is not None:
            rr.fail(c.qual, f"{t} can be falsy (__bool__/__len__): ParseResult stores a value only when it is truthy, so a successful parse of such a value raises on .value", c.mod.rel)
        else:
            rr.ok({"value_type": t, "truthy": "always"})
    # (c) reads of .value / get_value_or_throw() inside the parse-time text layer are dominated by a success test
    region = [g for f in _entries(ctx, "parse") for g in (A.escapes(f), A.reachable(f))[1] if g.mod.rel.startswith(TEXT)]
    seen: set[int] = set()
    for g in region:
        if id(g) in seen or g.cls is pr:
            continue
        seen.add(id(g))
        nodes = list(own_nodes(g.node)) if not isinstance(g.node, ast.Lambda) else list(sub_nodes(g.node.body))
        for n in nodes:
            if isinstance(n, ast.Attribute) and isinstance(n.ctx, ast.Load) and n.attr in ("value", "get_value_or_throw"):
                t = ctx.R.type_of(n.value, ctx.R.scope(g))
                if t != "ParseResult":
                    continue
                rr.inst()
                recv = unparse(n.value)
                fa = facts_at(n)
                if (f"{recv}.success", "truthy", "") in fa:
                    rr.ok({"site": g.qual, "read": f"{recv}.{n.attr}", "guard": f"{recv}.success"})
                else:
                    rr.fail(g.qual, f"{recv}.{n.attr} is read during parse without a dominating `{recv}.success` test: a failed inner result raises its error out of parse", ctx.loc(g, n))
    # inside ParseResult: convert / try_get_value read self.value under self.success
    for nm in ("convert", "try_get_value"):
        f = pr.methods.get(nm)
        if f is None:
            continue
        for n in own_nodes(f.node):
            if isinstance(n, ast.Attribute) and unparse(n) == "self.value" and isinstance(n.ctx, ast.Load):
                rr.inst()
                if ("self.success", "truthy", "") in facts_at(n):
                    rr.ok()
                else:
                    rr.fail(f.qual, "self.value read without `self.success`", ctx.loc(f, n))
    # (d) abstract methods of the bucket / pattern interfaces are overridden by every concrete subclass
    for base_name in ("_ParseBucket", "_IPartialPattern", "IPattern"):
        base = M.cls(base_name)
        abstract = [m for m in base.all_defs if _abstract(m) and not m.name.startswith("__")]
        for c in M.all_classes():
            if c is base or not M.is_subclass(c, base_name) or not c.mod.rel.startswith(TEXT):
                continue
            if any(_abstract(m) for m in c.all_defs if not isinstance(m.node, ast.Lambda)) and c.name.startswith(("_I", "I")):
                continue  # another interface
            for m in abstract:
                rr.inst(nontrivial=False)
                impl = M.find_method(c, m.name)
                if impl is None or _abstract(impl):
                    rr.fail(c.qual, f"does not override abstract {base_name}.{m.name}: the call raises NotImplementedError / returns None during parse", c.mod.rel)
                else:
                    rr.ok()
    return rr


# ------------------------------------------------------------------------------------------- trusted day packing


@rule("C08")
def r08_6_month_length_guard(ctx: Ctx) -> RuleResult:
    """The buckets build dates through the *trusted* packing `_YearMonthDayCalendar._ctor(year=, month=, day=, ...)` ("avoid further
    revalidation"): nothing downstream checks the day against the month's length, so on every path to the packing an earlier
    statement must have left with a failure result when `day > <calendar>.get_days_in_month(year, month)`.  Decided structurally:
    a preceding sibling `if <test>: <leave>` (in a block enclosing the packing) whose negated test implies the bound, for the
    same year / month / day expressions (temporaries inlined).  `day <= 28` is accepted as implying the bound for the packing that
    hard-wires the ISO ordinal only."""
    from ..exc import _terminates
    from ..kit import inline_locals

    rr = RuleResult("R08.6", "every trusted year/month/day packing in the text layer is dominated by a day <= days-in-month(year, month) guard that leaves with a failure result", min_instances=3)
    for f in sorted(set(ctx.M.func_of_node.values()), key=lambda x: x.qual):
        if "/text/" not in f.mod.rel or isinstance(f.node, ast.Lambda):
            continue
        for c in own_nodes(f.node):
            kw = None
            if isinstance(c, ast.Call) and unparse(c.func) == "_YearMonthDayCalendar._ctor":
                kw = {k.arg: k.value for k in c.keywords}
            elif isinstance(c, ast.Call) and unparse(c.func) == "AnnualDate" and (len(c.args) == 2 or {"month", "day"} <= {k.arg for k in c.keywords}):
                # the validating constructor *raises* for a day beyond the month (as in ISO year 2000): inside parse it has to be
                # preceded by the same failure-result guard
                a = {k.arg: k.value for k in c.keywords}
                kw = {"year": ast.Constant(2000), "month": a.get("month", c.args[0] if c.args else None), "day": a.get("day", c.args[1] if len(c.args) > 1 else None), "calendar_ordinal": ast.parse("_CalendarOrdinal.ISO", mode="eval").body}
            if kw is None or None in kw.values():
                continue
            if not {"year", "month", "day"} <= set(kw):
                continue
            rr.inst()
            n = lambda e: unparse(inline_locals(f.node, e))  # noqa: E731
            Y, Mo, D = n(kw["year"]), n(kw["month"]), n(kw["day"])
            iso = "calendar_ordinal" in kw and unparse(kw["calendar_ordinal"]).endswith("_CalendarOrdinal.ISO")

            def bound(t: ast.expr) -> bool:
                """not t  ==>  D <= days_in_month(Y, Mo)"""
                if isinstance(t, ast.BoolOp):
                    return (any if isinstance(t.op, ast.Or) else all)(bound(v) for v in t.values)
                if isinstance(t, ast.Compare) and len(t.ops) == 1:
                    a, b, op = t.left, t.comparators[0], t.ops[0]
                    if isinstance(op, ast.Lt):
                        a, b, op = b, a, ast.Gt()
                    if isinstance(op, ast.Gt) and n(a) == D:
                        if isinstance(b, ast.Call) and isinstance(b.func, ast.Attribute) and b.func.attr == "get_days_in_month" and len(b.args) == 2:
                            return n(b.args[0]) == Y and n(b.args[1]) == Mo
                        if iso and isinstance(b, ast.Constant) and isinstance(b.value, int) and b.value <= 28:
                            return True
                return False

            found = None
            cur: ast.AST = c
            while cur is not f.node and found is None:
                par = getattr(cur, "_parent", None)
                if par is None:
                    break
                for fld in ("body", "orelse", "finalbody"):
                    blk = getattr(par, fld, None)
                    if isinstance(blk, list) and any(cur is s for s in blk):
                        idx = next(i for i, s in enumerate(blk) if s is cur)
                        for s in blk[:idx]:
                            if isinstance(s, ast.If) and not s.orelse and _terminates(s.body) and bound(s.test):
                                found = s
                cur = par
            if found is not None:
                rr.ok({"fn": f.qual, "packing": f"year={Y}, month={Mo}, day={D}", "guard": unparse(found.test)[:120]})
            else:
                rr.fail(f.qual, f"trusted packing of (year={Y}, month={Mo}, day={D}) is not dominated by a `day > get_days_in_month(year, month)` failure exit: some path reaches it with an unchecked day (a date such as 31 February is built, or the conversion raises later)", ctx.loc(f, c))
    return rr


@rule("C08")
def r08_7_embedded_fields(ctx: Ctx) -> RuleResult:
    """Embedded date / time patterns hand their parsed value to the outer bucket field by field.  The outer bucket's
    `calculate_value` arm for EMBEDDED_DATE / EMBEDDED_TIME then builds the value from those fields without looking at anything
    else, so every field that arm reads must have been stored by every parse action registered under that flag - a field left
    at its template default (e.g. the calendar) makes the validated constructor raise, or silently changes the value."""
    rr = RuleResult("R08.7", "every bucket field read by an EMBEDDED_DATE / EMBEDDED_TIME arm of calculate_value is stored by every embedded parse action registered under that flag", min_instances=4)
    M = ctx.M
    reads: dict[str, tuple[set[str], str]] = {}
    for f in list(M.func_of_node.values()):
        if "/text/" not in f.mod.rel or f.cls is None or "Bucket" not in f.cls.name or isinstance(f.node, ast.Lambda):
            continue
        for s in own_nodes(f.node):
            if isinstance(s, ast.If) and isinstance(s.test, ast.Call) and unparse(s.test.func).endswith("used_fields.has_any") and s.test.args:
                flag = unparse(s.test.args[0]).split(".")[-1]
                if flag.startswith("EMBEDDED_"):
                    rd = {n.attr for b in s.body for n in ast.walk(b) if isinstance(n, ast.Attribute) and isinstance(n.value, ast.Name) and n.value.id == f.self_name and isinstance(n.ctx, ast.Load) and n.attr.startswith("_") and not n.attr.startswith("__")}
                    rd = {a for a in rd if M.find_method(f.cls, a) is None}  # fields, not helper methods
                    reads[flag] = (rd, f.qual)
    if set(reads) != {"EMBEDDED_DATE", "EMBEDDED_TIME"}:
        raise AnalysisError(f"embedded arms of calculate_value not found (got {sorted(reads)})")
    builder = M.cls("_SteppedPatternBuilder")
    for f in sorted(builder.all_defs, key=lambda x: x.qual):
        if isinstance(f.node, ast.Lambda):
            continue
        for c in own_nodes(f.node):
            if not (isinstance(c, ast.Call) and isinstance(c.func, ast.Attribute) and c.func.attr == "_add_field" and c.args):
                continue
            flag = unparse(c.args[0]).split(".")[-1]
            if flag not in reads:
                continue
            # the block (function body / match arm) that registers the flag also defines the parse action
            stmt: ast.AST = c
            while not isinstance(stmt, ast.stmt):
                stmt = stmt._parent  # type: ignore[attr-defined]
            par = stmt._parent  # type: ignore[attr-defined]
            blk = next((b for fld in ("body", "orelse") for b in [getattr(par, fld, None)] if isinstance(b, list) and any(stmt is s for s in b)), None)
            defs = [s for s in (blk or []) if isinstance(s, ast.FunctionDef)]
            acts = []
            for d in defs:
                st = {t.attr for n in ast.walk(d) if isinstance(n, ast.Assign) for t in n.targets if isinstance(t, ast.Attribute) and isinstance(t.value, ast.Name)}
                if st:
                    acts.append((d, st))
            rr.inst()
            need, consumer = reads[flag]
            if not acts:
                rr.fail(f.qual, f"registers {flag} but no parse action storing bucket fields is defined next to it", ctx.loc(f, c))
                continue
            bad = [(d.name, sorted(need - st)) for d, st in acts if need - st]
            if bad:
                rr.fail(f.qual, f"{flag}: parse action `{bad[0][0]}` does not store {bad[0][1]}, which {consumer} reads to build the value (the field keeps its template default)", ctx.loc(f, acts[0][0]))
            else:
                rr.ok({"producer": f.qual, "flag": flag, "fields": sorted(need)})
    return rr


@rule("C08")
def r08_8_field_exclusions_checked_on_the_complete_set(ctx: Ctx) -> RuleResult:
    """An embedded date (time) pattern excludes every other date (time) field.  The exclusion is symmetric in the order the fields
    appear in the pattern text, so it can only be decided where the complete field set is known: in `_build` (or a helper that
    only `_build` calls).  A check made while fields are still being added sees one order only; the other order is accepted and
    the two sources of the same fields then collide at parse time (ValueError from the validating constructor)."""
    rr = RuleResult("R08.8", "embedded/plain field exclusions (DATE_FIELD_AND_EMBEDDED_DATE, TIME_FIELD_AND_EMBEDDED_TIME) are raised from _build, where the whole field set is known", min_instances=2)
    M = ctx.M
    b = M.cls("_SteppedPatternBuilder")
    build = M.find_method(b, "_build")
    if build is None:
        raise AnalysisError("_SteppedPatternBuilder._build missing")
    # functions reachable from _build by self-calls only
    reach = {id(build): build}
    work = [build]
    while work:
        g = work.pop()
        for n in own_nodes(g.node):
            if isinstance(n, ast.Call) and isinstance(n.func, ast.Attribute) and isinstance(n.func.value, ast.Name) and n.func.value.id == (g.self_name or "self"):
                t = M.find_method(b, n.func.attr) or M.find_method(b, mangle(b.name, n.func.attr))
                if t is not None and id(t) not in reach:
                    reach[id(t)] = t
                    work.append(t)
    found = {}
    for f in b.all_defs:
        if isinstance(f.node, ast.Lambda):
            continue
        for n in own_nodes(f.node):
            if isinstance(n, ast.Raise) and n.exc is not None:
                for msg in ("DATE_FIELD_AND_EMBEDDED_DATE", "TIME_FIELD_AND_EMBEDDED_TIME"):
                    if msg in unparse(n.exc):
                        found.setdefault(msg, []).append((f, n))
    for msg in ("DATE_FIELD_AND_EMBEDDED_DATE", "TIME_FIELD_AND_EMBEDDED_TIME"):
        rr.inst()
        sites = found.get(msg, [])
        if not sites:
            rr.fail(b.qual, f"the exclusion {msg} is never raised: embedded and plain fields of the same kind can be combined", b.mod.rel)
            continue
        outside = [(f, n) for f, n in sites if id(f) not in reach]
        inside = [(f, n) for f, n in sites if id(f) in reach]
        if inside:
            rr.ok({"exclusion": msg, "raised in": inside[0][0].qual})
        else:
            f, n = outside[0]
            rr.fail(f.qual, f"{msg} is only raised from {f.name}, while fields are still being added: it sees one order of the two fields; the other order is accepted and fails at parse time", ctx.loc(f, n))
    return rr


@rule("C08")
def r08_9_no_overflow_from_parse(ctx: Ctx) -> RuleResult:
    """Open-ended date / time arithmetic (plus_days, plus_months, instant arithmetic ...) raises OverflowError when its result leaves
    the calendar.  Inside parsing such a call is only acceptable under a `try` that turns the overflow into a failure result:
    every call from the text layer (parse region) to a function outside it from which an explicit `raise OverflowError` can
    escape (exception-effect analysis) must be enclosed by a handler for OverflowError (or a base class of it)."""
    rr = RuleResult("R08.9", "parse time: no call leaves the text layer for arithmetic that can raise OverflowError unless the overflow is caught and reported as a failure result", min_instances=15)
    M = ctx.M
    A = ExcAnalysis(ctx, _cfg())
    region: dict[int, Func] = {}
    for e in _entries(ctx, "parse"):
        A.escapes(e)
        for g in A.reachable(e):
            region[id(g)] = g
    for g in sorted(region.values(), key=lambda x: x.qual):
        if not g.mod.rel.startswith(TEXT) or isinstance(g.node, ast.Lambda):
            continue
        for c in own_nodes(g.node):
            if not isinstance(c, ast.Call):
                continue
            tg, how = ctx.R.callees(c, g, count=False)
            if how != "resolved":
                continue
            outside = [t for t in tg if not t.mod.rel.startswith(TEXT)]
            if not outside:
                continue
            rr.inst()
            src = None
            for t in outside:
                esc = A.escapes(t)
                it = esc.values() if isinstance(esc, dict) else esc
                src = src or next((x for x in it if x.exc == "OverflowError" and x.kind == "raise"), None)
            if src is None:
                rr.ok()
                continue
            caught = False
            p = getattr(c, "_parent", None)
            ch: ast.AST = c
            while p is not None and p is not g.node:
                if isinstance(p, ast.Try) and any(ch is s or any(ch is x for x in ast.walk(s)) for s in p.body):
                    for h in p.handlers:
                        names = [unparse(x) for x in (h.type.elts if isinstance(h.type, ast.Tuple) else [h.type])] if h.type is not None else ["BaseException"]
                        if any(n.split(".")[-1] in ("OverflowError", "ArithmeticError", "Exception", "BaseException") for n in names):
                            caught = True
                ch, p = p, getattr(p, "_parent", None)
            if caught:
                rr.ok({"fn": g.qual, "call": unparse(c)[:60], "overflow": "caught and converted"})
            else:
                rr.fail(g.qual, f"`{unparse(c)[:70]}` can raise OverflowError (from {src.fn}) and nothing catches it: the exception escapes parse instead of a failure result", ctx.loc(g, c))
    return rr


@rule("C08")
def r08_10_field_set_tests(ctx: Ctx) -> RuleResult:
    """Two structural conditions on the tests the builder makes on its set of used fields.
    (a) A combination check (`ERA without YEAR_OF_ERA`, `CALENDAR and ERA`, embedded vs plain) looks at the fields it is about
    through a mask / has_any / has_all: a bare `used_fields == X` only fires for patterns made of nothing but X, so the forbidden
    combination is accepted as soon as the pattern has any other field, and parsing then runs into the conflict it was meant to
    prevent.  (b) A pattern-character handler runs while the pattern is still being scanned: the field set it sees is incomplete, so
    it may only test for fields it adds itself (duplicates); a decision taken there on the presence of *another* field depends on
    the order of the fields in the pattern text, while the matching format action is built from the final set."""
    rr = RuleResult("R08.10", "field-set tests: combination checks are masked; handlers running during pattern scanning only test the fields they add themselves", min_instances=4)
    M = ctx.M
    b = M.cls("_SteppedPatternBuilder")
    # (a)
    for f in b.all_defs:
        if isinstance(f.node, ast.Lambda):
            continue
        for n in own_nodes(f.node):
            if isinstance(n, ast.Compare) and len(n.ops) == 1 and isinstance(n.ops[0], (ast.Eq, ast.NotEq)):
                for side in (n.left, n.comparators[0]):
                    if isinstance(side, ast.Attribute) and side.attr.endswith("used_fields") and unparse(side.value) == (f.self_name or "self"):
                        other = n.comparators[0] if side is n.left else n.left
                        if isinstance(other, ast.Name) and other.id.startswith("new_"):
                            continue  # `new == old` duplicate detection in _add_field
                        rr.inst()
                        rr.fail(f.qual, f"`{unparse(n)[:80]}` compares the whole field set: the check only fires when the pattern contains nothing else", ctx.loc(f, n))
            if isinstance(n, ast.Compare) and any(isinstance(x, ast.BinOp) and isinstance(x.op, ast.BitAnd) and "used_fields" in unparse(x.left) for x in ast.walk(n)):
                rr.inst()
                rr.ok({"fn": f.qual, "test": unparse(n)[:80]})
    # (b)
    for f in sorted(set(M.func_of_node.values()), key=lambda x: x.qual):
        if isinstance(f.node, ast.Lambda) or "/text/" not in f.mod.rel or f.cls is b:
            continue
        reads = [n for n in own_nodes(f.node) if isinstance(n, ast.Attribute) and n.attr in ("_used_fields", "used_fields") and isinstance(n.value, ast.Name) and n.value.id in ("builder", "pattern_builder")]
        if not reads:
            continue
        added = set()
        for c in own_nodes(f.node):
            if isinstance(c, ast.Call) and isinstance(c.func, ast.Attribute) and c.func.attr == "_add_field":
                for a in list(c.args) + [k.value for k in c.keywords]:
                    for x in ast.walk(a):
                        if isinstance(x, ast.Attribute) and unparse(x).startswith("_PatternFields."):
                            added.add(x.attr)
        for rd in reads:
            # the expression the read takes part in
            top: ast.AST = rd
            while not isinstance(getattr(top, "_parent", None), ast.stmt) and getattr(top, "_parent", None) is not None:
                top = top._parent  # type: ignore[attr-defined]
            tested = {x.attr for x in ast.walk(top) if isinstance(x, ast.Attribute) and unparse(x).startswith("_PatternFields.") and x.attr != "NONE"}
            rr.inst()
            foreign = sorted(tested - added)
            if foreign:
                rr.fail(f.qual, f"tests the builder's field set for {foreign} while the pattern is still being scanned (this handler adds {sorted(added) or 'nothing'}): the outcome depends on where that field stands in the pattern text", ctx.loc(f, rd))
            else:
                rr.ok({"handler": f.qual, "tests": sorted(tested)})
    return rr


# ------------------------------------------------------------------------------------------- R08.11 calendar queries

YEAR_PARAMS = {"year", "absolute_year"}
ERA_PARAMS = {"era"}
MONTH_PARAMS = {"month"}
# CalendarSystem methods whose result is a year / an era of the receiving calendar
YEAR_SOURCES = {"get_absolute_year"}
ERA_SOURCES = {"_get_era", "get_era"}


class _CalendarFlow:
    """Forward walk over the statements of a parse bucket (joins at merges, own-class calls followed) tracking, for every term
    passed to a CalendarSystem query as year / era / month, the calendar expressions it is known to be valid for:
    a year after a range test against <cal>.min_year / <cal>.max_year or when produced by <cal>.get_absolute_year,
    an era after `in <cal>.eras()` or when produced by <cal>, a month after `<= <cal>.get_months_in_year(..)` (or <= 12)."""

    def __init__(self, ctx: Ctx, rr: RuleResult) -> None:
        self.ctx, self.M, self.rr = ctx, ctx.M, rr
        cal = self.M.cls("CalendarSystem", required=True)
        self.cal_methods = {n: f for n, f in cal.methods.items()}
        self.reported: set[tuple[str, int]] = set()
        self.sites: dict[tuple[str, int], bool] = {}

    # -- helpers
    def _query(self, n: ast.AST) -> tuple[str, Func] | None:
        if isinstance(n, ast.Call) and isinstance(n.func, ast.Attribute) and n.func.attr in self.cal_methods and "calendar" in unparse(n.func.value).lower():
            return unparse(n.func.value), self.cal_methods[n.func.attr]
        return None

    @staticmethod
    def _join(a: dict | None, b: dict | None) -> dict | None:
        if a is None:
            return b
        if b is None:
            return a
        return {k: a.get(k, set()) & b.get(k, set()) for k in set(a) | set(b)}

    def _apply(self, st: dict, facts: set[tuple[str, str, str]]) -> dict:
        st = {k: set(v) for k, v in st.items()}
        for lhs, op, rhs in facts:
            if op == "<=" and rhs.endswith(".max_year") and (lhs, ">=", rhs[: -len(".max_year")] + ".min_year") in facts:
                st.setdefault(lhs, set()).add(rhs[: -len(".max_year")])
            if op == "in" and rhs.endswith(".eras()"):
                st.setdefault(lhs, set()).add(rhs[: -len(".eras()")])
            if op == "<=" and ".get_months_in_year(" in rhs:
                st.setdefault(lhs, set()).add(rhs.split(".get_months_in_year(")[0])
            if op == "<=" and rhs.isdigit() and int(rhs) <= 12:
                st.setdefault(lhs, set()).add("*")
        return st

    def _value_status(self, v: ast.expr, st: dict) -> set[str]:
        q = self._query(v)
        if q is not None and (q[1].name in YEAR_SOURCES or q[1].name in ERA_SOURCES):
            return {q[0]}
        if isinstance(v, (ast.Name, ast.Attribute)) and unparse(v) in st:
            return set(st[unparse(v)])
        if isinstance(v, ast.IfExp):
            return self._value_status(v.body, st) & self._value_status(v.orelse, st)
        return set()

    # -- expressions: uses, short-circuit facts, own-class calls
    def expr(self, f: Func, e: ast.AST | None, st: dict, depth: int) -> None:
        if e is None:
            return
        if isinstance(e, ast.BoolOp):
            cur = st
            for v in e.values:
                self.expr(f, v, cur, depth)
                cur = self._apply(cur, atoms(v, isinstance(e.op, ast.And)))
            return
        if isinstance(e, ast.IfExp):
            self.expr(f, e.test, st, depth)
            self.expr(f, e.body, self._apply(st, atoms(e.test, True)), depth)
            self.expr(f, e.orelse, self._apply(st, atoms(e.test, False)), depth)
            return
        if isinstance(e, ast.Lambda):
            return
        q = self._query(e)
        if q is not None:
            from ..kit import bind_args

            cal, g = q
            for pname, arg in bind_args(e, g).items():
                kind = "year" if pname in YEAR_PARAMS else "era" if pname in ERA_PARAMS else "month" if pname in MONTH_PARAMS else None
                if kind is None or not isinstance(arg, (ast.Name, ast.Attribute)):
                    continue
                term = unparse(arg)
                key = (f.qual, getattr(e, "lineno", 0), pname)
                ok = cal in st.get(term, set()) or "*" in st.get(term, set())
                self.sites[key] = self.sites.get(key, True) and ok
                if not ok and key not in self.reported:
                    self.reported.add(key)
                    self.rr.fail(f.qual, f"`{unparse(e)[:90]}`: the {kind} `{term}` is not known to be valid for `{cal}` on every path reaching this call (no range / membership test against that calendar since it was last assigned, and not produced by it): the calendar raises inside parse", self.ctx.loc(f, e))
        if isinstance(e, ast.Call) and isinstance(e.func, ast.Attribute) and isinstance(e.func.value, ast.Name) and e.func.value.id in ("self", "cls") and f.cls is not None and depth < 4:
            g = self.M.find_method(f.cls, mangle(e.func.attr, f.cls.name)) or self.M.find_method(f.cls, e.func.attr)
            if g is not None and not isinstance(g.node, ast.Lambda) and g is not f:
                for a in list(e.args) + [k.value for k in e.keywords]:
                    self.expr(f, a, st, depth)
                res = self.method(g, st, depth + 1)
                if res is not None:
                    st.update(res)  # in place: the caller continues with the state of the callee's successful exits
                return
        for c in ast.iter_child_nodes(e):
            self.expr(f, c, st, depth)

    def _expand_predicates(self, f: Func, test: ast.expr) -> ast.expr:
        """A test that calls a parameterless predicate of the same object (`if self.__is_year_outside_calendar():`) is replaced by
        the expression that predicate returns, so that its range facts are seen."""
        import copy

        M, cls = self.M, f.cls

        class Sub(ast.NodeTransformer):
            def visit_Call(self, node):  # noqa: N802
                if isinstance(node.func, ast.Attribute) and isinstance(node.func.value, ast.Name) and node.func.value.id == "self" and not node.args and not node.keywords and cls is not None:
                    g = M.find_method(cls, mangle(cls.name, node.func.attr)) or M.find_method(cls, node.func.attr)
                    if g is not None and not isinstance(g.node, ast.Lambda):
                        body = [b for b in g.body if not (isinstance(b, ast.Expr) and isinstance(b.value, ast.Constant))]
                        if len(body) == 1 and isinstance(body[0], ast.Return) and body[0].value is not None:
                            return copy.deepcopy(body[0].value)
                return self.generic_visit(node)

        return Sub().visit(copy.deepcopy(test))

    def method(self, g: Func, st: dict, depth: int) -> dict | None:
        """State after a successful call of g (exits returning None when g follows the `failure or None` convention, all exits otherwise)."""
        exits: list[tuple[ast.expr | None, dict]] = []
        tail = self.block(g, g.body, {k: set(v) for k, v in st.items()}, depth, exits)
        if tail is not None:
            exits.append((None, tail))
        succ = [s for v, s in exits if v is None or (isinstance(v, ast.Constant) and v.value is None)]
        chosen = succ if succ and len(succ) < len(exits) or succ and all(v is None or isinstance(v, ast.Constant) for v, _ in exits) else [s for _, s in exits]
        out: dict | None = None
        for s in chosen:
            out = self._join(out, s)
        return out

    def block(self, f: Func, stmts: list[ast.stmt], st: dict | None, depth: int, exits: list) -> dict | None:
        for s in stmts:
            if st is None:
                return None
            if isinstance(s, ast.Return):
                self.expr(f, s.value, st, depth)
                exits.append((s.value, st))
                return None
            if isinstance(s, ast.Raise):
                return None
            if isinstance(s, ast.If):
                st = {k: set(v) for k, v in st.items()}
                self.expr(f, s.test, st, depth)
                test = self._expand_predicates(f, s.test)
                a = self.block(f, s.body, self._apply(st, atoms(test, True)), depth, exits)
                b = self.block(f, s.orelse, self._apply(st, atoms(test, False)), depth, exits)
                st = self._join(a, b) if (a is not None and b is not None) else (a if b is None else b)
                continue
            if isinstance(s, (ast.Assign, ast.AnnAssign, ast.AugAssign)):
                st = {k: set(v) for k, v in st.items()}
                self.expr(f, s.value, st, depth)
                tgs = s.targets if isinstance(s, ast.Assign) else [s.target]
                for t in tgs:
                    if isinstance(t, (ast.Name, ast.Attribute)):
                        term = unparse(t)
                        if isinstance(s, ast.AugAssign) or s.value is None:
                            st = {**st, term: set()}
                        else:
                            st = {**st, term: self._value_status(s.value, st)}
                        if "calendar" in term.lower():
                            # the calendar itself changed: nothing is known to be valid for it any more
                            st = {k: {c for c in v if c != term} for k, v in st.items()}
                continue
            if isinstance(s, ast.Expr):
                st = {k: set(v) for k, v in st.items()}
                self.expr(f, s.value, st, depth)
                continue
            if isinstance(s, (ast.For, ast.While)):
                self.expr(f, s.iter if isinstance(s, ast.For) else s.test, st, depth)
                body = self.block(f, s.body, st if isinstance(s, ast.For) else self._apply(st, atoms(s.test, True)), depth, exits)
                st = self._join(st, body) if body is not None else st
                if s.orelse:
                    st = self.block(f, s.orelse, st, depth, exits)
                continue
            if isinstance(s, ast.With):
                for it in s.items:
                    self.expr(f, it.context_expr, st, depth)
                st = self.block(f, s.body, st, depth, exits)
                continue
            if isinstance(s, ast.Try):
                a = self.block(f, s.body, st, depth, exits)
                outs = [a] + [self.block(f, h.body, st, depth, exits) for h in s.handlers]
                st2: dict | None = None
                for o in outs:
                    st2 = self._join(st2, o) if o is not None else st2
                st = st2
                if s.finalbody and st is not None:
                    st = self.block(f, s.finalbody, st, depth, exits)
                continue
            if isinstance(s, ast.Match):
                self.expr(f, s.subject, st, depth)
                outs = [self.block(f, c.body, st, depth, exits) for c in s.cases]
                has_default = any(isinstance(c.pattern, ast.MatchAs) and c.pattern.pattern is None and c.guard is None for c in s.cases)
                st2 = None if has_default else st
                for o in outs:
                    st2 = self._join(st2, o) if o is not None else st2
                st = st2
                continue
            if isinstance(s, ast.Assert):
                self.expr(f, s.test, st, depth)
                st = self._apply(st, atoms(s.test, True))
                continue
            if isinstance(s, (ast.Pass, ast.Import, ast.ImportFrom, ast.FunctionDef, ast.ClassDef, ast.Global, ast.Nonlocal, ast.Break, ast.Continue, ast.Delete)):
                if isinstance(s, (ast.Break, ast.Continue)):
                    return None
                continue
            raise AnalysisError(f"{f.qual}: statement kind {type(s).__name__} not handled by the calendar-query walk")
        return st


@rule("C08")
def r08_11_calendar_queries(ctx: Ctx) -> RuleResult:
    """A parse bucket may hold a calendar parsed from the text ('c') together with years / eras that come from the template value or
    from digits: CalendarSystem queries validate their year / era / month arguments by raising, so each such argument must, on
    every path from calculate_value, have been range- or membership-tested against the calendar that is asked (or produced by
    it).  Otherwise `parse` raises ValueError instead of returning a failed ParseResult (D22)."""
    rr = RuleResult("R08.11", "every year / era / month handed to a CalendarSystem query while a parse bucket computes its value was validated against that calendar on every path (range test against min_year/max_year, membership in eras(), <= months in year) or produced by it", min_instances=5)
    M = ctx.M
    flow = _CalendarFlow(ctx, rr)
    entries = []
    for lst in M.classes.values():
        for c in lst:
            if not c.mod.rel.startswith(TEXT) or "calculate_value" not in c.methods:
                continue
            if not any(flow._query(n) is not None for g in c.methods.values() if not isinstance(g.node, ast.Lambda) for n in ast.walk(g.node)):
                continue
            entries.append(c.methods["calculate_value"])
    if not entries:
        raise AnalysisError("no parse bucket with calendar queries found")
    for f in sorted(entries, key=lambda g: g.qual):
        # parsed eras come from the bucket's own calendar (the era parse action iterates <calendar>.eras()); years are any digits
        init: dict[str, set[str]] = {}
        for g in f.cls.methods.values():
            if isinstance(g.node, ast.Lambda):
                continue
            for n in own_nodes(g.node):
                if isinstance(n, ast.For) and isinstance(n.iter, ast.Call) and unparse(n.iter).endswith(".eras()") and isinstance(n.target, ast.Name):
                    calx = unparse(n.iter)[: -len(".eras()")]
                    for a in ast.walk(n):
                        if isinstance(a, ast.Assign) and isinstance(a.value, ast.Name) and a.value.id == n.target.id:
                            for t in a.targets:
                                init.setdefault(unparse(t), set()).add(calx)
        flow.method(f, init, 0)
    for key, ok in sorted(flow.sites.items()):
        rr.inst()
        if ok:
            rr.ok({"call": f"{key[0]}:{key[1]}", "argument": key[2]})
    return rr


# ------------------------------------------------------------------------------------------- R08.12 standard patterns are unwrapped


@rule("C08")
def r08_12_standard_instances_are_unwrapped(ctx: Ctx) -> RuleResult:
    """For the one-letter standard patterns a parser returns a cached *public* pattern object (X._Patterns._..._impl), which does
    not implement the partial-pattern interface (parse_partial / append_format on a cursor).  X._create stores what the parser
    returns as its underlying partial pattern; it must first replace a public instance by that instance's own underlying pattern,
    or embedding the pattern (`ld<R>`) calls parse_partial on an object that has none: AttributeError out of parse."""
    rr = RuleResult("R08.12", "pattern factories unwrap a public standard-pattern instance returned by their parser before storing it as the underlying partial pattern", min_instances=3)
    M = ctx.M
    for lst in M.classes.values():
        for c in lst:
            if not c.mod.rel.startswith(TEXT) or c.name.startswith("_") or "_create" not in c.methods:
                continue
            f = c.methods["_create"]
            # does some parser return a public instance of this class?
            returns_public = False
            for g in M.funcs.values():
                if g.name == "parse_pattern" and g.mod.rel.startswith(TEXT) and not isinstance(g.node, ast.Lambda):
                    for n in own_nodes(g.node):
                        if isinstance(n, ast.Return) and isinstance(n.value, ast.Attribute):
                            root = n.value
                            while isinstance(root, ast.Attribute):
                                root = root.value
                            if isinstance(root, ast.Name) and root.id == c.name:
                                returns_public = True
            if not returns_public:
                continue
            rr.inst()
            unwrap = None
            for n in own_nodes(f.node):
                if isinstance(n, ast.Assign) and len(n.targets) == 1 and isinstance(n.targets[0], ast.Name):
                    v = n.targets[0].id
                    if any(isinstance(x, ast.Attribute) and x.attr == "_underlying_pattern" and isinstance(x.value, ast.Name) and x.value.id == v for x in ast.walk(n.value)):
                        facts = facts_at(n)
                        if any(op == "truthy" and a.replace(" ", "") == f"isinstance({v},{c.name})" for a, op, b in facts):
                            unwrap = (n, v)
                elif isinstance(n, ast.IfExp) and "_underlying_pattern" in unparse(n.body) and unparse(n.test).replace(" ", "").startswith("isinstance(") and c.name in unparse(n.test):
                    unwrap = (n, "")
            ctor_calls = [n for n in own_nodes(f.node) if isinstance(n, ast.Call) and unparse(n.func).endswith("__ctor")]
            if not ctor_calls:
                rr.fail(f.qual, "no constructor call found in the factory (not decided)", ctx.loc(f))
                continue
            partial_branch = None
            if unwrap is not None and unwrap[1]:
                # the unwrap must cover every way the variable is filled: if it stands under a further condition (one arm of the
                # template test), every assignment of the variable from a parser has to stand under that condition as well
                extra = [(a, op, b) for a, op, b in facts_at(unwrap[0]) if not (op == "truthy" and a.replace(" ", "").startswith("isinstance("))]
                if extra:
                    for n in own_nodes(f.node):
                        if isinstance(n, ast.Assign) and n is not unwrap[0] and any(isinstance(t, ast.Name) and t.id == unwrap[1] for t in n.targets) and isinstance(n.value, ast.Call):
                            fa = facts_at(n)
                            if not all(e in fa for e in extra):
                                partial_branch = n
            if partial_branch is not None:
                rr.fail(f.qual, f"the unwrapping of a public {c.name} stands under `{' and '.join(a for a, _o, _b in extra)[:80]}`, but `{unparse(partial_branch)[:70]}` fills the variable on another path: there a standard pattern letter leaves an object without parse_partial as the underlying pattern (AttributeError when the pattern is embedded and parsed)", ctx.loc(f, partial_branch))
            elif unwrap is not None and all(unwrap[0].lineno < k.lineno for k in ctor_calls):
                rr.ok({"factory": f.qual, "unwraps": unparse(unwrap[0])[:70]})
            else:
                rr.fail(f.qual, f"the parser can return a public {c.name} (standard pattern letters) but the factory stores it as the underlying partial pattern without taking its `_underlying_pattern`: the stored object has no parse_partial", ctx.loc(f, ctor_calls[0]))
    return rr


@rule("C08")
def r08_13_last_character_needs_a_character(ctx: Ctx) -> RuleResult:
    """`buffer[buffer.length - 1]` (peeking at the last character written, e.g. to take back a decimal separator) is index -1 on an
    empty buffer: IndexError.  Format actions also run while a pattern is *created* (the builder formats a sample value to size
    its buffer), so an unguarded peek in a fraction formatter makes `create("FFF")` raise IndexError instead of building the
    pattern.  Every such subscript in the text layer must be dominated by a non-emptiness test of the same buffer."""
    import re

    rr = RuleResult("R08.13", "every `buf[buf.length - 1]` / `s[len(s) - 1]` in the text layer is dominated by a non-emptiness test of the same buffer", min_instances=1)
    for f in sorted(set(ctx.M.func_of_node.values()), key=lambda x: x.qual):
        if not f.mod.rel.startswith(TEXT):
            continue
        nodes = ast.walk(f.node) if isinstance(f.node, ast.Lambda) else own_nodes(f.node)
        for n in nodes:
            if not (isinstance(n, ast.Subscript) and isinstance(n.ctx, ast.Load)):
                continue
            base, idx = unparse(n.value), unparse(n.slice).replace(" ", "")
            if idx not in (f"{base}.length-1", f"len({base})-1", "-1"):
                continue
            rr.inst()
            facts = facts_at(n)
            lens = (f"{base}.length", f"len({base})")
            ok = any((l in lens and ((op == ">" and r == "0") or (op == ">=" and r == "1") or (op == "!=" and r == "0"))) or (l == base and op == "truthy") for (l, op, r) in facts)
            if ok:
                rr.ok({"peek": f"{f.qual}: {unparse(n)[:50]}"})
            else:
                rr.fail(f.qual, f"`{unparse(n)[:60]}` is not dominated by a test that `{base}` is non-empty: IndexError when nothing has been written yet (pattern creation formats a sample value)", ctx.loc(f, n))
    return rr


@rule("C08")
def r08_14_embedded_pattern_starts_on_its_delimiter(ctx: Ctx) -> RuleResult:
    """`_PatternCursor.get_embedded_pattern` is what rejects `l` followed by anything but `<` with InvalidPatternError; the handlers
    that call it rely on that (their `case _: raise RuntimeError("Bug ...")` is unreachable only because of it, see R08.2).  After
    its opening guard the facts must include that the cursor has moved and that the current character IS the start delimiter -
    however the test is spelt; a wrongly distributed negation lets any character through."""
    rr = RuleResult("R08.14", "after the opening guard of get_embedded_pattern the current character is known to be the embedded-pattern start delimiter", min_instances=1)
    f = ctx.M.func("_PatternCursor.get_embedded_pattern")
    body = [s for s in f.body if not (isinstance(s, ast.Expr) and isinstance(s.value, ast.Constant))]
    guard = next((s for s in body if isinstance(s, ast.If) and any(isinstance(x, ast.Raise) for x in s.body)), None)
    rr.inst()
    if guard is None or body.index(guard) + 1 >= len(body):
        raise AnalysisError(f"{f.qual}: opening guard not found")
    facts = facts_at(body[body.index(guard) + 1])
    on_start = any(op == "==" and {a, b} == {"self.current", "self._EMBEDDED_PATTERN_START"} for a, op, b in facts)
    moved = any(a.replace(" ", "") == "self.move_next()" and op == "truthy" for a, op, b in facts)
    if on_start and moved:
        rr.ok({"guard": unparse(guard.test)[:80]})
    else:
        rr.fail(f.qual, f"after `if {unparse(guard.test)[:70]}: raise` it is not established that the cursor moved and that the current character is the start delimiter: other characters are accepted and the callers' \"cannot happen\" branch is reached", ctx.loc(f, guard))
    return rr


# ------------------------------------------------------------------------------------------- R08.15 failure callbacks have the arity they are called with


@rule("C08")
def r08_15_failure_callbacks_fit_their_call(ctx: Ctx) -> RuleResult:
    """The stepped builder receives failure callbacks and calls them only when a parse step FAILS: `failure(cursor)` for a text
    literal, `failure_selector(cursor, expected_char)` for a character literal.  A callback of the wrong arity passes pattern
    creation, formatting and every successful parse, and raises TypeError on the first text that mismatches at that position.
    For every keyword argument that the callee calls, the function supplied at each call site must accept that many positional
    arguments."""
    from ..kit import bind_args

    rr = RuleResult("R08.15", "callbacks handed to the stepped pattern builder accept as many positional arguments as the builder calls them with", min_instances=10)
    M = ctx.M
    b = M.cls("_SteppedPatternBuilder")
    for callee in sorted(b.all_defs, key=lambda g: g.qual):
        if isinstance(callee.node, ast.Lambda) or callee.decorators & {"overload", "typing.overload"}:
            continue
        params = {p.arg for p in callee.value_params}
        arity: dict[str, int] = {}
        for n in ast.walk(callee.node):
            if isinstance(n, ast.Call) and isinstance(n.func, ast.Name) and n.func.id in params and not n.keywords and not any(isinstance(a, ast.Starred) for a in n.args):
                arity[n.func.id] = len(n.args)
        if not arity:
            continue
        for f in sorted(set(M.func_of_node.values()), key=lambda x: x.qual):
            if not f.mod.rel.startswith(TEXT):
                continue
            nodes = ast.walk(f.node) if isinstance(f.node, ast.Lambda) else own_nodes(f.node)
            for c in nodes:
                if not (isinstance(c, ast.Call) and isinstance(c.func, ast.Attribute) and c.func.attr == callee.name.split("__")[-1] or isinstance(c, ast.Call) and isinstance(c.func, ast.Attribute) and c.func.attr == callee.name):
                    continue
                for k in c.keywords:
                    if k.arg in arity and isinstance(k.value, (ast.Attribute, ast.Name)):
                        tg = None
                        if isinstance(k.value, ast.Attribute):
                            owner = M.cls(unparse(k.value.value).split(".")[-1].split("[")[0], required=False)
                            tg = (M.find_meta_method(owner, k.value.attr) or M.find_method(owner, k.value.attr)) if owner is not None else None
                        if tg is None or isinstance(tg.node, ast.Lambda):
                            continue
                        rr.inst()
                        npos = len([p for p in tg.value_params]) - len(tg.node.args.kwonlyargs)
                        has_var = tg.node.args.vararg is not None
                        ndef = len(tg.node.args.defaults)
                        need = arity[k.arg]
                        if (npos - ndef <= need <= npos) or (has_var and need >= npos - ndef):
                            rr.ok({"call": f"{f.qual}: {k.arg}={unparse(k.value)}", "called with": need})
                        else:
                            rr.fail(f.qual, f"`{k.arg}={unparse(k.value)}`: {callee.name} calls this callback with {need} positional argument(s) (only when the text does not match), but {tg.qual} takes {npos}: TypeError out of parse on the first mismatching text", ctx.loc(f, c))
    return rr


@rule("C08")
def r08_16_sentinel_instants_stay_inside(ctx: Ctx) -> RuleResult:
    """Instant._before_min_value() / _after_max_value() are internal sentinels ("must never be exposed"): `_is_valid` is False and
    every public operation on them misbehaves.  The text layer may COMPARE a value with them (to write "StartOfTime" /
    "EndOfTime") but must never hand one out: no call of a sentinel constructor in the text layer may occur outside a
    comparison."""
    rr = RuleResult("R08.16", "the text layer only compares with the internal before-min / after-max instants, it never returns or wraps them", min_instances=1)
    for f in sorted(set(ctx.M.func_of_node.values()), key=lambda x: x.qual):
        if not f.mod.rel.startswith(TEXT):
            continue
        nodes = ast.walk(f.node) if isinstance(f.node, ast.Lambda) else own_nodes(f.node)
        for n in nodes:
            if isinstance(n, ast.Call) and isinstance(n.func, ast.Attribute) and n.func.attr in ("_before_min_value", "_after_max_value", "before_min_value", "after_max_value"):
                rr.inst()
                par = getattr(n, "_parent", None)
                if isinstance(par, ast.Compare):
                    rr.ok({"function": f.qual, "use": unparse(par)[:60]})
                else:
                    rr.fail(f.qual, f"`{unparse(par)[:80] if par is not None else unparse(n)}` hands out the internal sentinel `{n.func.attr}()`: callers receive an Instant whose `_is_valid` is False", ctx.loc(f, n))
    return rr


@rule("C08")
def r08_17_the_failed_result_is_the_one_converted(ctx: Ctx) -> RuleResult:
    """`ParseResult.convert_error(T)` re-types a FAILURE for another result type and raises RuntimeError when called on a success.
    In `if not r.success: return q.convert_error(T)` the converted result must be the one just found to have failed: converting
    the neighbouring (successful) result raises out of parse for exactly the texts whose other half is valid."""
    rr = RuleResult("R08.17", "a failure is propagated by converting the result whose failure was just tested (convert_error on the neighbouring, successful result raises RuntimeError)", min_instances=3)
    M = ctx.M
    for f in sorted(set(M.func_of_node.values()), key=lambda x: x.qual):
        if isinstance(f.node, ast.Lambda) or not f.mod.rel.startswith(TEXT):
            continue
        for n in own_nodes(f.node):
            if not (isinstance(n, ast.Call) and isinstance(n.func, ast.Attribute) and n.func.attr == "convert_error" and isinstance(n.func.value, ast.Name)):
                continue
            rr.inst()
            v = n.func.value.id
            facts = facts_at(n)
            failed = {a.split(".")[0] for a, op, b in facts if op == "falsy" and a.endswith(".success")}
            succeeded = {a.split(".")[0] for a, op, b in facts if op == "truthy" and a.endswith(".success")}
            if v in failed:
                rr.ok({"fn": f.qual, "converts": v})
            elif failed and v not in failed:
                rr.fail(f.qual, f"`{unparse(n)[:70]}` converts `{v}` on the path where `{sorted(failed)[0]}` has failed{' (and ' + v + ' succeeded)' if v in succeeded else ''}: convert_error on a successful result raises RuntimeError out of parse", ctx.loc(f, n))
            else:
                rr.ok()  # no success test on this path (the result is known to have failed by construction)
    return rr
