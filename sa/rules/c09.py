"""C09 - Date arithmetic and Period.between obey their stated laws in every calendar (structural clauses)."""
from __future__ import annotations

import ast
import re

from ..core import Ctx, RuleResult, anchor_files, rule
from ..dims import check_dispatch_arms, check_function_units
from ..kit import own_nodes
from ..model import UNKNOWN, AnalysisError, mangle, unparse


@rule("C09")
def r09_1_unit_dispatch(ctx: Ctx) -> RuleResult:
    rr = RuleResult("R09.1", "Period.between unit dispatch: each `case PeriodUnits.U` builds the result with from_U from a quantity measured in U", min_instances=22)
    f = ctx.M.func("Period.between")
    check_dispatch_arms(ctx, rr, f)
    return rr


@rule("C09")
def r09_1b_units(ctx: Ctx) -> RuleResult:
    rr = RuleResult("R09.1b", "no expression in the period/field code combines quantities of different units (constants A_PER_B, from_A/plus_A arguments, Period component keywords)", min_instances=30)
    files = anchor_files("C09")
    n = 0
    for f in sorted(ctx.M.funcs.values(), key=lambda x: x.qual):
        if f.mod.rel in files:
            k = check_function_units(ctx, rr, f)
            n += k
    rr.instances += n
    rr.nontrivial += n
    rr.proved += n - len(rr.findings)
    return rr


def _chain(t):
    """Unfold a nested method-call term recv.m1(..).m2(..) into ([m1, m2, ...], innermost receiver)."""
    names = []
    while isinstance(t, tuple) and t[0] == "call" and t[4] is not None:
        names.append((t[1].split(".")[-1], t[2]))
        t = t[4]
    names.reverse()
    return names, t


ORDER = ["plus_years", "plus_months", "plus_weeks", "plus_days"]


@rule("C09")
def r09_4_unit_order(ctx: Ctx) -> RuleResult:
    from ..terms import Store, TermEval, show, sym

    rr = RuleResult("R09.4", "a period is applied to a date as years, then months, then weeks, then days (time-unit day carry folded into the day step)", min_instances=4)
    M = ctx.M
    for q in ("LocalDate.__add__", "LocalDate.__sub__", "LocalDateTime.plus", "LocalDateTime.minus"):
        f = M.func(q)
        rr.inst()
        te = TermEval(M, ctx.R, f, inline_depth=0)
        init = Store({p.arg: sym(p.arg) for p in f.value_params})
        outs = te.run(init)
        chains = []
        for ret, st in outs:
            if ret is None:
                continue
            t = ret
            # LocalDateTime._ctor(local_date=<chain>, ...)
            if t[0] == "call" and t[1].endswith("LocalDateTime._ctor"):
                kw = dict(t[3])
                t = kw.get("local_date")
            names, recv = _chain(t) if t is not None else ([], None)
            ns = [n for n, _ in names]
            if any(n in ORDER for n in ns):
                chains.append((ns, recv, names))
        rr.states += len(outs)
        if not chains:
            rr.fail(q, "no application of date units found on any returning path", ctx.loc(f))
            continue
        bad = None
        for ns, recv, names in chains:
            if ns != ORDER:
                bad = f"date units are applied as {ns}, expected {ORDER}"
                break
            base = show(recv)
            if base not in ("self", "self.date", "self._LocalDateTime__date"):
                bad = f"the unit chain starts from `{base}`, not from the original date"
                break
        if bad:
            rr.fail(q, bad, ctx.loc(f))
        else:
            rr.ok({"fn": q, "order": ORDER, "paths": len(chains)})
    return rr


@rule("C09")
def r09_2_month_year_clamp(ctx: Ctx) -> RuleResult:
    """_add_months / _set_year of the regular calculators: the day written into the result is min(day, days_in_month(Y, M))
    for the very year and month that are written, on every returning path; the month is proved inside [1, months_in_year]."""
    from ..absint import Iv, Obj
    from ..oblig import interp
    from ..terms import Store, TermEval, show, sym

    rr = RuleResult("R09.2", "month/year arithmetic yields a valid month and clamps the day to the length of the resulting month", min_instances=4)
    M = ctx.M
    c = M.cls("_RegularYearMonthDayCalculator")
    for name in ("_add_months", "_set_year"):
        f = M.find_method(c, name)
        if f is None:
            raise AnalysisError(f"_RegularYearMonthDayCalculator.{name} missing")
        rr.inst()
        te = TermEval(M, ctx.R, f, inline_depth=0)
        outs = te.run(Store({p.arg: sym(p.arg) for p in f.value_params}))
        rr.states += len(outs)
        bad = None
        n_ctor = 0
        for ret, st in outs:
            if ret is None or not (ret[0] == "call" and ret[1].endswith("_YearMonthDay._ctor")):
                continue  # identity return (months == 0)
            n_ctor += 1
            kw = dict(ret[3])
            Y, Mo, Dy = kw.get("year"), kw.get("month"), kw.get("day")
            ok = False
            if Dy is not None and Dy[0] == "call" and Dy[1] == "min" and len(Dy[2]) == 2:
                for a, b in (Dy[2], Dy[2][::-1]):
                    if b[0] == "call" and b[1].endswith("_get_days_in_month") and tuple(b[2]) == (Y, Mo):
                        ok = True
            if not ok:
                bad = f"a returning path builds the result with day={show(Dy)} which is not min(day, days_in_month({show(Y)}, {show(Mo)}))"
                break
        if bad:
            rr.fail(f.qual, bad, ctx.loc(f))
        elif n_ctor == 0:
            rr.fail(f.qual, "no constructing path found", ctx.loc(f))
        else:
            rr.ok({"fn": f.qual, "constructing_paths": n_ctor})
    # month range per months_in_year instance (12 and 13)
    fld = mangle(c.name, "__months_in_year")
    f = M.find_method(c, "_add_months")
    for months in (12, 13):
        rr.inst()
        I = interp(ctx)
        seen = []

        def on_call(call, callee, bound, st, fn, seen=seen):
            if callee.qual == "_YearMonthDay._ctor" and "month" in bound:
                seen.append(bound["month"])

        I.on_call = on_call
        I.C.ret["_YearMonthDay._month"] = (1, months)
        ymd = Obj("_YearMonthDay", {"_month": Iv(1, months), "_day": Iv(1, 31)})
        I.analyse(f, self_obj=Obj(c.name, {fld: Iv(months, months)}), params={"year_month_day": ymd})
        rr.states += I.steps
        if seen and all(isinstance(v, Iv) and v.within(1, months) for v in seen):
            rr.ok({"months_in_year": months, "month_written": [repr(v) for v in seen]})
        else:
            rr.fail(f.qual, f"with {months} months per year the month written is not proved inside [1, {months}]: {seen}", ctx.loc(f))
    return rr


@rule("C09")
def r09_3_fast_path_bounds(ctx: Ctx) -> RuleResult:
    """The same-year fast path of day/week addition crosses at most one year boundary: with every calendar's year length in
    [Lmin, Lmax] (folded from all _get_days_in_year overrides) the day-of-year handed to the calculator is proved >= 1 and,
    after a forward crossing, <= Lmin."""
    from ..absint import INF, Iv, Obj
    from ..oblig import interp

    rr = RuleResult("R09.3", "day/week addition fast path: the threshold is below every calendar's shortest year, so the computed day-of-year is valid", min_instances=10)
    M = ctx.M
    base = M.func("_YearMonthDayCalculator._get_days_in_year")
    impls = [base] + M.overrides(base)
    lo, hi = INF, -INF
    # Hebrew year lengths come from molad arithmetic (number theory, not an interval fact): reviewed assumption, stated in the evidence
    HEBREW_ASSUMED = (353, 385)
    for g in impls:
        I = interp(ctx)
        if I._is_abstract(g):
            continue
        rr.inst()
        if g.cls is not None and g.cls.name == "_HebrewYearMonthDayCalculator":
            lo, hi = min(lo, HEBREW_ASSUMED[0]), max(hi, HEBREW_ASSUMED[1])
            rr.ok({"fn": g.qual, "year_length": list(HEBREW_ASSUMED), "basis": "assumed from the calendar's definition (353-355 / 383-385 days)"})
            rr.notes.append("assumption: Hebrew year length in [353, 385]")
            continue
        rets, _ = I.analyse(g)
        vals = [v for v, _ in rets]
        if not vals or not all(isinstance(v, Iv) and v.bounded for v in vals):
            rr.fail(g.qual, f"year length not bounded by abstract evaluation: {vals}", ctx.loc(g))
            continue
        lo, hi = min(lo, min(v.lo for v in vals)), max(hi, max(v.hi for v in vals))
        rr.ok({"fn": g.qual, "year_length": [repr(v) for v in vals]})
    if lo is INF:
        raise AnalysisError("no _get_days_in_year implementation could be bounded")
    f = M.func("_FixedLengthDatePeriodField.add")
    for unit in (1, 7):
        rr.inst()
        I = interp(ctx)
        I.C.ret["_YearMonthDayCalculator._get_days_in_year"] = (lo, hi)
        I.C.ret["_YearMonthDayCalculator._get_day_of_year"] = (1, hi)
        for g in impls:
            I.C.ret[g.qual] = (lo, hi)
        seen = []

        def on_call(call, callee, bound, st, fn, seen=seen):
            if callee.name == "_get_year_month_day" and "day_of_year" in bound:
                seen.append((bound["day_of_year"], I.pc_of(st)))

        I.on_call = on_call
        I.track_pc = True
        I.analyse(f, self_obj=Obj("_FixedLengthDatePeriodField", {mangle("_FixedLengthDatePeriodField", "__unit_days"): Iv(unit, unit)}))
        rr.states += I.steps
        bad = None
        if not seen:
            bad = "fast path construction not found"
        for v, pc in seen:
            if not (isinstance(v, Iv) and v.lo >= 1 and v.hi <= hi):
                bad = f"day-of-year handed to the calculator is {v}, not inside [1, {hi}] (shortest year {lo}, longest {hi})"
        if bad:
            rr.fail(f.qual, f"unit={unit} day(s): {bad}", ctx.loc(f))
        else:
            rr.ok({"unit_days": unit, "day_of_year": [repr(v) for v, _ in seen], "year_length_range": [lo, hi]})
    return rr


@rule("C09")
def r09_6_numeric_discipline(ctx: Ctx) -> RuleResult:
    from ..numeric import check_numeric

    rr = RuleResult("R09.6", "period normalisation/differences use truncating helpers (no floor operators on possibly negative totals, no float)", min_instances=1)
    check_numeric(ctx, rr, ["pyoda_time/_period.py", "pyoda_time/_period_builder.py", "pyoda_time/fields/_fixed_length_date_period_field.py", "pyoda_time/fields/_time_period_field.py"])
    return rr


@rule("C09")
def r09_7_calendar_retention(ctx: Ctx) -> RuleResult:
    from ..retention import check_retention

    rr = RuleResult("R09.7", "date arithmetic stays in the operand's calendar (no optional `calendar` dropped)", min_instances=5)
    files = anchor_files("C09")
    check_retention(ctx, rr, lambda f: f.mod.rel in files)
    return rr


@rule("C09")
def r09_8_sibling_arms_same_operands(ctx: Ctx) -> RuleResult:
    """Within one operand branch of Period.between every single-unit arm and the multi-unit computation measure between the same
    two operands (the end operand adjusted for the time-of-day borrow, where there is one)."""
    from ..kit import own_nodes

    rr = RuleResult("R09.8", "Period.between: in each operand branch every unit arm measures between the same (start, end) operands as its siblings and as the multi-unit path", min_instances=3)
    M = ctx.M
    f = M.func("Period.between")
    MEASURES = ("units_between", "_internal_days_between", "__date_components_between", "_Period__date_components_between")
    for m in [n for n in own_nodes(f.node) if isinstance(n, ast.Match)]:
        arms: list[tuple[str, tuple[str, ...], ast.AST]] = []
        for case in m.cases:
            for n in [x for s in case.body for x in ast.walk(s)]:
                if isinstance(n, ast.Call) and isinstance(n.func, ast.Attribute) and n.func.attr in MEASURES and len(n.args) >= 2:
                    arms.append((unparse(case.pattern)[:40], (unparse(n.args[0]), unparse(n.args[1])), n))
        if len(arms) < 2:
            continue
        # the multi-unit path: the next measuring call after the match statement in the same block
        par = getattr(m, "_parent", None)
        blk = next((getattr(par, fld) for fld in ("body", "orelse") if isinstance(getattr(par, fld, None), list) and m in getattr(par, fld)), [])
        after = [x for s in blk[blk.index(m) + 1:] for x in ast.walk(s)] if m in blk else []
        multi = next((n for n in after if isinstance(n, ast.Call) and isinstance(n.func, ast.Attribute) and n.func.attr in MEASURES and len(n.args) >= 2), None)
        ref = (unparse(multi.args[0]), unparse(multi.args[1])) if multi is not None else max({a[1] for a in arms}, key=lambda p: sum(1 for a in arms if a[1] == p))
        rr.inst()
        rr.states += len(arms)
        bad = [a for a in arms if a[1] != ref]
        if bad:
            rr.fail(f.qual, f"arm `case {bad[0][0]}` measures between ({bad[0][1][0]}, {bad[0][1][1]}) while its sibling arms and the multi-unit path use ({ref[0]}, {ref[1]}): the time-of-day adjustment of the end operand is lost for that unit", ctx.loc(f, bad[0][2]))
        else:
            rr.ok({"branch_operands": list(ref), "arms": len(arms)})
    return rr


@rule("C09")
def r09_9_hebrew_set_year_months(ctx: Ctx) -> RuleResult:
    """Changing the year of a Hebrew date keeps the month except for the two documented Adar moves; in particular a year of the
    same kind (leap / common) never changes the month.  Finite domain: (current leap?, target leap?, scriptural month)."""
    from ..absint import Iv, Obj
    from ..oblig import interp as mk

    rr = RuleResult("R09.9", "Hebrew year change: the month is kept except Adar II -> Adar into a common year and Adar (common year) -> Adar II into a leap year; a year of the same kind keeps every month (all 50 combinations of year kinds and months)", min_instances=40)
    M = ctx.M
    f = M.func("_HebrewYearMonthDayCalculator._set_year")
    scriptural = M.fold_class_const("HebrewMonthNumbering", "SCRIPTURAL")
    if not isinstance(scriptural, int):
        raise AnalysisError("HebrewMonthNumbering.SCRIPTURAL not foldable")
    LEAP = {5782: 1, 5784: 1, 5783: 0, 5785: 0}

    def is_leap(args, kws, recv):
        y = args[0] if args else kws.get("year")
        return Iv(LEAP[int(y.lo)], LEAP[int(y.lo)]) if isinstance(y, Iv) and y.const and int(y.lo) in LEAP else Iv(0, 1)

    def ymd_ctor(args, kws, recv):
        return Obj("_YearMonthDay", {"_year": kws.get("year", Iv(0, 0)), "_month": kws.get("month", Iv(0, 0)), "_day": kws.get("day", Iv(0, 0))})

    for cur in (5782, 5783):
        for tgt in (5784, 5785):
            for m in range(1, 14 if LEAP[cur] else 13):
                rr.inst()
                rr.states += 1
                I = mk(ctx)
                I.max_depth = 6
                I.stubs["_HebrewYearMonthDayCalculator._is_leap_year"] = is_leap
                I.stubs["_HebrewScripturalCalculator._is_leap_year"] = is_leap
                I.stubs["_HebrewScripturalCalculator._days_in_month"] = lambda a, k, r: Iv(30, 30)
                I.stubs["_YearMonthDay._ctor"] = ymd_ctor
                so = Obj("_HebrewYearMonthDayCalculator", {mangle("_HebrewYearMonthDayCalculator", "__month_numbering"): Iv(scriptural, scriptural), "$exact": Iv(1, 1)})
                ymd = Obj("_YearMonthDay", {"_year": Iv(cur, cur), "_month": Iv(m, m), "_day": Iv(15, 15)})
                rets, _ = I.analyse(f, self_obj=so, params={"year_month_day": ymd, "year": Iv(tgt, tgt)})
                want = m
                if m == 13 and not LEAP[tgt]:
                    want = 12
                elif m == 12 and LEAP[tgt] and not LEAP[cur]:
                    want = 13
                got = [v.fields.get("_month") for v, _ in rets if isinstance(v, Obj)]
                kinds = f"{'leap' if LEAP[cur] else 'common'} -> {'leap' if LEAP[tgt] else 'common'}"
                if got and all(isinstance(g, Iv) and g.const and g.lo == want for g in got):
                    rr.ok({"years": kinds, "month": m, "result_month": want})
                else:
                    rr.fail(f.qual, f"year change {kinds}, scriptural month {m}: result month {got}, the documented rule gives {want} (adding years does not keep the month / is not undone by subtracting them)", f.loc)
    return rr


@rule("C09")
def r09_10_overflow_bounds(ctx: Ctx) -> RuleResult:
    """Month / year / day arithmetic refuses results outside the calendar with OverflowError.  The year a result is tested against
    must be the range the calculator advertises (`_min_year` / `_max_year`, which every validation and conversion uses) - a bound
    taken from somewhere else (an internal table limit one larger) lets arithmetic produce dates that construction rejects."""
    from ..calendars import calculator_instances

    rr = RuleResult("R09.10", "overflow guards of date arithmetic test the year against the calculator's advertised _min_year / _max_year", min_instances=5)
    M = ctx.M
    inst_by_cls: dict[str, list] = {}
    for ci in calculator_instances(ctx):
        inst_by_cls.setdefault(ci.cls, []).append(ci)
    for f in sorted(set(M.func_of_node.values()), key=lambda x: x.qual):
        if isinstance(f.node, ast.Lambda) or not ("/calendars/" in f.mod.rel or "/fields/" in f.mod.rel):
            continue
        for n in own_nodes(f.node):
            if not (isinstance(n, ast.If) and any(isinstance(s, ast.Raise) and s.exc is not None and "OverflowError" in unparse(s.exc) for s in n.body)):
                continue
            cmps = [c for c in ast.walk(n.test) if isinstance(c, ast.Compare) and len(c.ops) == 1 and isinstance(c.ops[0], (ast.Lt, ast.Gt, ast.LtE, ast.GtE))]
            for c in cmps:
                if "year" not in unparse(c.left).lower():
                    continue
                rr.inst()
                b = c.comparators[0]
                lower = isinstance(c.ops[0], (ast.Lt, ast.LtE))
                want_attr = "_min_year" if lower else "_max_year"
                if isinstance(b, ast.Attribute) and b.attr == want_attr:
                    rr.ok({"fn": f.qual, "guard": unparse(c)})
                    continue
                v = M.fold(b, f.cls, f.mod)
                insts = [ci for k in (M.mro(f.cls) if f.cls else []) for ci in inst_by_cls.get(k.name, [])] if f.cls else []
                if f.cls is not None:
                    insts += [ci for name, lst in inst_by_cls.items() for ci in lst if M.cls(name, required=False) is not None and M.is_subclass(M.cls(name), f.cls.name) and ci not in insts]
                adv = {(ci.min_year if lower else ci.max_year) for ci in insts}
                if isinstance(v, int) and adv and adv == {v}:
                    rr.ok({"fn": f.qual, "guard": unparse(c), "bound": v, "advertised": v})
                else:
                    rr.fail(f.qual, f"overflow guard `{unparse(c)}` tests against `{unparse(b)}`" + (f" = {v}" if isinstance(v, int) else "") + f", not the calculator's advertised {want_attr}" + (f" ({sorted(adv)})" if adv else ""), ctx.loc(f, c))
    return rr


# ------------------------------------------------------------------------------------------- Hebrew month numbering kinds


@rule("C09")
def r09_11_hebrew_month_kinds(ctx: Ctx) -> RuleResult:
    """The Hebrew calculator juggles three month numberings: the instance's own ("calendar"), civil and scriptural.  Every month
    value gets a kind from where it comes from (a converter's result, the month of a date handed in, the scriptural helper's
    results) and every consumer expects one (the instance's own methods take calendar months, _HebrewScripturalCalculator takes
    scriptural months, each converter takes its source numbering).  A definite mismatch - e.g. a scriptural month handed to
    `self._get_days_in_month`, which converts it again - gives wrong month lengths in one of the two numberings only.
    Flow-sensitive per function (strong updates, both arms of branches); integer constants and month +/- constant keep the kind;
    unknown kinds are never reported."""
    rr = RuleResult("R09.11", "Hebrew calculator: every month value reaches consumers of its own numbering kind (calendar / civil / scriptural)", min_instances=12)
    M = ctx.M
    cls = M.cls("_HebrewYearMonthDayCalculator")
    scr = M.cls("_HebrewScripturalCalculator")
    RESULT = {"calendar_to_civil_month": "CIV", "calendar_to_scriptural_month": "SCR", "civil_to_calendar_month": "CAL", "scriptural_to_calendar_month": "CAL",
              "_scriptural_to_civil": "CIV", "_civil_to_scriptural": "SCR"}
    EXPECT = {"calendar_to_civil_month": "CAL", "calendar_to_scriptural_month": "CAL", "civil_to_calendar_month": "CIV", "scriptural_to_calendar_month": "SCR",
              "_scriptural_to_civil": "SCR", "_civil_to_scriptural": "CIV"}

    def short(fn_expr: ast.expr) -> str:
        return unparse(fn_expr).split(".")[-1].replace("_HebrewYearMonthDayCalculator__", "").lstrip("_") if unparse(fn_expr).split(".")[-1].startswith("__") else unparse(fn_expr).split(".")[-1]

    for f in sorted(cls.all_defs, key=lambda x: x.qual):
        if isinstance(f.node, ast.Lambda) or short(ast.Name(f.name)) in RESULT or f.name.strip("_") in RESULT:
            continue
        env: dict[str, str | None] = {}
        scr_objs: set[str] = set()
        for p in f.value_params:
            if p.arg == "month":
                env["month"] = "CAL"

        def kind(e: ast.expr, env: dict) -> str | None:
            if isinstance(e, ast.Name):
                return env.get(e.id)
            if isinstance(e, ast.Attribute) and e.attr == "_month" and isinstance(e.value, ast.Name):
                return "SCR" if e.value.id in scr_objs else "CAL"
            if isinstance(e, ast.Call):
                nm = short(e.func)
                if nm in RESULT:
                    return RESULT[nm]
                return None
            if isinstance(e, ast.BinOp) and isinstance(e.op, (ast.Add, ast.Sub)):
                if isinstance(e.right, ast.Constant):
                    return kind(e.left, env)
                if isinstance(e.left, ast.Constant) and isinstance(e.op, ast.Add):
                    return kind(e.right, env)
                # month arithmetic in one numbering stays in that numbering: months-in-year +/- a civil month count is civil
                a, b = kind(e.left, env), kind(e.right, env)
                if a is not None and (b is None or b == a):
                    return a
                if b is not None and a is None:
                    return b
            if isinstance(e, ast.IfExp):
                a, b = kind(e.body, env), kind(e.orelse, env)
                return a if a == b else None
            return None

        def exempt(n: ast.AST) -> bool:
            p = getattr(n, "_parent", None)
            while p is not None and p is not f.node:
                if isinstance(p, (ast.If, ast.IfExp)) and "month_numbering" in unparse(p.test):
                    return True
                p = getattr(p, "_parent", None)
            return False

        def check_calls(e: ast.AST, env: dict) -> None:
            for c in ast.walk(e):
                if not isinstance(c, ast.Call) or exempt(c):
                    continue
                nm = short(c.func)
                want, arg = None, None
                if nm in EXPECT and len(c.args) >= 2:
                    want, arg = EXPECT[nm], c.args[1]
                else:
                    tg, how = ctx.R.callees(c, f, count=False)
                    if how == "resolved" and len(tg) >= 1 and tg[0].cls is not None:
                        t = tg[0]
                        from ..kit import bind_args

                        b = bind_args(c, t)
                        pm = next((p.arg for p in t.value_params if p.arg in ("month", "scriptural_month", "month_of_year")), None)
                        if pm and pm in b:
                            if t.cls is scr:
                                want, arg = "SCR", b[pm]
                            elif t.cls is cls or t.cls in M.mro(cls):
                                want, arg = "CAL", b[pm]
                if want is None or arg is None:
                    continue
                got = kind(arg, env)
                rr.inst()
                if got is not None and got != want:
                    names = {"CAL": "calendar (instance numbering)", "CIV": "civil", "SCR": "scriptural"}
                    rr.fail(f.qual, f"`{unparse(c)[:80]}` is given a {names[got]} month `{unparse(arg)}` but takes a {names[want]} month", ctx.loc(f, c))
                else:
                    rr.ok({"fn": f.qual, "call": unparse(c)[:60], "kind": got or "unknown"})

        def block(body: list[ast.stmt], env: dict) -> dict:
            for s in body:
                if isinstance(s, (ast.Assign, ast.AnnAssign)) and getattr(s, "value", None) is not None:
                    check_calls(s.value, env)
                    t = s.targets[0] if isinstance(s, ast.Assign) else s.target
                    if isinstance(t, ast.Name):
                        if isinstance(s.value, ast.Call) and unparse(s.value.func).startswith("_HebrewScripturalCalculator._get_year_month_day"):
                            scr_objs.add(t.id)
                        k = kind(s.value, env)
                        if isinstance(s.value, ast.Constant) and t.id in env:
                            k = env[t.id]  # a literal month keeps the variable's numbering
                        env[t.id] = k
                elif isinstance(s, ast.AugAssign):
                    check_calls(s.value, env)
                    if isinstance(s.target, ast.Name) and not isinstance(s.value, ast.Constant):
                        k2 = kind(s.value, env)
                        env[s.target.id] = k2 if k2 is not None else env.get(s.target.id)
                elif isinstance(s, ast.If):
                    check_calls(s.test, env)
                    e1 = block(s.body, dict(env))
                    e2 = block(s.orelse, dict(env))
                    env = {k: (e1.get(k) if e1.get(k) == e2.get(k) else None) for k in set(e1) | set(e2)}
                elif isinstance(s, (ast.While, ast.For)):
                    check_calls(s.test if isinstance(s, ast.While) else s.iter, env)
                    e1 = block(s.body, dict(env))
                    env = {k: (env.get(k) if env.get(k) == e1.get(k) else None) for k in set(env) | set(e1)}
                elif isinstance(s, (ast.Return, ast.Expr)) and s.value is not None:
                    check_calls(s.value, env)
                elif isinstance(s, ast.Raise) and s.exc is not None:
                    check_calls(s.exc, env)
            return env

        block(f.body, env)
    return rr


@rule("C09")
def r09_cfp_calendar_free_productions(ctx: Ctx) -> RuleResult:
    from ..retention import check_calendar_free_productions

    rr = RuleResult("R09.cfp", "no calendar-bearing result is assembled from calendar-free pieces (day number, instant, local instant) while a calendar-bearing value is in hand", min_instances=100)
    check_calendar_free_productions(ctx, rr)
    return rr


@rule("C09")
def r09_12_months_between_is_checked_by_addition(ctx: Ctx) -> RuleResult:
    """`_months_between(start, end)` must return the largest n with start + n months not past end.  Because `_add_months` clamps the
    day to the target month's length, the estimate cannot be corrected from the day numbers of start and end alone: every
    implementation has to perform the addition it is the inverse of and compare its result with `end`.  Checked structurally: a
    call `self._add_months(start, <estimate>)` exists, and every returned value is control-dependent on a comparison between that
    call's result and `end`.  Calculators that override `compare` (month numbering differs from chronological order) must use it
    for every ordering of two year-month-day values: the naive `<`, `<=` on packed values are wrong there."""
    from ..kit import result_influences

    rr = RuleResult("R09.12", "months_between validates its estimate by performing the month addition and comparing with end; calculators with their own ordering never use the naive comparison operators", min_instances=4)
    M = ctx.M
    base = M.cls("_YearMonthDayCalculator")
    for c in sorted(M.all_classes(), key=lambda x: x.qual):
        if not M.is_subclass(c, "_YearMonthDayCalculator") or c is base:
            continue
        f = c.methods.get("_months_between")
        if f is not None and not any(isinstance(n, ast.Raise) and "NotImplementedError" in unparse(n) for n in own_nodes(f.node)):
            rr.inst()
            ps = [p.arg for p in f.value_params]
            # the probe may live in a local helper of the function (e.g. one that also catches the overflow of an overshoot)
            adds = [n for n in ast.walk(f.node) if isinstance(n, ast.Call) and isinstance(n.func, ast.Attribute) and n.func.attr == "_add_months" and n.args and isinstance(n.args[0], ast.Name) and n.args[0].id == ps[0]]
            helpers = {d.name: d for d in ast.walk(f.node) if isinstance(d, ast.FunctionDef) and d is not f.node and any(a in list(ast.walk(d)) for a in adds)}
            if not adds:
                rr.fail(f.qual, f"never performs `_add_months({ps[0]}, ...)`: the estimate is corrected without the clamped addition it has to be the inverse of", ctx.loc(f))
            else:
                # the addition's result (directly or through a local) must be compared with `end` in a test
                holders = set()
                for a in adds:
                    p = getattr(a, "_parent", None)
                    if isinstance(p, (ast.Assign, ast.AnnAssign)):
                        t = p.targets[0] if isinstance(p, ast.Assign) else p.target
                        if isinstance(t, ast.Name):
                            holders.add(t.id)
                tests = [n.test for n in own_nodes(f.node) if isinstance(n, (ast.If, ast.While, ast.IfExp))]
                ok = False
                for t in tests:
                    names = {x.id for x in ast.walk(t) if isinstance(x, ast.Name)}
                    has_add = bool(names & holders) or any(x in adds for x in ast.walk(t))
                    for x in ast.walk(t):
                        if isinstance(x, ast.Call) and isinstance(x.func, ast.Name) and x.func.id in helpers:
                            has_add = True
                            names |= {y.id for y in ast.walk(helpers[x.func.id]) if isinstance(y, ast.Name)}
                    if has_add and ps[1] in names:
                        ok = True
                if ok:
                    rr.ok({"fn": f.qual, "additions": len(adds)})
                else:
                    rr.fail(f.qual, f"performs the addition but never compares its result with `{ps[1]}` in a test that decides the answer", ctx.loc(f, adds[0]))
        if "compare" in c.methods:
            # own ordering: naive operators on _YearMonthDay values are forbidden in this class
            for g in c.all_defs:
                if isinstance(g.node, ast.Lambda):
                    continue
                ymd = {p.arg for p in g.value_params if p.annotation is not None and unparse(p.annotation).strip("'\"") == "_YearMonthDay"}
                for n in own_nodes(g.node):
                    if isinstance(n, (ast.Assign, ast.AnnAssign)) and getattr(n, "value", None) is not None and isinstance(n.value, ast.Call) and unparse(n.value.func).split(".")[-1] in ("_add_months", "_set_year", "_get_year_month_day"):
                        t = n.targets[0] if isinstance(n, ast.Assign) else n.target
                        if isinstance(t, ast.Name):
                            ymd.add(t.id)
                for n in own_nodes(g.node):
                    if isinstance(n, ast.Compare) and any(isinstance(o, (ast.Lt, ast.LtE, ast.Gt, ast.GtE)) for o in n.ops):
                        operands = [n.left, *n.comparators]
                        if sum(1 for o in operands if isinstance(o, ast.Name) and o.id in ymd) >= 2:
                            rr.inst()
                            rr.fail(g.qual, f"`{unparse(n)}` orders two year-month-day values with the naive operator although {c.name} defines its own `compare` (month numbers are not in chronological order here)", ctx.loc(g, n))
            rr.inst()
            rr.ok({"class": c.qual, "ordering": "own compare; no naive operator on year-month-day values"})
    # package-wide (type-resolved): the naive operators on two _YearMonthDay values are legitimate only inside calculators that
    # keep the default `compare` (month numbers in chronological order); everywhere else - period fields, value types - ordering
    # must go through the calendar (`LocalDate` operators / `calendar._compare`), or Hebrew scriptural dates are mis-ordered
    for g in sorted(set(M.func_of_node.values()), key=lambda x: x.qual):
        if isinstance(g.node, ast.Lambda) or "_compatibility" in g.mod.rel:
            continue
        if g.cls is not None and (g.cls.name == "_YearMonthDay" or (M.is_subclass(g.cls, "_YearMonthDayCalculator") and "compare" not in g.cls.methods)):
            continue
        sc = ctx.R.scope(g)
        for n in own_nodes(g.node):
            if isinstance(n, ast.Compare) and any(isinstance(o, (ast.Lt, ast.LtE, ast.Gt, ast.GtE)) for o in n.ops):
                ts = []
                for o in [n.left, *n.comparators]:
                    try:
                        ts.append(ctx.R.type_of(o, sc))
                    except Exception:  # noqa: BLE001
                        ts.append(None)
                if sum(1 for t in ts if t == "_YearMonthDay") >= 2:
                    rr.inst()
                    rr.fail(g.qual, f"`{unparse(n)}` orders two raw year-month-day values outside a calculator: month numbers are not chronological in every calendar (Hebrew scriptural), the comparison has to go through the calendar", ctx.loc(g, n))
    return rr


@rule("C09")
def r09_13_unit_groups(ctx: Ctx) -> RuleResult:
    """A Period has six time units (hours, minutes, seconds, milliseconds, ticks, nanoseconds) and four date units (years,
    months, weeks, days).  Code that walks a period unit by unit - has_time_component, equality, addition, applying a period to a
    date/time, the builder - must not skip one: a function that reads at least four of the six time units (three of the four date
    units) of one object reads all of them.  (ticks is the unit that gets forgotten: it has no counterpart in most APIs.)"""
    rr = RuleResult("R09.13", "unit-by-unit code covers the whole unit group: four or more time units read of one object means all six, three or more date units means all four", min_instances=20)
    TIME = ["hours", "minutes", "seconds", "milliseconds", "ticks", "nanoseconds"]
    DATE = ["years", "months", "weeks", "days"]
    for f in sorted(set(ctx.M.func_of_node.values()), key=lambda x: x.qual):
        if isinstance(f.node, ast.Lambda) or "_compatibility" in f.mod.rel:
            continue
        per: dict[str, set[str]] = {}
        for x in own_nodes(f.node):
            if isinstance(x, ast.Attribute):
                a = re.sub(r"^_[A-Za-z]+__", "", x.attr).lstrip("_")
                if a in TIME + DATE:
                    per.setdefault(unparse(x.value), set()).add(a)
        # tuples / any(...) over the units count as reads of the same object too (they are attribute reads)
        for base, rd in sorted(per.items()):
            t = [u for u in TIME if u in rd]
            d = [u for u in DATE if u in rd]
            if len(t) >= 4:
                rr.inst()
                miss = [u for u in TIME if u not in rd]
                if miss:
                    rr.fail(f.qual, f"reads the time units {t} of `{base}` but not {miss}: a period whose only non-zero time unit is {miss[0]} is treated as having none", ctx.loc(f))
                else:
                    rr.ok()
            if len(d) >= 3:
                rr.inst()
                miss = [u for u in DATE if u not in rd]
                if miss:
                    rr.fail(f.qual, f"reads the date units {d} of `{base}` but not {miss}", ctx.loc(f))
                else:
                    rr.ok()
    return rr


# ------------------------------------------------------------------------------------------- R09.14 PeriodUnits composites


@rule("C09")
def r09_14_period_unit_sets(ctx: Ctx) -> RuleResult:
    """PeriodUnits is a flag set; Period.between walks the single units that are in the requested set and leaves the rest of the
    difference unreported.  The named combinations must contain exactly the units their documentation lists, or the default
    `Period.between(ldt1, ldt2)` silently drops a remainder (start + between(start, end) != end)."""
    from ..kit import eval_int_expr

    rr = RuleResult("R09.14", "PeriodUnits: single units are distinct powers of two in declaration order and every named combination is exactly the documented union (ALL_* / DATE_AND_TIME / YEAR_MONTH_DAY / HOUR_MINUTE_SECOND)", min_instances=7)
    M = ctx.M
    c = M.cls("PeriodUnits")
    env: dict[str, int] = {}
    order: list[str] = []
    for s in c.node.body:
        if isinstance(s, ast.Assign) and len(s.targets) == 1 and isinstance(s.targets[0], ast.Name):
            v = eval_int_expr(s.value, env, lambda e: None)
            if v is None:
                raise AnalysisError(f"PeriodUnits.{s.targets[0].id}: value not evaluable")
            env[s.targets[0].id] = v
            order.append(s.targets[0].id)
    singles = [n for n in order if env[n] and env[n] & (env[n] - 1) == 0]
    rr.inst()
    if [env[n] for n in singles] == [1 << i for i in range(len(singles))] and len(singles) == 10:
        rr.ok({"single units": singles})
    else:
        rr.fail(c.qual, f"single units are not 10 distinct consecutive powers of two in declaration order: {[(n, env[n]) for n in singles]}", f"{c.mod.rel}:{c.node.lineno}")
    date_units = ["YEARS", "MONTHS", "WEEKS", "DAYS"]
    time_units = ["HOURS", "MINUTES", "SECONDS", "MILLISECONDS", "TICKS", "NANOSECONDS"]

    def union(names: list[str]) -> int:
        out = 0
        for n in names:
            if n not in env:
                raise AnalysisError(f"PeriodUnits.{n} missing")
            out |= env[n]
        return out

    spec = {
        "NONE": 0,
        "ALL_DATE_UNITS": union(date_units),
        "YEAR_MONTH_DAY": union(["YEARS", "MONTHS", "DAYS"]),
        "HOUR_MINUTE_SECOND": union(["HOURS", "MINUTES", "SECONDS"]),
        "ALL_TIME_UNITS": union(time_units),
        "DATE_AND_TIME": union(["YEARS", "MONTHS", "DAYS"] + time_units),
        "ALL_UNITS": union(date_units + time_units),
    }
    for name, want in spec.items():
        rr.inst()
        got = env.get(name)
        if got == want:
            rr.ok({name: got})
        else:
            missing = [n for n in singles if want & env[n] and not (got or 0) & env[n]]
            extra = [n for n in singles if (got or 0) & env[n] and not want & env[n]]
            rr.fail(c.qual, f"PeriodUnits.{name} = {got}: missing {missing}, unexpected {extra} (documented union is {want})", f"{c.mod.rel}:{c.node.lineno}")
    return rr


# ------------------------------------------------------------------------------------------- R09.15 month addition is linear


@rule("C09")
def r09_15_month_addition_is_linear(ctx: Ctx) -> RuleResult:
    """In a calendar whose years all have M months, adding k months moves the linear month index year * M + (month - 1) by exactly k
    and leaves a month number in 1..M.  `_add_months` of every such calculator is evaluated by the abstract interpreter on exact
    values (first / middle / last month, k up to several years either way, including every k that lands on month M or month 1)
    and compared with that arithmetic.  (The Hebrew calendars have 12 or 13 months per year; they are decided by R09.11 / R09.12.)"""
    from ..absint import Iv, Obj
    from ..calendars import calculator_instances
    from ..oblig import interp

    rr = RuleResult("R09.15", "month addition moves the linear month index by exactly the number of months and yields a month in 1..months-per-year, for every calculator with a fixed number of months per year (abstract evaluation)", min_instances=8)
    M = ctx.M
    done = set()
    for ci in calculator_instances(ctx):
        if ci.cls in done or ci.cls == "_HebrewYearMonthDayCalculator":
            continue
        done.add(ci.cls)
        cls = M.cls(ci.cls)
        f = M.find_method(cls, "_add_months")
        fm = M.find_method(cls, "_get_months_in_year")
        if f is None or fm is None:
            raise AnalysisError(f"{ci.cls}: _add_months / _get_months_in_year missing")
        so = Obj(ci.cls, dict(ci.obj.fields))
        y0 = (ci.min_year + ci.max_year) // 2
        I = interp(ctx)
        rets, _ = I.analyse(fm, self_obj=so, params={fm.value_params[0].arg: Iv(y0, y0)})
        ms = {int(v.lo) for v, _x in rets if isinstance(v, Iv) and v.lo == v.hi}
        if len(ms) != 1:
            rr.inst()
            rr.undecided.append(f"{ci.cls}: months per year not constant")
            continue
        mpy = ms.pop()
        rr.inst()
        bad = None
        n = 0
        box: list = []
        stubs = {"_YearMonthDay._ctor": (lambda a, k, r: (box.append((k.get("year"), k.get("month"), k.get("day"))), Obj("_YearMonthDay", {"_year": k.get("year"), "_month": k.get("month"), "_day": k.get("day")}))[1])}
        ks = sorted(set(range(-2 * mpy - 2, 2 * mpy + 3)) | {3 * mpy, 3 * mpy - 1, 4 * mpy, -3 * mpy, -4 * mpy + 1, 5 * mpy + 7})
        for m in (1, 2, mpy // 2, mpy - 1, mpy):
            for k in ks:
                if k == 0:
                    continue
                box.clear()
                I = interp(ctx)
                I.max_depth = 6
                I.stubs = stubs
                ymd = Obj("_YearMonthDay", {"_year": Iv(y0, y0), "_month": Iv(m, m), "_day": Iv(1, 1)})
                I.analyse(f, self_obj=so, params={f.value_params[0].arg: ymd, f.value_params[1].arg: Iv(k, k)})
                rr.states += 1
                n += 1
                got = {(int(a.lo), int(b.lo)) for a, b, _c in box if isinstance(a, Iv) and isinstance(b, Iv) and a.lo == a.hi and b.lo == b.hi}
                idx = y0 * mpy + (m - 1) + k
                want = (idx // mpy, idx % mpy + 1)
                if got != {want}:
                    bad = bad or (m, k, sorted(got), want)
        if bad is None:
            rr.ok({"calculator": ci.cls, "months per year": mpy, "additions evaluated": n})
        else:
            rr.fail(f.qual, f"{ci.cls}: ({y0}, month {bad[0]}) + {bad[1]} months gives (year, month) {bad[2]}, the linear month index gives {bad[3]}", ctx.loc(f))
    return rr


# ------------------------------------------------------------------------------------------- R09.16 range check before table lookups


def _year_indexed_lookup(M, h, depth: int) -> str | None:
    """A subscript whose index is computed from the `year` parameter of h (or of a same-class callee that receives it), i.e. a
    per-year table lookup that only has entries for the calendar's own years."""
    ys = {p.arg for p in h.value_params if p.arg == "year"}
    if not ys or isinstance(h.node, ast.Lambda):
        return None
    for n in own_nodes(h.node):
        if isinstance(n, ast.Subscript) and isinstance(n.ctx, ast.Load) and any(isinstance(x, ast.Name) and x.id in ys for x in ast.walk(n.slice)):
            return unparse(n)[:60]
    if depth < 2 and h.cls is not None:
        for n in own_nodes(h.node):
            if isinstance(n, ast.Call) and isinstance(n.func, ast.Attribute) and isinstance(n.func.value, ast.Name) and n.func.value.id in ("self", "cls") and any(isinstance(a, ast.Name) and a.id in ys for a in n.args):
                k = M.find_method(h.cls, mangle(h.cls.name, n.func.attr)) or M.find_method(h.cls, n.func.attr)
                if k is not None and k is not h:
                    r = _year_indexed_lookup(M, k, depth + 1)
                    if r is not None:
                        return r
    return None


@rule("C09")
def r09_16_year_checked_before_it_is_looked_up(ctx: Ctx) -> RuleResult:
    """Month / year arithmetic computes a target year and reports a result outside the calendar with OverflowError
    (`if year < min_year or year > max_year: raise OverflowError`).  A calculator query made with that year BEFORE the guard is only
    harmless if no implementation of the query can fail for an out-of-range year: calculators that keep per-year tables (Um Al
    Qura, Persian astronomical) raise KeyError / IndexError from the table instead, so `plus_months` two or more years beyond the
    range leaks the wrong exception type.  Every override of the queried method (and the same-class helpers it hands the year to)
    is searched for a subscript indexed by the year."""

    rr = RuleResult("R09.16", "in date arithmetic the computed year is range-checked before it is handed to a calculator query that can fail for years outside the calendar (every override of the query considered)", min_instances=2)
    M = ctx.M
    for f in sorted(set(M.func_of_node.values()), key=lambda x: x.qual):
        if isinstance(f.node, ast.Lambda) or f.cls is None or "/calendars/" not in "/" + f.mod.rel:
            continue
        for g in own_nodes(f.node):
            if not (isinstance(g, ast.If) and any(isinstance(x, ast.Raise) and "OverflowError" in unparse(x) for x in g.body) and "_min_year" in unparse(g.test) and "_max_year" in unparse(g.test)):
                continue
            vs = {x.id for x in ast.walk(g.test) if isinstance(x, ast.Name) and x.id not in ("self", "cls")}
            if len(vs) != 1:
                continue
            v = vs.pop()
            rr.inst()
            bad = None
            for c in own_nodes(f.node):
                if isinstance(c, ast.Call) and isinstance(c.func, ast.Attribute) and isinstance(c.func.value, ast.Name) and c.func.value.id == "self" and c.lineno < g.lineno \
                        and any(isinstance(a, ast.Name) and a.id == v for a in c.args):
                    # every implementation of the queried method in the subclasses of this class (and the class itself)
                    impls = []
                    for lst in M.classes.values():
                        for k in lst:
                            if k is f.cls or M.is_subclass(k, f.cls.name):
                                h = k.methods.get(c.func.attr) or k.methods.get(mangle(k.name, c.func.attr))
                                if h is not None and not isinstance(h.node, ast.Lambda):
                                    impls.append(h)
                    for h in impls:
                        lk = _year_indexed_lookup(M, h, 0)
                        if lk is not None:
                            bad = bad or (c, h, [lk])
            if bad is None:
                rr.ok({"function": f.qual, "year": v})
            else:
                c, h, leaks = bad
                rr.fail(f.qual, f"`{unparse(c)[:70]}` is evaluated before `{v}` is checked against the calendar's year range, and {h.qual} looks the year up in a per-year table (`{leaks[0]}`): a result two or more years outside the calendar surfaces as KeyError / IndexError instead of OverflowError", ctx.loc(f, c))
    return rr


# ------------------------------------------------------------------------------------------- R09.17 computed results overflow, arguments are invalid


@rule("C09")
def r09_17_computed_values_overflow(ctx: Ctx) -> RuleResult:
    """Date arithmetic signals a RESULT outside the calendar with OverflowError; ValueError is for invalid ARGUMENTS.  Callers rely
    on the distinction (the text layer turns the OverflowError of `24:00 on the last day` into a failed ParseResult and lets
    everything else through).  In the period fields and the calculators' add / between functions, the argument-range helper
    (`_check_argument_range`, which raises ValueError) must therefore never be applied to a local that the function has computed
    (assigned or stepped after entry): that is a result, and its check raises OverflowError."""
    rr = RuleResult("R09.17", "date arithmetic never range-checks a computed value with the argument checker (ValueError): results outside the calendar raise OverflowError", min_instances=10)
    M = ctx.M
    for f in sorted(set(M.func_of_node.values()), key=lambda x: x.qual):
        if isinstance(f.node, ast.Lambda) or not (f.mod.rel.startswith("pyoda_time/fields/") or (f.mod.rel.startswith("pyoda_time/calendars/") and f.name.lstrip("_").startswith(("add_", "months_between", "years_between", "set_year")))):
            continue
        rr.inst()
        computed = {t.id for n in own_nodes(f.node) if isinstance(n, (ast.Assign, ast.AugAssign, ast.AnnAssign)) for t in (n.targets if isinstance(n, ast.Assign) else [n.target]) if isinstance(t, ast.Name)}
        bad = None
        for n in own_nodes(f.node):
            if isinstance(n, ast.Call) and unparse(n.func).endswith("_check_argument_range") and len(n.args) >= 2 and isinstance(n.args[1], ast.Name) and n.args[1].id in computed:
                bad = n
        if bad is None:
            rr.ok()
        else:
            rr.fail(f.qual, f"`{unparse(bad)[:80]}` applies the argument checker (ValueError) to the computed `{bad.args[1].id}`: a result outside the calendar must raise OverflowError, which callers catch", ctx.loc(f, bad))
    return rr


# ------------------------------------------------------------------------------------------- R09.18 overshoot probes stay inside the calendar


@rule("C09")
def r09_18_overshoot_probes_are_caught(ctx: Ctx) -> RuleResult:
    """`_months_between` answers "how many whole months from start to end" for two dates INSIDE the calendar, so it always has an
    answer.  Implementations that search for it (the Hebrew calendars: estimate, then step until the addition overshoots `end`)
    probe `start + n months` for an n that lands BEYOND `end` by construction; when `end` lies in the last (first) month of the
    calendar that probe is outside the calendar and `_add_months` raises OverflowError.  Every `_add_months` probe in a loop
    condition of a `_months_between` must therefore run under a handler for OverflowError (directly or inside the local helper
    that the condition calls); implementations that add exactly the month difference (target month = end's month) do not loop."""
    rr = RuleResult("R09.18", "searching implementations of _months_between catch the OverflowError of their overshoot probes (Period.between has an answer for every pair of dates in the calendar)", min_instances=2)
    M = ctx.M
    for f in sorted(set(M.func_of_node.values()), key=lambda x: x.qual):
        if isinstance(f.node, ast.Lambda) or f.name != "_months_between" or "/calendars/" not in "/" + f.mod.rel:
            continue
        body_nodes = [n for n in ast.walk(f.node)]
        loops = [n for n in body_nodes if isinstance(n, ast.While)]
        rr.inst()
        if not loops:
            rr.ok({"implementation": f.qual, "kind": "direct (no search loop)"})
            continue

        def guarded(call: ast.Call) -> bool:
            p = getattr(call, "_parent", None)
            ch: ast.AST = call
            while p is not None:
                if isinstance(p, ast.Try) and any(ch is s or any(ch is x for x in ast.walk(s)) for s in p.body):
                    for h in p.handlers:
                        names = [unparse(x) for x in (h.type.elts if isinstance(h.type, ast.Tuple) else [h.type])] if h.type is not None else ["BaseException"]
                        if any(nm.split(".")[-1] in ("OverflowError", "ArithmeticError", "Exception", "BaseException") for nm in names):
                            return True
                ch, p = p, getattr(p, "_parent", None)
            return False

        local_defs = {n.name: n for n in body_nodes if isinstance(n, ast.FunctionDef) and n is not f.node}
        bad = None
        for w in loops:
            for c in ast.walk(w.test):
                if not isinstance(c, ast.Call):
                    continue
                if isinstance(c.func, ast.Attribute) and c.func.attr == "_add_months" and not guarded(c):
                    bad = bad or c
                if isinstance(c.func, ast.Name) and c.func.id in local_defs:
                    for d in ast.walk(local_defs[c.func.id]):
                        if isinstance(d, ast.Call) and isinstance(d.func, ast.Attribute) and d.func.attr == "_add_months" and not guarded(d):
                            bad = bad or d
        if bad is None:
            rr.ok({"implementation": f.qual, "kind": "search; overshoot probes caught"})
        else:
            rr.fail(f.qual, f"the search loop probes `{unparse(bad)[:60]}` beyond `end` without catching OverflowError: Period.between(..., MONTHS) raises when `end` lies in the last (or first) month of the calendar", ctx.loc(f, bad))
    return rr
