"""C19 - Clocks follow their simple model under any sequence of operations (structural clauses)."""
from __future__ import annotations

import ast

from ..core import Ctx, RuleResult, rule
from ..kit import inside, lock_regions, own_nodes, stores_in
from ..locks import check_lockset, check_reentrancy, field_accesses
from ..model import mangle, unparse
from ..terms import Store, TermEval, show, sym

UNITS = ["nanoseconds", "ticks", "microseconds", "milliseconds", "seconds", "minutes", "hours", "days", "weeks"]


@rule("C19")
def r19_1_no_self_deadlock(ctx: Ctx) -> RuleResult:
    rr = RuleResult("R19.1", "no call under FakeClock's non-reentrant lock re-acquires it", min_instances=4)
    from ..locks import check_lock_discipline

    cls = ctx.M.cls("FakeClock")
    check_reentrancy(ctx, cls, rr)
    check_lock_discipline(ctx, cls, rr)
    # every public operation that touches the guarded state is an instance even when it takes the lock some other way
    return rr


@rule("C19")
def r19_2_lockset(ctx: Ctx) -> RuleResult:
    rr = RuleResult("R19.2", "FakeClock state is touched only under its lock; read-advance-return is one region", min_instances=6)
    cls = ctx.M.cls("FakeClock")
    lockf = mangle("FakeClock", "__lock")
    guarded = {mangle("FakeClock", "__now"), mangle("FakeClock", "__auto_advance")}
    for g in guarded:
        if not any(s.target.endswith("." + g) for f in cls.all_defs for s in stores_in(f)):
            from ..model import AnalysisError

            raise AnalysisError(f"FakeClock field {g} is never stored: anchor vanished")
    check_lockset(ctx, cls, lockf, guarded, rr)
    # get_current_instant: all accesses inside ONE region and the return inside the same region
    f = ctx.M.find_method(cls, "get_current_instant")
    if f is None:
        from ..model import AnalysisError

        raise AnalysisError("FakeClock.get_current_instant missing")
    regs = [r for r in lock_regions(f) if r.lock.split(".")[-1] == lockf]
    acc = field_accesses(f, guarded)
    rr.inst()
    holders = {id(r.node) for r in regs for (n, _) in acc if inside(n, r.node)}
    rets = [n for n in own_nodes(f.node) if isinstance(n, ast.Return)]
    if len(holders) > 1:
        rr.fail(f.qual, "reads and advances the current instant in more than one lock region (not atomic)", ctx.loc(f))
    elif regs and not all(any(inside(r, g.node) for g in regs) for r in rets) and len(acc) > 0:
        # returning outside is fine only if the value was read inside; the shape rule R19.3 checks the value
        rr.ok()
    else:
        rr.ok({"fn": f.qual, "regions": len(regs), "accesses": len(acc)})
    return rr


@rule("C19")
def r19_3_model_shape(ctx: Ctx) -> RuleResult:
    rr = RuleResult("R19.3", "FakeClock operations have the model's effect on (now, auto_advance)", min_instances=11)
    M = ctx.M
    cls = M.cls("FakeClock")
    NOW, AUTO = "self." + mangle("FakeClock", "__now"), "self." + mangle("FakeClock", "__auto_advance")
    N0, A0 = sym("NOW0"), sym("AUTO0")

    def run(name: str, setter: bool = False):
        f = cls.setters.get(name) if setter else M.find_method(cls, name)
        if f is None:
            from ..model import AnalysisError

            raise AnalysisError(f"FakeClock.{name} missing")
        init = Store({NOW: N0, AUTO: A0})
        for p in f.value_params:
            init = init.set(p.arg, sym(p.arg))
        te = TermEval(M, ctx.R, f)
        outs = te.run(init)
        rr.states += len(outs)
        return f, outs

    def plus(a, b):
        return {("bin", "+", a, b), ("bin", "+", b, a)}

    def expect(f, outs, want_now, want_auto, want_ret, label):
        rr.inst()
        if len(outs) != 1:
            rr.fail(f.qual, f"{label}: expected a single straight-line outcome, found {len(outs)} path outcomes", ctx.loc(f))
            return
        ret, st = outs[0]
        now, auto = st.get(NOW), st.get(AUTO)
        probs = []
        if now not in want_now:
            probs.append(f"now becomes {show(now)}, model says {show(sorted(want_now, key=repr)[0])}")
        if auto not in want_auto:
            probs.append(f"auto_advance becomes {show(auto)}, model says {show(sorted(want_auto, key=repr)[0])}")
        if want_ret is not None and ret not in want_ret:
            probs.append(f"returns {show(ret)}, model says {show(sorted(want_ret, key=repr)[0])}")
        if probs:
            rr.fail(f.qual, f"{label}: " + "; ".join(probs), ctx.loc(f))
        else:
            rr.ok({"op": f.qual, "now'": show(now), "auto'": show(auto), "ret": show(ret) if ret is not None else None})

    f, outs = run("advance")
    p = f.value_params[0].arg
    expect(f, outs, plus(N0, sym(p)), {A0}, None, "advance(d)")
    f, outs = run("reset")
    p = f.value_params[0].arg
    expect(f, outs, {sym(p)}, {A0}, None, "reset(i)")
    f, outs = run("get_current_instant")
    expect(f, outs, plus(N0, A0), {A0}, {N0}, "get_current_instant()")
    f, outs = run("auto_advance")
    expect(f, outs, {N0}, {A0}, {A0}, "auto_advance getter")
    f, outs = run("auto_advance", setter=True)
    p = f.value_params[0].arg
    expect(f, outs, {N0}, {sym(p)}, None, "auto_advance setter")
    # advance_<unit>(a)  ==  advance(Duration.from_<unit>(a))
    n_units = 0
    for name, g in sorted(cls.methods.items()):
        if not name.startswith("advance_"):
            continue
        unit = name[len("advance_"):]
        if unit not in UNITS:
            continue
        n_units += 1
        f, outs = run(name)
        p = f.value_params[0].arg
        factory = M.func(f"Duration.from_{unit}")
        want = ("call", factory.qual, (sym(p),), (), None)
        # receiver term of a classmethod call is irrelevant: compare ignoring receiver
        rr.inst()
        if len(outs) != 1:
            rr.fail(f.qual, f"expected one outcome, found {len(outs)}", ctx.loc(f))
            continue
        ret, st = outs[0]
        now = st.get(NOW)
        ok = False
        if now is not None and now[0] == "bin" and now[1] == "+":
            for a, b in ((now[2], now[3]), (now[3], now[2])):
                if a == N0 and b[0] == "call" and b[1] == factory.qual and b[2] == (sym(p),) and not b[3]:
                    ok = True
        if ok and st.get(AUTO) == A0:
            rr.ok({"op": f.qual, "now'": show(now)})
        else:
            rr.fail(f.qual, f"advance_{unit}({p}) must add Duration.from_{unit}({p}) to now; now becomes {show(now)}", ctx.loc(f))
    if n_units < 7:
        from ..model import AnalysisError

        raise AnalysisError(f"only {n_units} advance_<unit> methods found (7 confirmed)")
    return rr


@rule("C19")
def r19_4_zoned_and_system_clock(ctx: Ctx) -> RuleResult:
    rr = RuleResult("R19.4", "ZonedClock views derive from its clock/zone/calendar; SystemClock reads the OS nanosecond clock", min_instances=7)
    M = ctx.M
    zc = M.cls("ZonedClock")
    CLK, ZONE, CAL = ("self." + mangle("ZonedClock", x) for x in ("__clock", "__zone", "__calendar"))
    init = Store({CLK: sym("CLOCK"), ZONE: sym("ZONE"), CAL: sym("CAL")})

    def outcome(name: str):
        f = M.find_method(zc, name)
        if f is None:
            from ..model import AnalysisError

            raise AnalysisError(f"ZonedClock.{name} missing")
        outs = TermEval(M, ctx.R, f, inline_depth=4).run(init)
        rr.states += len(outs)
        return f, outs

    # constructor stores its three arguments in the three fields (through _check_not_null identity)
    f = M.find_method(zc, "__init__")
    rr.inst()
    st0 = Store({p.arg: sym(p.arg) for p in f.value_params})
    outs = TermEval(M, ctx.R, f).run(st0)
    want = {CLK: "clock", ZONE: "zone", CAL: "calendar"}
    ok = len(outs) == 1
    if ok:
        st = outs[0][1]
        for k, p in want.items():
            t = st.get(k)
            src = t
            if t is not None and t[0] == "call" and t[1].endswith("_check_not_null") and t[2]:
                src = t[2][0]
            if src != sym(p):
                ok = False
                rr.fail(f.qual, f"field {k.split('.')[-1]} is initialised from {show(t)}, expected parameter {p}", ctx.loc(f))
    if ok:
        rr.ok({"op": f.qual, "fields": want})
    inst_t = ("call", "IClock.get_current_instant", (), (), sym("CLOCK"))

    def is_instant(t) -> bool:
        return t is not None and t[0] == "call" and t[1].endswith(".get_current_instant") and t[4] == sym("CLOCK") and not t[2]

    f, outs = outcome("get_current_instant")
    rr.inst()
    if len(outs) == 1 and is_instant(outs[0][0]):
        rr.ok({"op": f.qual, "ret": show(outs[0][0])})
    else:
        rr.fail(f.qual, f"must return the wrapped clock's current instant; returns {[show(o[0]) for o in outs]}", ctx.loc(f))

    def is_zdt(t) -> bool:
        # <instant>.in_zone(ZONE, CAL)
        if t is None or t[0] != "call" or not t[1].endswith("Instant.in_zone"):
            return False
        args = list(t[2]) + [v for _, v in t[3]]
        kw = dict(t[3])
        zone = t[2][0] if len(t[2]) > 0 else kw.get("zone")
        cal = t[2][1] if len(t[2]) > 1 else kw.get("calendar")
        return is_instant(t[4]) and zone == sym("ZONE") and cal == sym("CAL")

    f, outs = outcome("get_current_zoned_date_time")
    rr.inst()
    if len(outs) == 1 and is_zdt(outs[0][0]):
        rr.ok({"op": f.qual, "ret": show(outs[0][0])})
    else:
        rr.fail(f.qual, f"must render the clock's instant in self.zone and self.calendar; returns {[show(o[0]) for o in outs]}", ctx.loc(f))
    views = {
        "get_current_local_date_time": ("attr", "local_date_time"),
        "get_current_offset_date_time": ("call", "ZonedDateTime.to_offset_date_time"),
        "get_current_date": ("attr", "date"),
        "get_curent_time_of_day": ("attr", "time_of_day"),
    }
    for name, (kind, member) in views.items():
        f, outs = outcome(name)
        rr.inst()
        good = False
        if len(outs) == 1:
            t = outs[0][0]
            if kind == "attr" and t is not None and t[0] == "attr" and t[2] == member and is_zdt(t[1]):
                good = True
            if kind == "call" and t is not None and t[0] == "call" and t[1] == member and is_zdt(t[4]):
                good = True
        if good:
            rr.ok({"op": f.qual, "ret": show(outs[0][0])})
        else:
            rr.fail(f.qual, f"must be the {member} view of get_current_zoned_date_time(); returns {[show(o[0]) for o in outs]}", ctx.loc(f))
    # SystemClock
    sc = M.cls("SystemClock")
    f = M.find_method(sc, "get_current_instant")
    rr.inst()
    outs = TermEval(M, ctx.R, f).run(Store())
    good = False
    if len(outs) == 1 and outs[0][0] is not None:
        t = outs[0][0]
        if t[0] == "call" and t[1] == "Instant.plus_nanoseconds" and len(t[2]) == 1:
            a = t[2][0]
            recv = t[4]
            if a[0] == "call" and a[1] == "time.time_ns" and recv is not None and recv[0] == "attr" and recv[2] == "UNIX_EPOCH":
                good = True
    if good:
        rr.ok({"op": f.qual, "ret": show(outs[0][0])})
    else:
        rr.fail(f.qual, f"must be UNIX_EPOCH.plus_nanoseconds(time.time_ns()); returns {[show(o[0]) for o in outs]}", ctx.loc(f))
    return rr


@rule("C19")
def r19_5_units(ctx: Ctx) -> RuleResult:
    from ..dims import units_rule

    return units_rule(ctx, "R19.5", "C19", 5)


@rule("C19")
def r19_5_no_parameter_dropped_on_a_path(ctx: Ctx) -> RuleResult:
    """Clock factories and views (FakeClock.from_utc, IClock.in_zone / in_utc, ZonedClock getters): a parameter that shapes the
    result on one return path is not silently ignored on another path that was selected without looking at it."""
    from ..core import anchor_files
    from ..kit import per_return_ignored

    rr = RuleResult("R19.7", "clock factories / views: no return path drops a parameter unless the path was chosen by testing that parameter", min_instances=10)
    files = anchor_files("C19")
    for f in sorted(set(ctx.M.func_of_node.values()), key=lambda x: x.qual):
        if f.mod.rel not in files or isinstance(f.node, ast.Lambda):
            continue
        for r, ignored in per_return_ignored(f):
            rr.inst()
            if ignored:
                rr.fail(f.qual, f"`return {unparse(r.value)[:70]}` ignores parameter(s) {sorted(ignored)}, which the other return path(s) use, and the path is not selected by testing them", ctx.loc(f, r))
            else:
                rr.ok()
    return rr


@rule("C19")
def r19_6_lock_is_a_lock(ctx: Ctx) -> RuleResult:
    """`with self.__lock:` only excludes other threads if the field holds a real lock on every path: each class whose methods
    guard state with a lock field must store an unconditional threading.Lock() / RLock() into it."""
    rr = RuleResult("R19.6", "every lock field used in a `with` is initialised unconditionally with threading.Lock() / RLock()", min_instances=3)
    M = ctx.M
    for c in sorted(M.all_classes(), key=lambda x: x.qual):
        if "_compatibility" in c.mod.rel:
            continue
        used: set[str] = set()
        for f in c.all_defs:
            if isinstance(f.node, ast.Lambda):
                continue
            for r in lock_regions(f):
                parts = r.lock.split(".")
                if len(parts) == 2 and parts[0] in ("self", "cls"):
                    used.add(parts[1])
        for fld in sorted(used):
            rr.inst()
            stores = []
            for k in M.mro(c):
                for f in k.all_defs:
                    if isinstance(f.node, ast.Lambda):
                        continue
                    for n in own_nodes(f.node):
                        tg = n.targets if isinstance(n, ast.Assign) else [n.target] if isinstance(n, ast.AnnAssign) and n.value is not None else []
                        for t in tg:
                            if isinstance(t, ast.Attribute) and mangle(k.name, t.attr) == mangle(k.name, fld):
                                stores.append((f, n))
                for n in k.node.body:
                    tg = n.targets if isinstance(n, ast.Assign) else [n.target] if isinstance(n, ast.AnnAssign) and n.value is not None else []
                    for t in tg:
                        if isinstance(t, ast.Name) and mangle(k.name, t.id) == mangle(k.name, fld):
                            stores.append((None, n))
            real = lambda v: isinstance(v, ast.Call) and unparse(v.func) in ("threading.Lock", "threading.RLock", "Lock", "RLock", "_thread.allocate_lock")  # noqa: E731
            if not stores:
                rr.fail(c.qual, f"lock field `{fld}` is used in a `with` but never initialised in the class", c.mod.rel)
            elif all(real(n.value) for _, n in stores):
                rr.ok({"class": c.qual, "lock": fld})
            else:
                f, n = next((f, n) for f, n in stores if not real(n.value))
                rr.fail(c.qual, f"lock field `{fld}` is initialised with `{unparse(n.value)[:70]}`: not a lock on every path, so `with` on it excludes nobody", ctx.loc(f, n) if f else c.mod.rel)
    return rr


@rule("C19")
def r19_9_locks_are_created_once(ctx: Ctx) -> RuleResult:
    """A lock protects an object only as long as every thread uses THE SAME lock.  A method that re-runs `__init__` on a live
    object (a "reset by re-initialising") or assigns the lock attribute again replaces the lock while another thread waits on the
    old one: that thread and a later caller then hold different locks and run the critical section together (two reads of an
    auto-advancing FakeClock return the same instant).  In every class that creates a threading lock, the lock attribute is
    assigned only in the constructor and no method calls `self.__init__`."""
    rr = RuleResult("R19.9", "a lock attribute is assigned only in the constructor and no method re-runs __init__ on a live object (the lock is never replaced under a waiting thread)", min_instances=1)
    M = ctx.M
    CTORS = ("__init__", "_ctor", "__new__")
    n_cls = 0
    for c in sorted(M.all_classes(), key=lambda k: k.name):
        if "_compatibility" in c.mod.rel:
            continue
        lock_attrs = set()
        for f in c.all_defs:
            if isinstance(f.node, ast.Lambda) or f.cls is not c:
                continue
            for n in own_nodes(f.node):
                if isinstance(n, (ast.Assign, ast.AnnAssign)) and getattr(n, "value", None) is not None and isinstance(n.value, ast.Call) and unparse(n.value.func).split(".")[-1] in ("Lock", "RLock"):
                    for t in [n.target] if isinstance(n, ast.AnnAssign) else n.targets:
                        if isinstance(t, ast.Attribute) and isinstance(t.value, ast.Name) and t.value.id == f.self_name:
                            lock_attrs.add(t.attr)
        if not lock_attrs:
            continue
        n_cls += 1
        for f in sorted(c.all_defs, key=lambda g: g.qual):
            if isinstance(f.node, ast.Lambda) or f.cls is not c or f.name in CTORS:
                continue
            rr.inst()
            bad = None
            for n in own_nodes(f.node):
                if isinstance(n, ast.Call) and isinstance(n.func, ast.Attribute) and n.func.attr == "__init__" and isinstance(n.func.value, ast.Name) and n.func.value.id == f.self_name:
                    bad = bad or (n, f"re-runs `{unparse(n)[:60]}` on the live object, which creates a NEW lock")
                if isinstance(n, (ast.Assign, ast.AnnAssign, ast.AugAssign)):
                    for t in ([n.target] if not isinstance(n, ast.Assign) else n.targets):
                        if isinstance(t, ast.Attribute) and isinstance(t.value, ast.Name) and t.value.id == f.self_name and t.attr in lock_attrs:
                            bad = bad or (n, f"assigns the lock attribute `{t.attr}` again")
            if bad is None:
                rr.ok({"method": f.qual})
            else:
                rr.fail(f.qual, f"{bad[1]}: a thread waiting on the old lock and the next caller then hold different locks and run the critical section at the same time", ctx.loc(f, bad[0]))
    if n_cls == 0:
        from ..model import AnalysisError

        raise AnalysisError("no class creating a threading lock was found (FakeClock is expected)")
    return rr
