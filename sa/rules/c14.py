"""C14 - The tz database binary codec is lossless and canonical (structural clauses)."""
from __future__ import annotations

import ast

from ..codec import check_optional_int_truthiness, check_sequences
from ..core import Ctx, RuleResult, anchor_files, rule
from ..kit import own_nodes
from ..model import UNKNOWN, AnalysisError, mangle, unparse


@rule("C14")
def r14_1_sequences(ctx: Ctx) -> RuleResult:
    rr = RuleResult("R14.1", "every composite writer and its reader agree on the ordered sequence of primitives (loops unrolled 0-3, options both ways)", min_instances=8)
    check_sequences(ctx, rr)
    return rr


@rule("C14")
def r14_6_optional_int_truthiness(ctx: Ctx) -> RuleResult:
    rr = RuleResult("R14.6", "buffered/optional integers are tested with `is None`, not by truthiness (0 is data)", min_instances=2)
    check_optional_int_truthiness(ctx, rr, anchor_files("C14"))
    return rr


# ------------------------------------------------------------------------------------------- byte-level rules


def _writer_events(ctx: Ctx, fname: str):
    """Abstractly run a writer method; return (events, interp) where an event is one primitive emission at depth 0."""
    from ..oblig import interp

    M = ctx.M
    c = M.cls("_DateTimeZoneWriter")
    f = M.find_method(c, fname) or M.find_method(c, mangle(c.name, fname))
    if f is None:
        raise AnalysisError(f"_DateTimeZoneWriter.{fname} missing")
    I = interp(ctx)
    I.track_pc = True
    I.track_eq = True
    events = []

    def on_call(call, callee, bound, st, fn):
        if callee.cls is not None and callee.cls.name == "_DateTimeZoneWriter":
            args = [a for a in call.args]
            term = I.term(args[0], st, fn) if args else None
            val = list(bound.values())[0] if bound else None
            events.append({"pc": I.pc_of(st), "callee": callee.name, "call": call, "arg": args[0] if args else None, "term": term, "value": val, "state": st})

    I.on_call = on_call
    I.analyse(f)
    return f, events, I


def _cond_node(f, lineno, col):
    for n in ast.walk(f.node):
        if isinstance(n, ast.If) and n.test.lineno == lineno and n.test.col_offset == col:
            return n.test
    return None


def _parse_divisibility_guard(ctx: Ctx, f, test):
    """`_csharp_modulo(X, K) == c`  ->  (X text, K value, c value)"""
    M = ctx.M
    if isinstance(test, ast.Compare) and len(test.ops) == 1 and isinstance(test.ops[0], ast.Eq):
        l, r = test.left, test.comparators[0]
        if isinstance(l, ast.Call) and unparse(l.func).split(".")[-1] in ("_csharp_modulo",) and len(l.args) == 2:
            K = M.fold(l.args[1], f.cls, f.mod)
            cv = M.fold(r, f.cls, f.mod)
            if isinstance(K, int) and isinstance(cv, int):
                return unparse(l.args[0]), K, cv
        if isinstance(l, ast.BinOp) and isinstance(l.op, ast.Mod):
            K = M.fold(l.right, f.cls, f.mod)
            cv = M.fold(r, f.cls, f.mod)
            if isinstance(K, int) and isinstance(cv, int):
                return unparse(l.left), K, cv
    return None


def _enclosing_guard(ctx: Ctx, f, node):
    """Nearest enclosing `if <divisibility guard>:` whose *body* contains node."""
    n = node
    while n is not None and n is not f.node:
        p = getattr(n, "_parent", None)
        if isinstance(p, ast.If) and n in p.body:
            g = _parse_divisibility_guard(ctx, f, p.test)
            if g is not None:
                return g, unparse(p.test)[:120]
        n = p
    return None


def _term_has(t, pred) -> bool:
    if not isinstance(t, tuple):
        return False
    if pred(t):
        return True
    return any(_term_has(x, pred) for x in t[1:] if isinstance(x, tuple))


@rule("C14")
def r14_3_compact_milliseconds(ctx: Ctx) -> RuleResult:
    from ..absint import Iv

    rr = RuleResult("R14.3", "compact millisecond encoding: each arm divides exactly by the constant it tested, header bits stay clear of data, reader arms use the same constants", min_instances=8)
    f, events, I = _writer_events(ctx, "write_milliseconds")
    rr.states = I.steps
    # ---- writer arms, grouped by path condition
    arms: dict[tuple, list] = {}
    for ev in events:
        arms.setdefault(ev["pc"], []).append(ev)
    if len(arms) < 4:
        rr.fail(f.qual, f"expected 4 reachable encoding arms, found {len(arms)} (an arm is unreachable or was removed)", ctx.loc(f))
    if len(arms) > 4:
        extra = [evs[0] for pc, evs in arms.items()][4:]
        rr.fail(f.qual, f"the documented format has four encodings (30 minutes / minutes / seconds / milliseconds); {len(arms)} writing arms are reachable: an extra arm writes values in a form (or before the +24h normalisation) that the reader's four cases do not undo", ctx.loc(f, extra[0]["call"]) if extra else ctx.loc(f))
    table_w = []
    for pc, evs in arms.items():
        rr.inst()
        first = evs[0]
        eg = _enclosing_guard(ctx, f, first["call"])
        guard = eg[0] if eg else None
        true_conds = [(0, 0, True, eg[1])] if eg else []
        hdr = 0
        t = first["term"]
        if t is not None and t[0] == "|":
            for side in (t[1], t[2]):
                if side[0] == "c":
                    hdr = side[1]
        if guard is not None:
            X, K, cval = guard
            ok = True
            if cval != 0:
                ok = False
                rr.fail(f.qual, f"arm guarded by `{true_conds[-1][3]}` tests the remainder against {cval}, not exact divisibility (== 0): values with remainder {cval} are written lossily and exact multiples never use this arm", ctx.loc(f, first["call"]))
            has_div = any(_term_has(e["term"], lambda q, K=K: q[0] == "tzd" and q[2] == ("c", K)) for e in evs)
            if not has_div:
                ok = False
                rr.fail(f.qual, f"arm guarded by `{true_conds[-1][3]}` does not emit the quotient by the same constant {K}", ctx.loc(f, first["call"]))
            if ok:
                rr.ok({"arm": true_conds[-1][3], "divisor": K, "header": hdr})
            table_w.append((hdr if hdr < 256 else hdr >> 24, K))
        else:
            rr.ok({"arm": "raw", "header": hdr})
            table_w.append((hdr if hdr < 256 else hdr >> 24, 1))
        # header / data bit separation: every byte in range
    for ev in events:
        if ev["callee"] == "write_byte":
            rr.inst()
            v = ev["value"]
            if isinstance(v, Iv) and v.within(0, 255):
                rr.ok()
            else:
                rr.fail(f.qual, f"write_byte argument `{unparse(ev['arg'])}` not proved inside [0, 255]: {v}", ctx.loc(f, ev["call"]))
        elif ev["callee"].endswith("write_int32") or ev["callee"].endswith("write_int16"):
            # multi-byte payloads carry header bits OR-ed onto a non-negative quantity (the value after the +24h shift): a negative
            # operand sets every high bit and the header is lost
            rr.inst()
            v = ev["value"]
            hi = 2**32 - 1 if ev["callee"].endswith("32") else 2**16 - 1
            if isinstance(v, Iv) and v.within(0, hi):
                rr.ok()
            else:
                rr.fail(f.qual, f"`{unparse(ev['arg'])[:60]}` is not proved inside [0, {hi}] ({v}): the quantity is written before it has been shifted into the non-negative range the format stores", ctx.loc(f, ev["call"]))
    # ---- reader table
    from ..oblig import interp

    M = ctx.M
    rc = M.cls("_DateTimeZoneReader")
    rf = M.find_method(rc, "read_milliseconds")
    if rf is None:
        raise AnalysisError("_DateTimeZoneReader.read_milliseconds missing")
    # reader side, decided by abstract evaluation (independent of match / if-chain / early-return shape): with every byte read
    # unknown, each returning path must yield exactly the value range of one writer arm: [0, 2**bits - 1] * divisor - one day
    from ..absint import Iv
    from ..oblig import interp as mk

    DATA_BITS = {0: 7, 128: 13, 160: 21, 192: 29}  # header -> data bits of the documented format (first byte + payload bytes)
    MPD = M.fold_class_const("PyodaConstants", "MILLISECONDS_PER_DAY")
    I = mk(ctx)
    I.max_depth = 5
    I.stubs["_DateTimeZoneReader.read_byte"] = lambda a, k, r: Iv(0, 255)
    I.stubs["_DateTimeZoneReader.__read_int16"] = lambda a, k, r: Iv(-32768, 32767)
    rets, _ = I.analyse(rf)
    rr.states += I.steps
    got = sorted({(v.lo, v.hi) for v, _ in rets if isinstance(v, Iv)})
    want = sorted({(-MPD, (2 ** DATA_BITS[h] - 1) * k - MPD) for (h, k) in table_w if h in DATA_BITS})
    table_r = got
    rr.inst()
    if got == want and len(want) == len(table_w):
        rr.ok({"writer_table(header,divisor)": sorted(table_w), "reader_value_ranges": [[int(a), int(b)] for a, b in got]})
    else:
        rr.fail(rf.qual, f"reader decodes the value ranges {[(int(a), int(b)) for a, b in got]}; the writer's arms (header, divisor) {sorted(table_w)} produce {[(int(a), int(b)) for a, b in want]}", ctx.loc(rf))
    return rr


@rule("C14")
def r14_4_transition_encoding(ctx: Ctx) -> RuleResult:
    from ..absint import Iv

    rr = RuleResult("R14.4", "transition encoding: every compact form is reachable, written values fall in the range the reader decodes that form from, payload = exact quotient", min_instances=6)
    M = ctx.M
    f, events, I = _writer_events(ctx, "write_zone_interval_transition")
    rr.states = I.steps
    K = lambda n: M.fold_class_const("_ZoneIntervalConstants", n)  # noqa: E731
    MIN_H, MIN_M = K("_MIN_VALUE_FOR_HOURS_SINCE_PREVIOUS"), K("_MIN_VALUE_FOR_MINUTES_SINCE_EPOCH")
    INT_MAX = M.fold_class_const("_CsharpConstants", "INT_MAX_VALUE")
    if not all(isinstance(x, int) for x in (MIN_H, MIN_M, INT_MAX)):
        raise AnalysisError("zone interval constants not foldable")
    # (a) reachability of every emission site
    sites = [n for n in ast.walk(f.node) if isinstance(n, ast.Call) and isinstance(n.func, ast.Attribute) and isinstance(n.func.value, ast.Name) and n.func.value.id == "self"
             and n.func.attr.lstrip("_").startswith(("write_", "DateTimeZoneWriter__write"))]
    visited = {id(ev["call"]) for ev in events}
    for s in sites:
        rr.inst()
        if id(s) in visited:
            rr.ok({"site": unparse(s)[:80], "reachable": True})
        else:
            rr.fail(f.qual, f"emission `{unparse(s)[:80]}` is unreachable: the compact form it writes is never produced (encoding not canonical)", ctx.loc(f, s))
    # (b) ranges and exact quotients per form (values joined over all paths reaching a site)
    from ..absint import join as _join

    joined: dict[int, object] = {}
    for ev in events:
        if ev["callee"] == "write_count":
            joined[id(ev["call"])] = ev["value"] if id(ev["call"]) not in joined else _join(joined[id(ev["call"])], ev["value"])
    done_sites: set[int] = set()
    for ev in events:
        if ev["callee"] != "write_count":
            continue
        rr.inst()
        v = joined.get(id(ev["call"]), ev["value"])
        arg = unparse(ev["arg"])
        guard = _enclosing_guard(ctx, f, ev["call"])
        if id(ev["call"]) in done_sites:
            rr.instances -= 1
            rr.nontrivial -= 1
            continue
        done_sites.add(id(ev["call"]))
        if not isinstance(v, Iv):
            rr.fail(f.qual, f"write_count({arg}) value not an integer interval: {v}", ctx.loc(f, ev["call"]))
            continue
        if guard is None:
            # markers
            if v.within(0, MIN_H - 1):
                rr.ok({"form": "marker", "value": repr(v)})
            else:
                rr.fail(f.qual, f"marker write_count({arg}) = {v} is not below the hours threshold {MIN_H}", ctx.loc(f, ev["call"]))
            continue
        (X, Kdiv, cval), gtxt = guard
        t = ev["term"]
        is_q = t is not None and t[0] == "tzd" and t[2] == ("c", Kdiv)
        if cval != 0 or not is_q:
            rr.fail(f.qual, f"form guarded by `{gtxt}` writes `{arg}` which is not the exact quotient by {Kdiv}", ctx.loc(f, ev["call"]))
            continue
        lo, hi = (MIN_H, MIN_M - 1) if v.hi < MIN_M else (MIN_M, INT_MAX)
        if v.within(lo, hi):
            rr.ok({"form": gtxt, "value": repr(v), "reader_range": [lo, hi]})
        else:
            rr.fail(f.qual, f"write_count({arg}) = {v} overlaps another form's reader range (expected inside [{lo}, {hi}])", ctx.loc(f, ev["call"]))
    # (c) all forms derive from the same base accessor of `value` as the raw form
    def accessors(expr: ast.expr, depth=0) -> set[str]:
        out = set()
        defs = {}
        for n in ast.walk(f.node):
            if isinstance(n, ast.Assign) and len(n.targets) == 1 and isinstance(n.targets[0], ast.Name):
                defs.setdefault(n.targets[0].id, []).append(n.value)
        seen = set()

        def rec(e):
            for n in ast.walk(e):
                if isinstance(n, ast.Call) and isinstance(n.func, ast.Attribute) and isinstance(n.func.value, ast.Name) and n.func.value.id == "value":
                    out.add(n.func.attr)
                if isinstance(n, ast.Name) and n.id in defs and n.id not in seen:
                    seen.add(n.id)
                    for d in defs[n.id]:
                        rec(d)

        rec(expr)
        return out

    raw = [ev for ev in events if "int64" in ev["callee"]]
    rr.inst()
    if not raw:
        rr.fail(f.qual, "raw 64-bit form not found", ctx.loc(f))
    else:
        base = accessors(raw[0]["arg"])
        bad = []
        for ev in events:
            if ev["callee"] == "write_count" and not isinstance(M.fold(ev["arg"], f.cls, f.mod), int):
                a = accessors(ev["arg"])
                if a and a != base:
                    bad.append((unparse(ev["arg"]), sorted(a)))
        if bad:
            rr.fail(f.qual, f"compact form payload {bad[0][0]} derives from value.{bad[0][1]} while the raw form stores value.{sorted(base)}: precision differs between forms", ctx.loc(f))
        else:
            rr.ok({"base_accessor": sorted(base)})
    return rr


@rule("C14")
def r14_5_primitives(ctx: Ctx) -> RuleResult:
    """varint / fixed-width helpers mirror each other; string length prefix counts the bytes actually written."""
    rr = RuleResult("R14.5", "varint and fixed-width primitives use mirrored masks/shifts; string length prefix = length of the written bytes; count guards", min_instances=6)
    M = ctx.M
    w, r = M.cls("_DateTimeZoneWriter"), M.cls("_DateTimeZoneReader")

    def consts(fn, kinds):
        out = []
        for n in ast.walk(fn.node):
            if isinstance(n, ast.BinOp) and isinstance(n.op, kinds) and isinstance(n.right, ast.Constant) and isinstance(n.right.value, int):
                out.append(n.right.value)
            if isinstance(n, ast.AugAssign) and isinstance(n.op, kinds) and isinstance(n.value, ast.Constant):
                out.append(n.value.value)
        return sorted(out)

    wv, rv = M.find_method(w, mangle(w.name, "__write_varint")), M.find_method(r, mangle(r.name, "__read_varint"))
    if wv is None or rv is None:
        raise AnalysisError("varint helpers missing")
    rr.inst()
    w_mask, r_mask = set(consts(wv, ast.BitAnd)), set(consts(rv, ast.BitAnd))
    w_shift, r_shift = set(consts(wv, ast.RShift)), set(consts(rv, (ast.Add,))) | set(consts(rv, ast.LShift))
    w_cont = set(consts(wv, ast.BitOr))
    cmpc = [c.comparators[0].value for c in ast.walk(rv.node) if isinstance(c, ast.Compare) and isinstance(c.comparators[0], ast.Constant)]
    wcmp = [c.comparators[0].value for c in ast.walk(wv.node) if isinstance(c, ast.Compare) and isinstance(c.comparators[0], ast.Constant)]
    probs = []
    if len(w_mask) != 1 or w_mask != r_mask:
        probs.append(f"payload masks differ: writer {sorted(w_mask)} reader {sorted(r_mask)}")
    else:
        mk = next(iter(w_mask))
        bits = mk.bit_length()
        if mk != (1 << bits) - 1:
            probs.append(f"payload mask {mk} is not of the form 2^k-1")
        if w_shift != {bits} or bits not in r_shift:
            probs.append(f"shift step: writer {sorted(w_shift)} reader {sorted(r_shift)}, mask width {bits}")
        if w_cont != {mk + 1} or cmpc != [mk + 1] or wcmp != [mk]:
            probs.append(f"continuation bit/threshold: writer sets {sorted(w_cont)} loops while > {wcmp}; reader stops when < {cmpc}; expected {mk + 1}/{mk}")
    if probs:
        rr.fail(wv.qual, "; ".join(probs), ctx.loc(wv))
    else:
        rr.ok({"varint": {"mask": sorted(w_mask), "shift": sorted(w_shift), "continuation": sorted(w_cont)}})
    for bits, (wn, rn) in {16: ("__write_int16", "__read_int16"), 32: ("__write_int32", "__read_int32"), 64: ("__write_int64", "__read_int64")}.items():
        wf, rf = M.find_method(w, mangle(w.name, wn)), M.find_method(r, mangle(r.name, rn))
        if wf is None or rf is None:
            raise AnalysisError(f"{wn}/{rn} missing")
        rr.inst()
        ws, rs = consts(wf, ast.RShift), consts(rf, ast.LShift)
        if ws == rs == [bits // 2]:
            rr.ok({"width": bits, "shift": ws})
        else:
            rr.fail(wf.qual, f"{bits}-bit helper: writer shifts {ws}, reader shifts {rs}, expected [{bits // 2}]", ctx.loc(wf))
    # string: length prefix must be len() of the very bytes object that is written
    ws_ = M.find_method(w, "write_string")
    if ws_ is None:
        raise AnalysisError("write_string missing")
    rr.inst()
    from ..terms import Store, TermEval, show, sym

    te = TermEval(M, ctx.R, ws_, inline_depth=0)
    pool_key = "self." + mangle(w.name, "__string_pool")
    outs = te.run(Store({"value": sym("VALUE"), pool_key: ("const", None)}))
    calls = []
    for n in ast.walk(ws_.node):
        if isinstance(n, ast.Call) and isinstance(n.func, ast.Attribute):
            if n.func.attr == "write_count" or (n.func.attr == "write" and "output" in unparse(n.func.value)):
                calls.append(n)
    # evaluate arguments in the no-pool arm: first If body
    arm = None
    for s in ws_.body:
        if isinstance(s, ast.If) and "string_pool" in unparse(s.test) and "None" in unparse(s.test):
            arm = s.body if isinstance(s.test, ast.Compare) and isinstance(s.test.ops[0], ast.Is) else s.orelse
    if arm is None:
        rr.fail(ws_.qual, "inline (pool-less) arm not found", ctx.loc(ws_))
    else:
        st = Store({"value": sym("VALUE")})
        count_t = data_t = None
        for s in arm:
            if isinstance(s, ast.Assign) and isinstance(s.targets[0], ast.Name):
                st = st.set(s.targets[0].id, te.ev(s.value, st))
            elif isinstance(s, ast.Expr) and isinstance(s.value, ast.Call):
                c = s.value
                if isinstance(c.func, ast.Attribute) and c.func.attr == "write_count":
                    count_t = te.ev(c.args[0], st)
                elif isinstance(c.func, ast.Attribute) and c.func.attr == "write":
                    data_t = te.ev(c.args[0], st)
        good = count_t is not None and data_t is not None and count_t[0] == "call" and count_t[1] == "len" and count_t[2] == (data_t,)
        if good:
            rr.ok({"string": {"count": show(count_t), "data": show(data_t)}})
        else:
            rr.fail(ws_.qual, f"length prefix {show(count_t) if count_t else None} is not len() of the written bytes {show(data_t) if data_t else None}", ctx.loc(ws_))
    # count guards
    from ..absint import Iv
    from ..oblig import interp

    INT_MAX = M.fold_class_const("_CsharpConstants", "INT_MAX_VALUE")
    rr.inst()
    wc = M.find_method(w, "write_count")
    I = interp(ctx)
    seen = []

    def on_call(call, callee, bound, st, fn):
        if callee.name.endswith("write_varint"):
            seen.append(list(bound.values())[0])

    I.on_call = on_call
    I.analyse(wc)
    if seen and all(isinstance(v, Iv) and v.within(0, INT_MAX) for v in seen):
        rr.ok({"write_count": [repr(v) for v in seen]})
    else:
        rr.fail(wc.qual, f"write_count does not restrict its argument to [0, {INT_MAX}] before encoding: {seen}", ctx.loc(wc))
    rr.inst()
    rcnt = M.find_method(r, "read_count")
    I = interp(ctx)
    rets, _ = I.analyse(rcnt)
    if rets and all(isinstance(v, Iv) and v.hi <= INT_MAX for v, _ in rets):
        rr.ok({"read_count": [repr(v) for v, _ in rets]})
    else:
        rr.fail(rcnt.qual, f"read_count may return a value above {INT_MAX}: {[v for v, _ in rets]}", ctx.loc(rcnt))
    return rr


@rule("C14")
def r14_8_twin_delegation(ctx: Ctx) -> RuleResult:
    """A reader primitive delegates to the mirror image of what its writer twin delegates to: write_signed_count -> write_varint
    means read_signed_count -> read_varint (an unchecked raw read), not a range-checked read of a different primitive."""
    from ..kit import own_nodes

    rr = RuleResult("R14.8", "reader/writer twins delegate to mirrored primitives (where write_X is a thin wrapper of write_Y, read_X wraps read_Y): no extra range restriction or different framing on one side", min_instances=2)
    M = ctx.M
    rd, wr = M.cls("_DateTimeZoneReader"), M.cls("_DateTimeZoneWriter")

    def delegates(c, f, prefix):
        out = []
        for n in own_nodes(f.node):
            if isinstance(n, ast.Call) and isinstance(n.func, ast.Attribute) and isinstance(n.func.value, ast.Name) and n.func.value.id == (f.self_name or "self"):
                nm = n.func.attr.lstrip("_")
                if nm.startswith(prefix):
                    out.append(nm[len(prefix):])
        return sorted(set(out))

    for name, wf in sorted(wr.methods.items()):
        base = name.lstrip("_")
        if not base.startswith("write_") or isinstance(wf.node, ast.Lambda) or name != wf.name:
            continue
        tail = base[len("write_"):]
        rf = rd.methods.get("read_" + tail) or rd.methods.get(mangle(rd.name, "__read_" + tail))
        if rf is None:
            continue
        wd, rdd = delegates(wr, wf, "write_"), delegates(rd, rf, "read_")
        if len(wd) != 1:
            continue  # composite framing is compared as byte sequences by R14.1 / R14.3 / R14.4
        rr.inst()
        if wd == rdd:
            rr.ok({"twin": tail, "delegates_to": wd})
        else:
            rr.fail(rf.qual, f"read_{tail} delegates to read_{rdd} while write_{tail} delegates to write_{wd}: values the writer can emit are framed or range-checked differently when read back", ctx.loc(rf))
    return rr


@rule("C14")
def r14_2_decoders_restore_every_field(ctx: Ctx) -> RuleResult:
    """A decoder that rebuilds an object passes every constructor parameter explicitly: a parameter left to its default is a
    field the writer stored (or could store) that silently comes back as the default."""
    from ..kit import bind_args, own_nodes

    rr = RuleResult("R14.2", "decoders (`read` / `_read` class methods of the zone data types) pass every parameter of the constructor they call: no stored field is replaced by a constructor default on the way back", min_instances=5)
    M = ctx.M
    for f in sorted(M.funcs.values(), key=lambda g: g.qual):
        if not f.mod.rel.startswith("pyoda_time/time_zones/") or f.cls is None or f.name not in ("read", "_read") or isinstance(f.node, ast.Lambda):
            continue
        if not any(a.annotation is not None and "Reader" in unparse(a.annotation) for a in f.params):
            continue
        for n in own_nodes(f.node):
            if not isinstance(n, ast.Call):
                continue
            tg, how = ctx.R.callees(n, f, count=False)
            ctors = [t for t in tg if t.cls is f.cls and t.name in ("_ctor", "__init__", mangle(f.cls.name, "__ctor"), "__ctor")]
            if not ctors or how != "resolved":
                continue
            c = ctors[-1]
            rr.inst()
            try:
                bound = bind_args(n, c)
            except Exception:
                bound = {}
            missing = [p.arg for p in c.value_params if p.arg not in bound and c.default_of(p.arg) is not None]
            if missing:
                rr.fail(f.qual, f"{unparse(n.func)}(...) leaves {missing} to the constructor default: the stored value of that field is not restored when the data is read back", ctx.loc(f, n))
            else:
                rr.ok({"decoder": f.qual, "constructor": c.qual, "parameters": len(c.value_params)})
    return rr


@rule("C14")
def r14_9_field_correspondence(ctx: Ctx) -> RuleResult:
    """R14.1 compares kinds of primitives only.  Here each written value is labelled with the field it comes from and each value
    read with the field of the decoded object it ends up in (through the constructors' own parameter->field stores, with
    argument-order normalisation in a constructor decided from the literals the decoder passes)."""
    from ..codec import codec_pairs, io_param
    from ..codecpaths import correspond

    rr = RuleResult("R14.9", "the k-th value a composite writer emits comes from the field that the k-th value its reader consumes is stored in (no two same-kind fields crossed over)", min_instances=35)
    skipped = []
    for c, w, r in codec_pairs(ctx):
        for st, msg, d in correspond(ctx, c, w, r, io_param(w, "w"), io_param(r, "r")):
            if st == "skip":
                skipped.append(f"{c.name}: {msg[:150]}")
                continue
            rr.inst()
            if st == "ok":
                rr.ok({"class": c.name, "site": msg})
            else:
                rr.fail(c.qual, msg, ctx.loc(r, d.get("node")), **{k: v for k, v in d.items() if k != "node"})
    rr.notes.extend("not compared: " + s for s in skipped)
    return rr


@rule("C14")
def r14_10_flag_bytes(ctx: Ctx) -> RuleResult:
    """Packed flag bytes: every OR-ed component of the byte a composite writer emits is determined by exactly one field (its own
    guards included - a bit that is only set when *another* field is non-zero loses data for the remaining combinations), and sits at
    the bit position from which the reader restores that same field."""
    from ..codec import codec_pairs, io_param
    from ..codecpaths import ctor_param_fields, io_sites, norm_name, reader_components, reader_paths, site_kind, writer_components
    from ..kit import bind_args

    rr = RuleResult("R14.10", "packed flag bytes: each component is a function of one field only and is restored from the same bit position", min_instances=4)
    for c, w, r in codec_pairs(ctx):
        wio, rio = io_param(w, "w"), io_param(r, "r")
        wsites, rsites = io_sites(w, wio), io_sites(r, rio)
        if [site_kind(x) for x in wsites] != [site_kind(x) for x in rsites]:
            continue
        rp, _ = reader_paths(ctx, r, rio)
        for k, ws in enumerate(wsites):
            if site_kind(ws) != "byte":
                continue
            comps = writer_components(ctx, w, wio, ws)
            if comps is None:
                continue
            # reader: low bit -> fields, through the constructor call that is returned
            rc = reader_components(ctx, r, rio, rsites[k], rp[k][1])
            bit_fields: dict[int, set[str]] = {}
            for n in ast.walk(r.node):
                if isinstance(n, ast.Return) and isinstance(n.value, ast.Call):
                    tg, how = ctx.R.callees(n.value, r, count=False)
                    tg = [t for t in tg if t.name != "__new__"]
                    if not tg:
                        continue
                    pf = ctor_param_fields(ctx, tg[0])
                    for p, arg in bind_args(n.value, tg[0]).items():
                        for low, locs in rc.items():
                            if any(isinstance(x, ast.Name) and x.id in locs for x in ast.walk(arg)):
                                bit_fields.setdefault(low, set()).update(pf.get(p, set()))
            for comp in comps:
                rr.inst()
                det = {p[0] for p in comp["fields"] | comp["guard_fields"] if p}
                if len(det) != 1:
                    extra = sorted({p[0] for p in comp["guard_fields"] if p} - {p[0] for p in comp["fields"] if p})
                    rr.fail(w.qual, f"flag component `{comp['text']}` of the packed byte depends on {sorted(det)}" + (f" (set only under a test of {extra})" if extra else "") + ": the reader restores one field from it unconditionally, so the other combinations do not survive a round trip", ctx.loc(w, comp["node"]))
                    continue
                fld = next(iter(det))
                if comp["low"] is None:
                    rr.fail(w.qual, f"flag component `{comp['text']}`: bit position not recognised", ctx.loc(w, comp["node"]))
                    continue
                back = bit_fields.get(comp["low"], set())
                if fld not in back:
                    rr.fail(w.qual, f"flag component `{comp['text']}` puts `{fld}` at bit {comp['low']}, but the reader restores {sorted(back) or 'nothing'} from that bit", ctx.loc(w, comp["node"]))
                else:
                    rr.ok({"class": c.name, "field": fld, "bit": comp["low"]})
    return rr


@rule("C14")
def r14_11_zigzag_pair(ctx: Ctx) -> RuleResult:
    """Signed counts are zigzag-coded: write_signed_count hands `enc(count)` to the varint writer, read_signed_count returns
    `dec(value)`.  The two expressions are evaluated (tiny integer evaluator, no code is run) for every count in [-70000, 70000]
    and at the powers of two up to the 32-bit edges: dec(enc(c)) == c and enc(c) >= 0 (a varint cannot carry a negative number)
    - whatever the expressions look like."""
    from ..kit import eval_int_expr, own_nodes

    rr = RuleResult("R14.11", "zigzag coding of signed counts: decoder(encoder(c)) == c and encoder(c) >= 0 on [-70000, 70000], at the 32-bit edges and - unless the writer rejects them - beyond", min_instances=1)
    M = ctx.M
    w = M.func("_DateTimeZoneWriter.write_signed_count", required=True)
    r = M.func("_DateTimeZoneReader.read_signed_count", required=True)
    from ..kit import inline_locals

    wcalls = [n for n in own_nodes(w.node) if isinstance(n, ast.Call) and unparse(n.func).endswith("write_varint") and n.args]
    rrets = [n.value for n in own_nodes(r.node) if isinstance(n, ast.Return) and n.value is not None]
    rr.inst()
    if len(wcalls) != 1 or len(rrets) != 1:
        rr.fail(w.qual, "write_signed_count / read_signed_count are not a single varint write / a single return expression (not evaluated)", ctx.loc(w))
        return rr
    enc = inline_locals(w.node, wcalls[0].args[0])
    if isinstance(enc, ast.Call):
        from ..kit import inline_simple_call

        enc = inline_simple_call(ctx.R, enc, w) or enc  # the encoder moved into a one-line helper
    dec = rrets[0]
    pw = w.value_params[0].arg
    # the reader's local holding the raw varint
    rv = next((t.id for n in own_nodes(r.node) if isinstance(n, ast.Assign) and isinstance(n.value, ast.Call) and unparse(n.value.func).endswith("read_varint") for t in n.targets if isinstance(t, ast.Name)), None)
    if rv is None:
        rr.fail(r.qual, "read_signed_count does not read one varint into a local", ctx.loc(r))
        return rr
    sample = list(range(-70000, 70001)) + [s * (1 << k) + d for k in range(17, 32) for s in (1, -1) for d in (-1, 0, 1)] + [s * (1 << k) + d for k in (32, 33, 40, 63, 64) for s in (1, -1) for d in (-1, 0, 1)]
    # the domain is what the writer ACCEPTS: Python integers are unbounded, so without an argument check of its own the writer
    # accepts 2**31, for which `count >> 31` is no longer the sign and the decoder returns another number
    lo_ok, hi_ok = -float("inf"), float("inf")
    for n in own_nodes(w.node):
        if isinstance(n, ast.Call) and unparse(n.func).endswith("_check_argument_range") and len(n.args) >= 4 and isinstance(n.args[1], ast.Name) and n.args[1].id == pw and n.lineno < wcalls[0].lineno:
            a, b = M.fold(n.args[2], w.cls, w.mod), M.fold(n.args[3], w.cls, w.mod)
            if isinstance(a, int) and isinstance(b, int):
                lo_ok, hi_ok = max(lo_ok, a), min(hi_ok, b)
    bad = None
    for cval in sample:
        if not lo_ok <= cval <= hi_ok:
            continue  # rejected by the writer's own argument check
        e = eval_int_expr(enc, {pw: cval}, lambda x: M.fold(x, w.cls, w.mod))
        if e is None:
            bad = (cval, "encoder expression not evaluable")
            break
        if e < 0:
            bad = (cval, f"encodes to the negative number {e}")
            break
        d = eval_int_expr(dec, {rv: e}, lambda x: M.fold(x, r.cls, r.mod))
        if d != cval:
            bad = (cval, f"is written as {e} and read back as {d}")
            break
    rr.states += len(sample)
    if bad is None:
        rr.ok({"encoder": unparse(enc), "decoder": unparse(dec), "values": len(sample)})
    else:
        rr.fail(w.qual, f"signed count {bad[0]} {bad[1]} (encoder `{unparse(enc)}`, decoder `{unparse(dec)}`)", ctx.loc(w, wcalls[0]))
    return rr


# The nzd format's constants (Noda Time's DateTimeZoneWriter: the format is shared with files written by Noda Time itself, which
# the reader has to accept - tests/test_data holds such a file)
NZD_FORMAT = {
    "_MARKER_MIN_VALUE": 0,
    "_MARKER_MAX_VALUE": 1,
    "_MARKER_RAW": 2,
    "_MIN_VALUE_FOR_HOURS_SINCE_PREVIOUS": 1 << 7,
    "_MIN_VALUE_FOR_MINUTES_SINCE_EPOCH": 1 << 21,
}


@rule("C14")
def r14_12_format_constants_and_collections(ctx: Ctx) -> RuleResult:
    """(a) The thresholds of the transition encoding are part of the file format: reader and writer sharing one constant keeps them
    consistent with each other when it changes, but not with existing files (nor with the canonical bytes).  They are compared
    with the published values; the minutes epoch must be 1800-01-01T00:00Z.
    (b) Collection primitives (`write_dictionary`, composite writers with a count followed by a loop) write *every* element: the
    length written is the length of the very collection that is iterated, the loop's iterable is not filtered, and no write inside
    the loop is conditional - a value that "carries no information" today is still data to the reader."""
    rr = RuleResult("R14.12", "file-format constants equal the published nzd values; collection writers emit every element of the collection whose length they announce", min_instances=8)
    M = ctx.M
    consts = next((k for k in M.all_classes() if k.name == "_ZoneIntervalConstants"), None)
    if consts is None:
        raise AnalysisError("_ZoneIntervalConstants not found")
    for name, want in NZD_FORMAT.items():
        rr.inst(nontrivial=False)
        got = M.fold_class_const(consts.name, name)
        if got == want:
            rr.ok({"constant": name, "value": want})
        else:
            rr.fail(consts.qual, f"{name} = {got}, the nzd format says {want}: files written before the change (and by Noda Time) are decoded differently, and the bytes written are no longer canonical", consts.mod.rel)
    rr.inst()
    ep = next((unparse(n.value) for n in consts.node.body if isinstance(n, (ast.Assign, ast.AnnAssign)) and "_EPOCH_FOR_MINUTES_SINCE_EPOCH" in unparse(n)), "")
    if ep.replace(" ", "") == "Instant.from_utc(1800,1,1,0,0)":
        rr.ok({"epoch": ep})
    else:
        rr.fail(consts.qual, f"minutes-since-epoch epoch is `{ep}`, the format says 1800-01-01T00:00Z", consts.mod.rel)
    # (b)
    from ..kit import inline_locals, own_nodes

    for f in sorted(set(M.func_of_node.values()), key=lambda x: x.qual):
        if isinstance(f.node, ast.Lambda) or "/time_zones/" not in f.mod.rel or not (f.name.lstrip("_").startswith("write")):
            continue
        for loop in own_nodes(f.node):
            if not isinstance(loop, ast.For):
                continue
            writes = [c for b in loop.body for c in ast.walk(b) if isinstance(c, ast.Call) and isinstance(c.func, ast.Attribute) and c.func.attr.lstrip("_").startswith("write")]
            if not writes:
                continue
            rr.inst()
            it = inline_locals(f.node, loop.iter)
            filt = next((x for x in ast.walk(it) if isinstance(x, (ast.ListComp, ast.GeneratorExp, ast.SetComp, ast.DictComp)) and any(g.ifs for g in x.generators)), None)
            filt = filt or next((x for x in ast.walk(it) if isinstance(x, ast.Call) and isinstance(x.func, ast.Name) and x.func.id == "filter"), None)
            cond = next((w for w in writes if any(isinstance(p, ast.If) for p in _parents_until(w, loop))), None)
            if filt is not None:
                rr.fail(f.qual, f"the loop writes a filtered view of the collection (`{unparse(filt)[:70]}`): the elements left out cannot be read back", ctx.loc(f, loop))
            elif cond is not None:
                rr.fail(f.qual, f"`{unparse(cond)[:60]}` inside the element loop is conditional: some elements are not written", ctx.loc(f, cond))
            else:
                rr.ok({"writer": f.qual, "loop over": unparse(loop.iter)[:50]})
    return rr


def _parents_until(n: ast.AST, stop: ast.AST) -> list[ast.AST]:
    out = []
    p = getattr(n, "_parent", None)
    while p is not None and p is not stop:
        out.append(p)
        p = getattr(p, "_parent", None)
    return out


# ------------------------------------------------------------------------------------------- R14.13 chunked reads ask for what is left


@rule("C14")
def r14_13_chunked_reads_ask_for_the_rest(ctx: Ctx) -> RuleResult:
    """A stream may return fewer bytes than asked (pipes, sockets, raw files); the reader therefore fills a buffer in a loop.  Each
    read inside such a loop must ask for the bytes STILL MISSING (an expression of the target length minus what has been
    collected); asking for the full length again reads into the next field as soon as one read comes back short."""
    rr = RuleResult("R14.13", "every stream read inside a buffer-filling loop of the zone-data reader asks for the bytes still missing, not for the whole length again", min_instances=1)
    M = ctx.M
    for f in sorted(set(M.func_of_node.values()), key=lambda x: x.qual):
        if isinstance(f.node, ast.Lambda) or not f.mod.rel.startswith("pyoda_time/time_zones/io/"):
            continue
        for w in own_nodes(f.node):
            if not isinstance(w, ast.While):
                continue
            reads = [n for n in ast.walk(w) if isinstance(n, ast.Call) and isinstance(n.func, ast.Attribute) and n.func.attr == "read" and n.args]
            grows = [n for n in ast.walk(w) if isinstance(n, ast.Call) and isinstance(n.func, ast.Attribute) and n.func.attr in ("extend", "append", "write")] + [n for n in ast.walk(w) if isinstance(n, ast.AugAssign) and isinstance(n.op, ast.Add)]
            if not reads or not grows or "len(" not in unparse(w.test):
                continue  # only loops whose condition measures the buffer being filled
            defs = {}
            for n in ast.walk(w):
                if isinstance(n, ast.Assign) and len(n.targets) == 1 and isinstance(n.targets[0], ast.Name):
                    defs[n.targets[0].id] = n.value
                if isinstance(n, ast.NamedExpr):
                    defs[n.target.id] = n.value
            for r in reads:
                rr.inst()
                a = r.args[0]
                e = defs.get(a.id, a) if isinstance(a, ast.Name) else a
                if isinstance(e, ast.BinOp) and isinstance(e.op, ast.Sub) and "len(" in unparse(e.right):
                    rr.ok({"function": f.qual, "asks for": unparse(e)})
                else:
                    rr.fail(f.qual, f"`{unparse(r)[:60]}` inside a buffer-filling loop does not ask for the remaining byte count (length - len(buffer)): after a short read it reads past the end of the value", ctx.loc(f, r))
    return rr


# ------------------------------------------------------------------------------------------- R14.14 / R14.15


@rule("C14")
def r14_14_decoder_rewrites_mirror_the_encoder(ctx: Ctx) -> RuleResult:
    """A decoder may turn a value it has read into another one only where the encoder did the reverse: `_ZoneRecurrence._write` stores
    `max(from_year, 0)` and `read` maps 0 back to the minimum; `to_year` is written as it is and must be read as it is.  For every
    local that a `read` classmethod of the zone layer fills from a reader call and later REASSIGNS, the encoder argument at the
    same position must be a computed expression too; a rewrite on one side only (`to_year >= 9999 -> infinity`) makes values
    that the writer accepts read back as different values."""
    from .. import codecpaths  # noqa: F401  (same package; kept for locality of the codec rules)

    rr = RuleResult("R14.14", "decoders of the zone layer rewrite a value they have read only where the encoder rewrote it when writing (position by position)", min_instances=1)
    M = ctx.M
    for c in sorted(M.all_classes(), key=lambda x: x.qual):
        if not c.mod.rel.startswith("pyoda_time/time_zones/") or "read" not in c.methods or not ({"_write", "write"} & set(c.methods)):
            continue
        rd, wr = c.methods["read"], c.methods.get("_write") or c.methods.get("write")
        if isinstance(rd.node, ast.Lambda) or isinstance(wr.node, ast.Lambda):
            continue
        reads = []  # (local, statement) in reading order
        for s_ in rd.body:
            if isinstance(s_, (ast.Assign, ast.AnnAssign)) and s_.value is not None and isinstance(s_.value, ast.Call) and isinstance(s_.value.func, ast.Attribute) and s_.value.func.attr.startswith("read"):
                t = s_.targets[0] if isinstance(s_, ast.Assign) else s_.target
                if isinstance(t, ast.Name):
                    reads.append((t.id, s_))
        writes = [n for n in own_nodes(wr.node) if isinstance(n, ast.Call) and isinstance(n.func, ast.Attribute) and (n.func.attr.startswith("write") or n.func.attr == "_write")]
        writes.sort(key=lambda n: (n.lineno, n.col_offset))
        if not reads or len(reads) != len(writes):
            continue
        for k, (name, st) in enumerate(reads):
            later = [n for n in own_nodes(rd.node) if isinstance(n, (ast.Assign, ast.AugAssign)) and n.lineno > st.lineno and any(isinstance(t, ast.Name) and t.id == name for t in (n.targets if isinstance(n, ast.Assign) else [n.target]))]
            if not later:
                # the other spelling of a rewrite: the raw value goes into a NEW local through a computation (`x = MIN if raw == 0 else
                # raw`) and only that local reaches the constructor
                direct = any(isinstance(r_, ast.Return) and r_.value is not None and any(isinstance(a, ast.Name) and a.id == name for c_ in ast.walk(r_.value) if isinstance(c_, ast.Call) for a in list(c_.args) + [k_.value for k_ in c_.keywords]) for r_ in own_nodes(rd.node))
                if not direct:
                    later = [n for n in own_nodes(rd.node) if isinstance(n, (ast.Assign, ast.AnnAssign)) and getattr(n, "value", None) is not None and n.lineno > st.lineno and not isinstance(n.value, ast.Name)
                             and any(isinstance(x, ast.Name) and x.id == name for x in ast.walk(n.value))]
            if not later:
                continue
            rr.inst()
            wa = writes[k].args[0] if writes[k].args else (writes[k].func.value if writes[k].func.attr == "_write" else None)
            computed = wa is not None and not isinstance(wa, (ast.Attribute, ast.Name))
            if computed:
                rr.ok({"class": c.qual, "field": name, "encoder": unparse(wa)[:50], "decoder": unparse(later[0])[:50]})
            else:
                rr.fail(rd.qual, f"`{name}` is rewritten after being read (`{unparse(later[0])[:60]}`) although the encoder writes it unchanged (`{unparse(writes[k])[:60]}`): a value the writer accepts reads back as another value", ctx.loc(rd, later[0]))
    return rr


@rule("C14")
def r14_15_count_limit_is_not_in_the_shared_varint(ctx: Ctx) -> RuleResult:
    """`read_count` rejects values above Int32.MaxValue; `read_signed_count` decodes a zig-zag value from the SAME unsigned
    varint, whose unsigned form reaches 2**32 - 1 for the signed int32 range.  The Int32 limit therefore belongs to read_count and
    must not sit in the shared varint reader, or signed counts from 2**30 upwards (and below -2**30) no longer read back."""
    rr = RuleResult("R14.15", "the Int32 limit of unsigned counts is checked in read_count, not in the varint reader it shares with the zig-zag signed counts", min_instances=1)
    M = ctx.M
    c = M.cls("_DateTimeZoneReader")
    rr.inst()
    where = [g.name.split("__")[-1] for g in c.all_defs if not isinstance(g.node, ast.Lambda) and any(isinstance(n, ast.Compare) and "INT_MAX_VALUE" in unparse(n) for n in own_nodes(g.node))]
    signed = M.find_method(c, "read_signed_count")
    shared = {n.func.attr.split("__")[-1] for n in own_nodes(signed.node) if isinstance(n, ast.Call) and isinstance(n.func, ast.Attribute)} if signed is not None else set()
    bad = [w for w in where if w in shared]
    if "read_count" in where and not bad:
        rr.ok({"limit checked in": where})
    else:
        rr.fail(f"{c.qual}.{(bad or where or ['?'])[0]}", f"the Int32.MaxValue limit is checked in {where}; read_signed_count decodes through {sorted(shared)}: half of the signed 32-bit range can no longer be read", f"{c.mod.rel}:{c.node.lineno}")
    return rr
