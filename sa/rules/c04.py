"""C04 - Each time zone partitions the whole timeline into maximal offset intervals (wiring / guard / coverage clauses)."""
from __future__ import annotations

import ast

from ..absint import Iv, Obj
from ..core import Ctx, RuleResult, rule
from ..kit import own_nodes
from ..model import UNKNOWN, AnalysisError, mangle, unparse
from ..terms import Store, TermEval, show, sym


def index_coverage(fn, seq_name: str):
    """For `for i in range([a,] len(X) - k)` loops indexing X[i + d]: (a, k, D) per loop."""
    out = []
    for n in own_nodes(fn.node):
        if isinstance(n, ast.For) and isinstance(n.iter, ast.Call) and unparse(n.iter.func) == "range" and isinstance(n.target, ast.Name):
            args = n.iter.args
            a_expr, b_expr = (ast.Constant(value=0), args[0]) if len(args) == 1 else (args[0], args[1])
            a = a_expr.value if isinstance(a_expr, ast.Constant) else None
            k = None
            if isinstance(b_expr, ast.Call) and unparse(b_expr) == f"len({seq_name})":
                k = 0
            elif isinstance(b_expr, ast.BinOp) and isinstance(b_expr.op, ast.Sub) and unparse(b_expr.left) == f"len({seq_name})" and isinstance(b_expr.right, ast.Constant):
                k = b_expr.right.value
            D = set()
            i = n.target.id
            for s in ast.walk(n):
                if isinstance(s, ast.Subscript) and unparse(s.value) == seq_name:
                    t = unparse(s.slice).replace(" ", "")
                    if t == i:
                        D.add(0)
                    elif t.startswith(i + "+") and t[len(i) + 1:].isdigit():
                        D.add(int(t[len(i) + 1:]))
                    elif t.startswith(i + "-") and t[len(i) + 1:].isdigit():
                        D.add(-int(t[len(i) + 1:]))
            out.append((n, a, k, D))
    return out


@rule("C04")
def r04_1_offset_of_interval(ctx: Ctx) -> RuleResult:
    rr = RuleResult("R04.1-2", "get_utc_offset is the wall offset of the interval for the same instant; standard offset = wall - savings", min_instances=3)
    M = ctx.M
    f = M.func("DateTimeZone.get_utc_offset")
    rr.inst()
    outs = TermEval(M, ctx.R, f, inline_depth=0).run(Store({"instant": sym("I")}))
    t = outs[0][0] if len(outs) == 1 else None
    if t is not None and t[0] == "attr" and t[2] == "wall_offset" and t[1][0] == "call" and t[1][1].endswith("get_zone_interval") and t[1][2] == (sym("I"),) and t[1][4] == sym("self"):
        rr.ok({"fn": f.qual, "expr": show(t)})
    else:
        rr.fail(f.qual, f"must return self.get_zone_interval(instant).wall_offset; found {[show(o[0]) for o in outs]}", ctx.loc(f))
    g = M.func("_FixedDateTimeZone.get_utc_offset")
    init = M.func("_FixedDateTimeZone.__init__")
    rr.inst()
    # the fixed zone returns max_offset, which its constructor ties to the interval's wall offset (same constructor parameter flows to both)
    sup = [n for n in own_nodes(init.node) if isinstance(n, ast.Call) and unparse(n.func) == "super().__init__"]
    zi = [n for n in own_nodes(init.node) if isinstance(n, ast.Call) and unparse(n.func).endswith("ZoneInterval")]
    ok = bool(sup) and bool(zi) and len(sup[0].args) == 4 and unparse(sup[0].args[2]) == "offset" and unparse(sup[0].args[3]) == "offset" and any(k.arg == "wall_offset" and unparse(k.value) == "offset" for k in zi[0].keywords)
    ok = ok and unparse(g.body[-1]) == "return self.max_offset"
    if ok:
        rr.ok({"fn": g.qual, "returns": "max_offset == constructor offset == interval.wall_offset"})
    else:
        rr.fail(g.qual, "fixed zone: reported offset is not tied to its interval's wall offset by construction", ctx.loc(g))
    h = M.func("ZoneInterval.standard_offset")
    rr.inst()
    if unparse(h.body[-1]) == "return self.wall_offset - self.savings":
        rr.ok({"fn": h.qual, "expr": "wall_offset - savings"})
    else:
        rr.fail(h.qual, f"standard offset must be wall_offset - savings; found `{unparse(h.body[-1])}`", ctx.loc(h))
    return rr


@rule("C04")
def r04_3_min_max(ctx: Ctx) -> RuleResult:
    rr = RuleResult("R04.3-4", "advertised min/max offsets aggregate over every period and the tail; every constructed precalculated zone validates adjacency of all periods", min_instances=5)
    M = ctx.M
    init = M.func("_PrecalculatedDateTimeZone.__init__")
    rr.inst()
    sup = [n for n in own_nodes(init.node) if isinstance(n, ast.Call) and unparse(n.func) == "super().__init__"]
    good = False
    if sup and len(sup[0].args) == 4:
        mn, mx = unparse(sup[0].args[2]), unparse(sup[0].args[3])
        good = mn.replace("_PrecalculatedDateTimeZone", "") == "self.__compute_offset(intervals, tail_zone, Offset.min)" and mx.replace("_PrecalculatedDateTimeZone", "") == "self.__compute_offset(intervals, tail_zone, Offset.max)"
    base = M.func("DateTimeZone.__init__")
    slots = [p.arg for p in base.value_params]
    if good and slots[2:4] == ["min_offset", "max_offset"]:
        rr.ok({"ctor": init.qual, "min_slot": "compute(Offset.min)", "max_slot": "compute(Offset.max)"})
    else:
        rr.fail(init.qual, "min_offset / max_offset slots are not fed by __compute_offset with Offset.min / Offset.max respectively", ctx.loc(init))
    comp = M.func("_PrecalculatedDateTimeZone.__compute_offset")
    rr.inst()
    loops = index_coverage(comp, "intervals")
    direct = [n for n in own_nodes(comp.node) if isinstance(n, ast.For) and unparse(n.iter) == "intervals"]
    covered = any(a == 0 and k is not None and D and min(D) == 0 and max(D) == k for _, a, k, D in loops) or bool(direct)
    if covered:
        rr.ok({"fn": comp.qual, "aggregates": "all periods"})
    else:
        rr.fail(comp.qual, f"the aggregation loop does not visit every period (index coverage {[(a, k, sorted(D)) for _, a, k, D in loops]}; need indices 0..len-1)", ctx.loc(comp))
    rr.inst()
    txt = unparse(comp.node)
    if "tail_zone.min_offset" in txt and "tail_zone.max_offset" in txt and "if tail_zone is not None" in txt:
        rr.ok({"fn": comp.qual, "tail": "min and max of the tail map included"})
    else:
        rr.fail(comp.qual, "the tail zone's offsets are not included in the aggregation", ctx.loc(comp))
    rr.inst()
    if any(isinstance(n, ast.Call) and unparse(n.func).endswith("_validate_periods") for n in own_nodes(init.node)):
        rr.ok({"ctor": init.qual, "validates": True})
    else:
        rr.fail(init.qual, "construction does not run _validate_periods", ctx.loc(init))
    val = M.func("_PrecalculatedDateTimeZone._validate_periods")
    rr.inst()
    loops = index_coverage(val, "periods")
    pair_ok = any(a == 0 and k == 1 and D == {0, 1} for _, a, k, D in loops) and "periods[i].end == periods[i + 1].start" in unparse(val.node)
    if pair_ok:
        rr.ok({"fn": val.qual, "adjacency": "periods[i].end == periods[i+1].start for all i"})
    else:
        rr.fail(val.qual, "adjacency of every pair of consecutive periods is not checked", ctx.loc(val))
    return rr


@rule("C04")
def r04_6_lookup_shape(ctx: Ctx) -> RuleResult:
    rr = RuleResult("R04.6", "period lookup returns a period containing the instant; tail hand-off clamps the first tail interval; recurrence stepping admits every Gregorian year", min_instances=4)
    M = ctx.M
    f = M.func("_PrecalculatedDateTimeZone.get_zone_interval")
    from ..exc import facts_at
    from ..kit import inline_locals

    def norm(t: str) -> str:
        return t.replace("_PrecalculatedDateTimeZone", "").replace("cast(ZoneInterval, ", "").rstrip(")") if t.startswith("cast(") else t.replace("_PrecalculatedDateTimeZone", "")

    rr.inst()
    wl = [n for n in own_nodes(f.node) if isinstance(n, ast.While)]
    ok = False
    why = "no binary-search loop"
    if len(wl) == 1:
        loop = wl[0]
        rets = [n for n in ast.walk(loop) if isinstance(n, ast.Return) and n.value is not None]
        cand_ok = False
        for r in rets:
            c = unparse(r.value)
            fa = facts_at(r)
            if (f"{c}._raw_start", "<=", "instant") in fa and (f"{c}._raw_end", ">", "instant") in fa:
                cand_ok = True
            else:
                why = f"`return {c}` is not dominated by {c}._raw_start <= instant < {c}._raw_end"
                cand_ok = False
                break
        # both arms shrink the searched range: upper = mid under start > instant, lower = mid + 1 under end <= instant
        lo_hi = [x.id for x in ast.walk(loop.test) if isinstance(x, ast.Name)]
        shrink_up = shrink_lo = False
        for n in ast.walk(loop):
            if isinstance(n, ast.Assign) and isinstance(n.targets[0], ast.Name) and n.targets[0].id in lo_hi:
                fa = facts_at(n)
                v = unparse(n.value)
                if any(l.endswith("._raw_start") and op == ">" and r == "instant" for (l, op, r) in fa) and "+" not in v:
                    shrink_up = True
                if any(l.endswith("._raw_end") and op == "<=" and r == "instant" for (l, op, r) in fa) and v.endswith("+ 1"):
                    shrink_lo = True
        ok = cand_ok and bool(rets) and shrink_up and shrink_lo
        if cand_ok and not (shrink_up and shrink_lo):
            why = "the search range is not shrunk on both arms"
    if ok:
        rr.ok({"fn": f.qual, "returns": "candidate only when start <= instant < end; both arms shrink the range"})
    else:
        rr.fail(f.qual, f"binary search does not return exactly the period with start <= instant < end ({why})", ctx.loc(f))
    rr.inst()
    # tail hand-off in get_zone_interval: under (tail present, instant >= tail start) the tail's interval is returned, except that an
    # interval starting before the tail start is replaced by the stored, clamped first tail interval
    tail_rets = [n for n in own_nodes(f.node) if isinstance(n, (ast.Return,)) and n.value is not None and not any(n is x for w in wl for x in ast.walk(w))]
    clamp_seen = tail_seen = False
    for r in tail_rets:
        vals = [r.value.body, r.value.orelse] if isinstance(r.value, ast.IfExp) else [r.value]
        conds = [[(unparse(r.value.test), True)], [(unparse(r.value.test), False)]] if isinstance(r.value, ast.IfExp) else [[]]
        for v, extra in zip(vals, conds):
            fa = set(facts_at(r))
            for t, pos in extra:
                from ..exc import atoms

                fa |= atoms(ast.parse(t, mode="eval").body, pos)
            fa = {(norm(a), o, norm(b)) for (a, o, b) in fa}
            guard = ("instant", ">=", "self.__tail_zone_start") in fa and ("self.__tail_zone", "is not", "None") in fa
            vt = norm(unparse(v))
            if guard and "first_tail_zone_interval" in vt and any(a.endswith("._raw_start") and o == "<" and b == "self.__tail_zone_start" for (a, o, b) in fa):
                clamp_seen = True
            if guard and "first_tail_zone_interval" not in vt and any(a.endswith("._raw_start") and o == ">=" and b == "self.__tail_zone_start" for (a, o, b) in fa):
                tail_seen = True
    init = M.func("_PrecalculatedDateTimeZone.__init__")
    stores = {}
    for n in own_nodes(init.node):
        if isinstance(n, ast.Assign) and isinstance(n.targets[0], ast.Attribute) and unparse(n.targets[0].value) == "self":
            stores.setdefault(n.targets[0].attr, []).append((norm(unparse(inline_locals(init.node, n.value))), n))
    start_ok = [v for v, _ in stores.get("__tail_zone_start", [])] == ["intervals[-1]._raw_end"]
    first_vals = [(v, n) for v, n in stores.get("__first_tail_zone_interval", []) if v != "None"]
    first_ok = len(first_vals) == 1 and first_vals[0][0] == "tail_zone.get_zone_interval(self.__tail_zone_start)._with_start(self.__tail_zone_start)" and ("tail_zone", "is not", "None") in facts_at(first_vals[0][1])
    ok = clamp_seen and tail_seen and start_ok and first_ok
    if ok:
        rr.ok({"fn": f.qual, "tail": "first tail interval clamped to the end of the last period"})
    else:
        rr.fail(f.qual, f"tail hand-off: the first tail interval is not clamped to start where the precalculated periods end (lookup clamps: {clamp_seen}, lookup returns the tail interval otherwise: {tail_seen}, tail start = end of last period: {start_ok}, stored first interval clamped: {first_ok})", ctx.loc(f))
    # recurrence stepping: after +-1 the guard must admit every year up to MAX / down to MIN before asking for the occurrence
    from ..oblig import interp

    MAXY = M.fold_class_const("_GregorianYearMonthDayCalculator", "_MAX_GREGORIAN_YEAR")
    MINY = M.fold_class_const("_GregorianYearMonthDayCalculator", "_MIN_GREGORIAN_YEAR")
    for q, edge, want in (("_ZoneRecurrence._next", "hi", MAXY), ("_ZoneRecurrence._previous_or_same", "lo", MINY)):
        g = M.func(q)
        rr.inst()
        I = interp(ctx)
        seen = []

        def on_call(call, callee, bound, st, fn, seen=seen):
            if callee.name == "_get_occurrence_for_year":
                seen.append((call.lineno, list(bound.values())[0]))

        I.on_call = on_call
        I.max_depth = 1  # only this function's own guards matter: callees are summarised by their declared types
        I.analyse(g)
        rr.states += I.steps
        last_line = max((ln for ln, _ in seen), default=None)
        vals = [v for ln, v in seen if ln == last_line]
        good = bool(vals) and all(isinstance(v, Iv) for v in vals)
        if good:
            ext = max(v.hi for v in vals) if edge == "hi" else min(v.lo for v in vals)
            good = ext == want  # the extreme year is admitted on some path and never exceeded on any
        if good:
            rr.ok({"fn": q, "stepped_year": [repr(v) for v in vals], "admits": want})
        else:
            rr.fail(q, f"after stepping the year the guard leaves {vals} for the occurrence lookup; it must admit every year {'up to ' + str(want) if edge == 'hi' else 'down to ' + str(want)} (a whole year of transitions is skipped or an invalid year is used)", ctx.loc(g))
    return rr


@rule("C04")
def r04_5_half_open(ctx: Ctx) -> RuleResult:
    from .c05 import r05_5_zone_interval_contains

    r = r05_5_zone_interval_contains(ctx)
    r.rule = "R04.5"
    for f in r.findings:
        f.rule = "R04.5"
    return r


@rule("C04")
def r04_7_cache_node(ctx: Ctx) -> RuleResult:
    from .c13 import r13_2_zone_interval_cache

    r = r13_2_zone_interval_cache(ctx)
    r.rule = "R04.7"
    for f in r.findings:
        f.rule = "R04.7"
    return r


ZONE_MAP_MODULES = ("pyoda_time/time_zones/_standard_daylight_alternating_map.py", "pyoda_time/time_zones/_precalculated_date_time_zone.py",
                    "pyoda_time/time_zones/_zone_recurrence.py", "pyoda_time/time_zones/_caching_zone_interval_map.py", "pyoda_time/time_zones/_zone_year_offset.py")


@rule("C04")
def r04_8_queries_are_used(ctx: Ctx) -> RuleResult:
    """Every transition / interval obtained from a recurrence or map query takes part in the decision that follows: a query result
    bound to a local that is never read means the comparison below it looks at something else."""
    rr = RuleResult("R04.8", "zone-interval maps: every recurrence / transition / interval query bound to a local is read afterwards (no decision is taken on a stale or wrong operand while the queried one is dropped)", min_instances=15)
    M = ctx.M
    for f in sorted(M.funcs.values(), key=lambda g: g.qual):
        if f.mod.rel not in ZONE_MAP_MODULES or isinstance(f.node, ast.Lambda):
            continue
        loads: dict[str, int] = {}
        for n in ast.walk(f.node):
            if isinstance(n, ast.Name) and isinstance(n.ctx, ast.Load):
                loads[n.id] = loads.get(n.id, 0) + 1
        for n in own_nodes(f.node):
            if isinstance(n, (ast.Assign, ast.AnnAssign)) and n.value is not None and isinstance(n.value, ast.Call):
                tgts = n.targets if isinstance(n, ast.Assign) else [n.target]
                for t in tgts:
                    if isinstance(t, ast.Name) and not t.id.startswith("_"):
                        rr.inst(nontrivial=False)
                        if loads.get(t.id, 0) == 0:
                            rr.fail(f.qual, f"`{t.id} = {unparse(n.value)[:60]}` is never read: the decision that follows does not depend on this query", ctx.loc(f, n))
                        else:
                            rr.ok()
    return rr


# shared with C02: zone rules anchored on 29 February must use the calendar's leap predicate (home id R02.5)
# (cross-registration moved to sa/rules/shared.py: SHARED)

# (cross-registration moved to sa/rules/shared.py: SHARED)


@rule("C04")
def r04_9_end_of_time_years(ctx: Ctx) -> RuleResult:
    """_ZoneRecurrence handles instants whose local time (instant + rule offset) falls off either end of the time line by
    pretending the query was made in the first / last Gregorian year.  The year must match the end that was hit: the minimum year
    only where the facts say the local instant is the before-min sentinel, the maximum year only where it is invalid and *not*
    the before-min sentinel (i.e. after-max).  The two branches are mirror images in `_next` and `_previous_or_same`, which is
    how one gets pasted into the other."""
    from ..exc import facts_at

    rr = RuleResult("R04.9", "recurrence: the pretend-year at the ends of time is the minimum year under the before-min sentinel and the maximum year under the after-max one", min_instances=2)
    c = ctx.M.cls("_ZoneRecurrence")
    for f in c.all_defs:
        if isinstance(f.node, ast.Lambda):
            continue
        for n in own_nodes(f.node):
            if not (isinstance(n, ast.Assign) and isinstance(n.value, ast.Attribute) and n.value.attr in ("_MIN_GREGORIAN_YEAR", "_MAX_GREGORIAN_YEAR")):
                continue
            rr.inst()
            facts = facts_at(n)
            before = any(op == "==" and "before_min_value" in b for a, op, b in facts) or any(op == "==" and "before_min_value" in a for a, op, b in facts)
            not_before = any(op == "!=" and ("before_min_value" in b or "before_min_value" in a) for a, op, b in facts)
            after = any(op == "==" and ("after_max_value" in b or "after_max_value" in a) for a, op, b in facts) or (not_before and any(op == "falsy" and a.endswith("_is_valid") for a, op, b in facts))
            want_min = n.value.attr == "_MIN_GREGORIAN_YEAR"
            if (want_min and before and not after) or (not want_min and after and not before):
                rr.ok({"fn": f.qual, "year": n.value.attr, "under": "before-min sentinel" if want_min else "after-max sentinel"})
            else:
                rr.fail(f.qual, f"`{unparse(n)[:70]}` is executed when the local instant is the {'after-max' if after else 'before-min' if before else 'unknown'} sentinel: the recurrence is evaluated for the wrong end of time", ctx.loc(f, n))
    return rr


# ------------------------------------------------------------------------------------------- R04.10 / R04.11


@rule("C04")
def r04_10_masked_index_fits_table(ctx: Ctx) -> RuleResult:
    """Fixed-size tables (`self.x = [v] * K`) are indexed by a value reduced with `& MASK` or `% N`: the table must have at least
    MASK + 1 (resp. N) slots, or some period hashes to a slot that does not exist and the lookup raises IndexError for one
    32-day window in every 16384 days."""
    rr = RuleResult("R04.10", "every fixed-size table indexed through `& MASK` / `% N` has at least MASK + 1 / N slots", min_instances=1)
    M = ctx.M
    for lst in M.classes.values():
        for c in lst:
            if not c.mod.rel.startswith("pyoda_time/") or "_compatibility" in c.mod.rel:
                continue
            sizes: dict[str, tuple[int, ast.AST, object]] = {}
            for g in c.methods.values():
                if isinstance(g.node, ast.Lambda):
                    continue
                for n in own_nodes(g.node):
                    if isinstance(n, ast.Assign) and isinstance(n.value, ast.BinOp) and isinstance(n.value.op, ast.Mult):
                        for lst_e, k_e in ((n.value.left, n.value.right), (n.value.right, n.value.left)):
                            if isinstance(lst_e, ast.List) and len(lst_e.elts) == 1:
                                k = M.fold(k_e, c, c.mod)
                                for t in n.targets:
                                    if isinstance(t, ast.Attribute) and isinstance(k, int):
                                        sizes[t.attr] = (k, n, g)
            if not sizes:
                continue
            for g in c.methods.values():
                if isinstance(g.node, ast.Lambda):
                    continue
                defs: dict[str, ast.expr] = {}
                for n in own_nodes(g.node):
                    if isinstance(n, ast.Assign) and len(n.targets) == 1 and isinstance(n.targets[0], ast.Name):
                        defs[n.targets[0].id] = n.value
                for n in own_nodes(g.node):
                    if isinstance(n, ast.Subscript) and isinstance(n.value, ast.Attribute) and n.value.attr in sizes:
                        idx = n.slice
                        if isinstance(idx, ast.Name) and idx.id in defs:
                            idx = defs[idx.id]
                        bound = None
                        if isinstance(idx, ast.BinOp) and isinstance(idx.op, ast.BitAnd):
                            for side in (idx.right, idx.left):
                                v = M.fold(side, c, c.mod)
                                if isinstance(v, int) and v >= 0:
                                    bound = v + 1
                        elif isinstance(idx, ast.BinOp) and isinstance(idx.op, ast.Mod):
                            v = M.fold(idx.right, c, c.mod)
                            if isinstance(v, int) and v > 0:
                                bound = v
                        if bound is None:
                            continue
                        rr.inst()
                        size = sizes[n.value.attr][0]
                        if size >= bound:
                            rr.ok({"table": f"{c.name}.{n.value.attr}", "slots": size, "index_values": bound})
                        else:
                            rr.fail(g.qual, f"`{unparse(n)[:60]}`: the index takes {bound} values (0..{bound - 1}) but the table `{n.value.attr}` is created with {size} slots", ctx.loc(g, n))
    return rr


@rule("C04")
def r04_11_intervals_reach_the_ends_of_time(ctx: Ctx) -> RuleResult:
    """Zone intervals that are unbounded on one side carry the sentinels Instant._before_min_value() / _after_max_value() (has_start /
    has_end False).  Instant.min_value / max_value are ordinary instants: an interval ending AT max_value does not contain it
    (ends are exclusive), so the timeline is no longer covered.  Every ZoneInterval construction in the zone layer is checked."""
    rr = RuleResult("R04.11", "no ZoneInterval is built with the ordinary instants Instant.min_value / max_value as a bound: unbounded sides use the before-min / after-max sentinels", min_instances=5)
    M = ctx.M
    for f in sorted(set(M.func_of_node.values()), key=lambda x: x.qual):
        if isinstance(f.node, ast.Lambda) or not f.mod.rel.startswith("pyoda_time/") or "/testing/" in f.mod.rel:
            continue
        for n in own_nodes(f.node):
            if isinstance(n, ast.Call) and unparse(n.func).split(".")[-1] in ("ZoneInterval", "_with_start", "_with_end") and (unparse(n.func).split(".")[-1] != "ZoneInterval" or unparse(n.func) == "ZoneInterval"):
                rr.inst()
                bad = [unparse(a) for a in list(n.args) + [k.value for k in n.keywords] if unparse(a) in ("Instant.max_value", "Instant.min_value")]
                if bad:
                    rr.fail(f.qual, f"`{unparse(n)[:80]}` uses {bad[0]} as an interval bound: that instant is then outside every interval (ends are exclusive) / the interval no longer extends to the end of time", ctx.loc(f, n))
                else:
                    rr.ok()
    # the fixed zone's single interval is unbounded on both sides
    fz = M.func("_FixedDateTimeZone.__init__")
    calls = [n for n in own_nodes(fz.node) if isinstance(n, ast.Call) and unparse(n.func) == "ZoneInterval"]
    rr.inst()
    if len(calls) != 1:
        raise AnalysisError("_FixedDateTimeZone.__init__: expected one ZoneInterval construction")
    from ..kit import bind_args

    zi = M.find_method(M.cls("ZoneInterval"), "__init__")
    b = bind_args(calls[0], zi) if zi is not None else {k.arg: k.value for k in calls[0].keywords}
    s, e = unparse(b.get("start")) if b.get("start") is not None else "", unparse(b.get("end")) if b.get("end") is not None else ""
    if s == "Instant._before_min_value()" and e == "Instant._after_max_value()":
        rr.ok({"fixed zone interval": f"[{s}, {e})"})
    else:
        rr.fail(fz.qual, f"the fixed zone's only interval is [{s}, {e}): it must run from Instant._before_min_value() to Instant._after_max_value() to cover the whole timeline", ctx.loc(fz, calls[0]))
    return rr


@rule("C04")
def r04_12_cache_periods_stay_in_range(ctx: Ctx) -> RuleResult:
    """The zone-interval cache rounds an instant's day number down to a 32-day period and asks the underlying map about the start
    of that period.  The first period starts before Instant.min_value: every instant built while filling a cache node must be
    proved inside [Instant._MIN_DAYS, Instant._MAX_DAYS] for every period a valid instant can fall in (abstract evaluation of the
    node factory over the whole period range), or lookups in the first 22 days of the timeline raise OverflowError."""
    from ..oblig import interp

    rr = RuleResult("R04.12", "zone-interval cache: every instant constructed while filling a node lies inside the Instant range for every period of the timeline (range prover over the node factory)", min_instances=1)
    M = ctx.M
    f = M.func("_CachingZoneIntervalMap.__HashArrayCache._HashCacheNode._create_node")
    lo, hi = M.fold_class_const("Instant", "_MIN_DAYS"), M.fold_class_const("Instant", "_MAX_DAYS")
    shift = M.fold(ast.parse("_PERIOD_SHIFT", mode="eval").body, None, f.mod)
    if not all(isinstance(v, int) for v in (lo, hi, shift)):
        raise AnalysisError("Instant day range / _PERIOD_SHIFT not foldable")
    seen: list[tuple[ast.Call, object]] = []

    def on_call(c, callee, bound, st, fn):
        if callee.name in ("_from_untrusted_duration", "_from_trusted_duration"):
            seen.append((c, bound.get("duration")))

    I = interp(ctx)
    I.on_call = on_call
    pname = f.value_params[0].arg
    I.analyse(f, params={pname: Iv(lo >> shift, hi >> shift), f.value_params[1].arg: Obj("_IZoneIntervalMap")})
    if not seen:
        raise AnalysisError(f"{f.qual}: no Instant construction seen in the abstract run")
    for c, d in seen:
        rr.inst()
        days = next((v for k, v in getattr(d, "fields", {}).items() if k.endswith("__days")), None)
        if isinstance(days, Iv) and days.lo >= lo and days.hi <= hi:
            rr.ok({"call": unparse(c)[:70], "days": str(days)})
        else:
            rr.fail(f.qual, f"`{unparse(c)[:80]}`: for periods {lo >> shift}..{hi >> shift} the day number is {days}, not inside [{lo}, {hi}]: the first / last period of the timeline raises OverflowError instead of being cached", ctx.loc(f, c))
    return rr


@rule("C04")
def r04_13_wall_offset_decides_local_time(ctx: Ctx) -> RuleResult:
    """Local time = instant + WALL offset; the savings component only says how the wall offset splits into standard + daylight.
    (a) ZoneInterval derives its local start and local end with the same offset expression, the wall offset; (b) the code that
    maps local times to instants and resolves gaps / overlaps (DateTimeZone, the resolvers, ZoneLocalMapping) never reads
    `savings`: shifting a skipped time by the later interval's savings instead of the offset difference is right for a plain DST
    gap and wrong for every gap caused by a change of standard time (Moscow 2011, Caracas 2016, Apia 2011)."""
    rr = RuleResult("R04.13", "local bounds of a zone interval are instant + wall offset on both sides; local-time mapping and resolution never read `savings`", min_instances=4)
    M = ctx.M
    zi = M.func("ZoneInterval.__init__")
    rr.inst()
    args = {}
    for n in own_nodes(zi.node):
        if isinstance(n, (ast.Assign, ast.AnnAssign)) and n.value is not None and isinstance(n.value, ast.Call) and isinstance(n.value.func, ast.Attribute) and n.value.func.attr == "_safe_plus" and n.value.args:
            t = n.targets[0] if isinstance(n, ast.Assign) else n.target
            args[unparse(t).split("__")[-1]] = unparse(n.value.args[0])
    if set(args) >= {"local_start", "local_end"} and args["local_start"] == args["local_end"] == "wall_offset":
        rr.ok({"ZoneInterval": "local_start / local_end = start / end + wall_offset"})
    else:
        rr.fail(zi.qual, f"local bounds are computed with {args}: both must be the raw bound plus `wall_offset`", ctx.loc(zi))
    for f in sorted(set(M.func_of_node.values()), key=lambda x: x.qual):
        if f.mod.rel not in ("pyoda_time/time_zones/_resolvers.py", "pyoda_time/_date_time_zone.py", "pyoda_time/time_zones/_zone_local_mapping.py"):
            continue
        rr.inst()
        nodes = ast.walk(f.node) if isinstance(f.node, ast.Lambda) else own_nodes(f.node)
        bad = next((n for n in nodes if isinstance(n, ast.Attribute) and n.attr == "savings" and isinstance(n.ctx, ast.Load)), None)
        if bad is None:
            rr.ok()
        else:
            rr.fail(f.qual, f"`{unparse(getattr(bad, '_parent', bad))[:80]}` reads `savings` while mapping a local time: only wall offsets determine which instants render to a local time", ctx.loc(f, bad))
    return rr


# ------------------------------------------------------------------------------------------- R04.14 weekday adjustment of a rule's date


@rule("C04")
def r04_14_weekday_adjustment(ctx: Ctx) -> RuleResult:
    """A zone rule such as "last Sunday of October" or "first Sunday on or after the 8th" is evaluated by taking an anchor date and
    moving to the requested weekday: forwards (advance) or backwards, by 0 days if the anchor already falls on it.  The statements
    that compute the step are followed for all 7 x 7 x 2 combinations of (weekday of the anchor, requested weekday, direction),
    with the three inputs substituted as constants, and the resulting step is compared with the definition:
    0 when equal, (wanted - current) mod 7 forwards, -((current - wanted) mod 7) backwards."""
    import copy

    rr = RuleResult("R04.14", "the weekday adjustment of a zone rule's anchor date moves by the definitional number of days for all 98 combinations of anchor weekday, requested weekday and direction", min_instances=98)
    M = ctx.M
    f = M.func("_ZoneYearOffset._get_occurrence_for_year")
    block = next((n for n in f.body if isinstance(n, ast.If) and "day_of_week" in unparse(n.test) and any(isinstance(x, ast.Call) and isinstance(x.func, ast.Attribute) and x.func.attr == "plus_days" for x in ast.walk(n))), None)
    if block is None:
        raise AnalysisError(f"{f.qual}: weekday adjustment block not found")

    class _Stop(Exception):
        pass

    def run(cur: int, want: int, adv: bool) -> int | None:
        class Sub(ast.NodeTransformer):
            def visit_Attribute(self, node):  # noqa: N802
                t = unparse(node)
                if t == "date.day_of_week":
                    return ast.Constant(value=cur)
                if t.endswith("__day_of_week") and t.startswith("self."):
                    return ast.Constant(value=want)
                if t == "self.advance_day_of_week" or t.endswith("__advance_day_of_week"):
                    return ast.Constant(value=adv)
                return self.generic_visit(node)

        body = [Sub().visit(copy.deepcopy(s)) for s in block.body]
        env: dict[str, object] = {}
        step: list[int] = []

        def ev(e):
            if isinstance(e, ast.Constant):
                return e.value
            if isinstance(e, ast.Name):
                if e.id in env:
                    return env[e.id]
                raise _Stop(e.id)
            if isinstance(e, ast.BinOp):
                a, b = ev(e.left), ev(e.right)
                ops = {ast.Add: lambda: a + b, ast.Sub: lambda: a - b, ast.Mod: lambda: a % b, ast.Mult: lambda: a * b, ast.FloorDiv: lambda: a // b}
                if type(e.op) in ops:
                    return ops[type(e.op)]()
                raise _Stop("op")
            if isinstance(e, ast.UnaryOp):
                v = ev(e.operand)
                return (not v) if isinstance(e.op, ast.Not) else -v if isinstance(e.op, ast.USub) else v
            if isinstance(e, ast.BoolOp):
                vals = [ev(x) for x in e.values]
                return all(vals) if isinstance(e.op, ast.And) else any(vals)
            if isinstance(e, ast.Compare):
                left = ev(e.left)
                for op, c in zip(e.ops, e.comparators):
                    r = ev(c)
                    ok = {ast.Eq: left == r, ast.NotEq: left != r, ast.Lt: left < r, ast.LtE: left <= r, ast.Gt: left > r, ast.GtE: left >= r}.get(type(op))
                    if ok is None:
                        raise _Stop("cmp")
                    if not ok:
                        return False
                    left = r
                return True
            if isinstance(e, ast.IfExp):
                return ev(e.body) if ev(e.test) else ev(e.orelse)
            if isinstance(e, ast.Call) and isinstance(e.func, ast.Attribute) and e.func.attr == "plus_days" and e.args:
                step.append(ev(e.args[0]))
                return "date"
            if isinstance(e, ast.Call) and isinstance(e.func, ast.Name) and e.func.id == "_csharp_modulo" and len(e.args) == 2:
                a, b = ev(e.args[0]), ev(e.args[1])
                r = abs(a) % abs(b)
                return -r if a < 0 else r
            raise _Stop(type(e).__name__)

        def walk(stmts):
            for s in stmts:
                if isinstance(s, (ast.Assign, ast.AnnAssign)) and s.value is not None:
                    t = s.targets[0] if isinstance(s, ast.Assign) else s.target
                    v = ev(s.value)
                    if isinstance(t, ast.Name):
                        env[t.id] = v
                elif isinstance(s, ast.AugAssign) and isinstance(s.target, ast.Name):
                    a, b = env[s.target.id], ev(s.value)
                    env[s.target.id] = a + b if isinstance(s.op, ast.Add) else a - b if isinstance(s.op, ast.Sub) else a % b
                elif isinstance(s, ast.If):
                    walk(s.body if ev(s.test) else s.orelse)
                elif isinstance(s, (ast.Expr, ast.Pass)):
                    if isinstance(s, ast.Expr):
                        ev(s.value)
                else:
                    raise _Stop(type(s).__name__)

        try:
            walk(body)
        except _Stop:
            return None
        return sum(step) if step else 0

    for cur in range(1, 8):
        for want in range(1, 8):
            for adv in (True, False):
                rr.inst()
                got = run(cur, want, adv)
                exp = 0 if cur == want else ((want - cur) % 7 if adv else -((cur - want) % 7))
                if got == exp:
                    rr.ok()
                elif got is None:
                    rr.fail(f.qual, "the weekday adjustment uses a construct the follower does not evaluate (not decided)", ctx.loc(f, block))
                else:
                    rr.fail(f.qual, f"anchor on weekday {cur}, rule asks for weekday {want} {'on or after' if adv else 'on or before'}: the date is moved by {got} days, the definition gives {exp}", ctx.loc(f, block))
    return rr


@rule("C04")
def r04_15_alternating_map_crosswise_savings(ctx: Ctx) -> RuleResult:
    """A standard / daylight pair of yearly rules: the NEXT start of daylight time is computed as seen from standard time (previous
    savings zero) and the next start of standard time as seen from daylight time (previous savings = the daylight savings) -
    crosswise.  Giving the daylight rule its own savings moves every spring-forward of a wall-time rule by that amount.  Which rule
    is in force is a question of WHICH OBJECT `__next_transition` returned: it is compared by identity (or ==) with the stored
    recurrences, never through one of their fields (two rules may share an abbreviation, as Lord Howe's do)."""
    rr = RuleResult("R04.15", "standard/daylight alternating map: the daylight rule is asked with previous savings zero and the standard rule with the daylight savings; the current rule is identified by the recurrence object, not by a field", min_instances=3)
    M = ctx.M
    c = M.cls("_StandardDaylightAlternatingMap")
    for f in sorted(c.all_defs, key=lambda g: g.qual):
        if isinstance(f.node, ast.Lambda):
            continue
        for n in own_nodes(f.node):
            if isinstance(n, ast.Call) and isinstance(n.func, ast.Attribute) and n.func.attr in ("_next_or_fail", "_previous_or_same_or_fail", "_next", "_previous_or_same") and len(n.args) >= 3:
                recv = unparse(n.func.value)
                third = unparse(n.args[2])
                if recv.endswith("__dst_recurrence"):
                    rr.inst()
                    if third == "Offset.zero":
                        rr.ok({"call": unparse(n)[:70]})
                    else:
                        rr.fail(f.qual, f"`{unparse(n)[:90]}`: the daylight rule starts from standard time, so its previous savings are Offset.zero, not `{third}`", ctx.loc(f, n))
                elif recv.endswith("__standard_recurrence"):
                    rr.inst()
                    if third.endswith("__dst_recurrence.savings"):
                        rr.ok({"call": unparse(n)[:70]})
                    else:
                        rr.fail(f.qual, f"`{unparse(n)[:90]}`: the standard rule starts from daylight time, so its previous savings are the daylight rule's savings, not `{third}`", ctx.loc(f, n))
            if isinstance(n, ast.Compare) and len(n.ops) == 1 and any("recurrence" in unparse(x) for x in [n.left] + n.comparators):
                sides = [n.left, n.comparators[0]]
                if all(isinstance(x, ast.Attribute) and x.attr in ("name", "savings", "year_offset") and "recurrence" in unparse(x.value) for x in sides):
                    rr.inst()
                    rr.fail(f.qual, f"`{unparse(n)[:80]}` identifies the rule in force by a field; two rules can share it - compare the recurrence objects", ctx.loc(f, n))
                elif all("recurrence" in unparse(x) and not (isinstance(x, ast.Attribute) and x.attr in ("name", "savings")) for x in sides):
                    rr.inst()
                    rr.ok({"comparison": unparse(n)[:70]})
    return rr


@rule("C04")
def r04_16_tie_at_the_end_of_time(ctx: Ctx) -> RuleResult:
    """After the last transition of the last year both rules report their next transition at the end of time; which rule is in
    force then depends on the hemisphere: whichever of the two PREVIOUS transitions is later was the last one taken.  The method
    that picks the rule must ask both recurrences for their previous transition and return one rule or the other on a comparison of
    the two - assuming standard time turns Sydney's last summer into an overlapping standard interval."""
    rr = RuleResult("R04.16", "standard/daylight alternating map: when both next transitions are at the end of time, the rule in force is decided by comparing the two previous transitions", min_instances=1)
    M = ctx.M
    c = M.cls("_StandardDaylightAlternatingMap")
    fs = [f for f in c.all_defs if not isinstance(f.node, ast.Lambda) and any(isinstance(n, ast.Return) and isinstance(n.value, ast.Tuple) and len(n.value.elts) == 2 and "recurrence" in unparse(n.value.elts[1]) for n in own_nodes(f.node))]
    if not fs:
        raise AnalysisError("_StandardDaylightAlternatingMap: no method returning (transition, recurrence) found")
    for f in fs:
        rr.inst()
        prev = {}
        for n in own_nodes(f.node):
            if isinstance(n, (ast.Assign, ast.AnnAssign)) and getattr(n, "value", None) is not None and isinstance(n.value, ast.Call) and isinstance(n.value.func, ast.Attribute) and n.value.func.attr.startswith("_previous"):
                recv = unparse(n.value.func.value)
                kind = "dst" if recv.endswith("__dst_recurrence") else "standard" if recv.endswith("__standard_recurrence") else None
                for t in [n.target] if isinstance(n, ast.AnnAssign) else n.targets:
                    if isinstance(t, ast.Name) and kind:
                        prev[t.id] = kind
        # locals derived from one of the two previous transitions (its instant held in a temporary) stand for that transition
        changed = True
        while changed:
            changed = False
            for n in own_nodes(f.node):
                if isinstance(n, (ast.Assign, ast.AnnAssign)) and getattr(n, "value", None) is not None and not isinstance(n.value, ast.Call):
                    kinds = {prev[x.id] for x in ast.walk(n.value) if isinstance(x, ast.Name) and x.id in prev}
                    if len(kinds) == 1:
                        for t in [n.target] if isinstance(n, ast.AnnAssign) else n.targets:
                            if isinstance(t, ast.Name) and t.id not in prev:
                                prev[t.id] = next(iter(kinds))
                                changed = True
        decided = False
        for n in own_nodes(f.node):
            if isinstance(n, ast.If):
                used = {prev[x.id] for x in ast.walk(n.test) if isinstance(x, ast.Name) and x.id in prev}
                if used == {"dst", "standard"} and any(isinstance(x, ast.Compare) for x in ast.walk(n.test)):
                    decided = True
        rets = {unparse(n.value.elts[1]).split("__")[-1] for n in own_nodes(f.node) if isinstance(n, ast.Return) and isinstance(n.value, ast.Tuple) and len(n.value.elts) == 2}
        if set(prev.values()) != {"dst", "standard"}:
            rr.fail(f.qual, f"the previous transitions of both rules are not consulted (found: {sorted(set(prev.values())) or 'none'}): with both next transitions at the end of time the rule in force cannot be told - a southern-hemisphere zone ends the year in daylight time", ctx.loc(f))
        elif not decided:
            rr.fail(f.qual, "no branch compares the two previous transitions: the rule in force at the end of time is assumed", ctx.loc(f))
        else:
            rr.ok({"fn": f.qual, "previous transitions": sorted(prev), "rules returned": sorted(rets)})
    return rr


@rule("C04")
def r04_17_single_transition_zone_boundary(ctx: Ctx) -> RuleResult:
    """The testing zone with one transition: zone intervals are half-open [start, end), so the transition instant itself belongs
    to the LATE interval.  get_zone_interval must decide by containment in one of its two intervals or by `instant >= transition`
    (late) / `instant < transition` (early); `>` / `<=` hands the transition instant to the interval that ends there."""
    rr = RuleResult("R04.17", "SingleTransitionDateTimeZone: the transition instant belongs to the late interval (containment test or >= / <, never > / <=)", min_instances=1)
    M = ctx.M
    c = M.cls("SingleTransitionDateTimeZone", required=True)
    f = M.find_method(c, "get_zone_interval")
    if f is None:
        raise AnalysisError("SingleTransitionDateTimeZone.get_zone_interval missing")
    rr.inst()
    cmps = [n for n in own_nodes(f.node) if isinstance(n, ast.Compare) and len(n.ops) == 1]
    if not cmps:
        raise AnalysisError(f"{f.qual}: no comparison found")
    bad = None
    for n in cmps:
        op = n.ops[0]
        txt = unparse(n)
        if isinstance(op, (ast.In, ast.NotIn)) and "interval" in unparse(n.comparators[0]):
            continue
        if "transition" in txt:
            inst_left = "transition" not in unparse(n.left)
            # instant OP transition
            strict_wrong = (isinstance(op, ast.Gt) or isinstance(op, ast.LtE)) if inst_left else (isinstance(op, ast.Lt) or isinstance(op, ast.GtE))
            if strict_wrong:
                bad = n
    if bad is None:
        rr.ok({"fn": f.qual, "tests": [unparse(n)[:50] for n in cmps]})
    else:
        rr.fail(f.qual, f"`{unparse(bad)}` puts the transition instant itself into the early interval, whose end (exclusive) it is: the interval returned for that instant does not contain it", ctx.loc(f, bad))
    return rr


@rule("C04")
def r04_18_transitions_pair_crosswise_and_may_be_at_the_end_of_time(ctx: Ctx) -> RuleResult:
    """`__next_transition` returns (transition, recurrence the transition goes FROM): the next start of standard time ends a
    stretch of the daylight rule and the reverse, so every returned pair is crosswise - (standard_transition, dst recurrence) or
    (dst_transition, standard recurrence).  And a transition may lie at the end of time (the recurrences return such transitions
    for the last year): the _Transition record accepts any instant, it has no argument check."""
    rr = RuleResult("R04.18", "standard/daylight alternating map: every returned (transition, recurrence) pair is crosswise; _Transition accepts the end-of-time instants (no argument check)", min_instances=4)
    M = ctx.M
    c = M.cls("_StandardDaylightAlternatingMap")
    for f in sorted(c.all_defs, key=lambda g: g.qual):
        if isinstance(f.node, ast.Lambda):
            continue
        for n in own_nodes(f.node):
            if isinstance(n, ast.Return) and isinstance(n.value, ast.Tuple) and len(n.value.elts) == 2 and "recurrence" in unparse(n.value.elts[1]) and isinstance(n.value.elts[0], ast.Name):
                rr.inst()
                tr, rc = n.value.elts[0].id, unparse(n.value.elts[1])
                k_tr = "dst" if "dst" in tr else "standard" if "standard" in tr else None
                k_rc = "dst" if "dst" in rc else "standard" if "standard" in rc else None
                if k_tr is None or k_rc is None:
                    rr.undecided.append(f"{f.qual}: pair `{unparse(n.value)}` not classified")
                    rr.ok()
                elif k_tr != k_rc:
                    rr.ok({"pair": unparse(n.value)[:70]})
                else:
                    rr.fail(f.qual, f"`return {unparse(n.value)[:80]}` pairs the next {k_tr} transition with the {k_rc} rule as the rule in force: the interval before a transition INTO {k_tr} time belongs to the other rule (Sydney's last summer would be reported with the standard offset)", ctx.loc(f, n))
    t = M.func("_Transition._ctor", required=True)
    rr.inst()
    chk = [n for n in own_nodes(t.node) if isinstance(n, ast.Raise) or (isinstance(n, ast.Call) and "_Preconditions" in unparse(n.func))]
    if chk:
        rr.fail(t.qual, f"`{unparse(chk[0])[:80]}`: the yearly recurrences return transitions at the end of time (before-min / after-max sentinels) for the first and last year, so a check here makes every rule-based zone raise in year 9999", ctx.loc(t, chk[0]))
    else:
        rr.ok({"record": t.qual})
    return rr
