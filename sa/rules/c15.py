"""C15 rules."""
from __future__ import annotations

from ..core import Ctx, RuleResult, rule


@rule("C15")
def r15_1_units(ctx: Ctx) -> RuleResult:
    from ..dims import units_rule

    return units_rule(ctx, "R15.1", "C15", 100)


from ..model import UNKNOWN, AnalysisError, mangle, unparse  # noqa: E402
import ast  # noqa: E402


@rule("C15")
def r15_5_numeric_discipline(ctx: Ctx) -> RuleResult:
    from ..numeric import check_numeric

    rr = RuleResult("R15.5", "stdlib bridges use exact integer arithmetic (no float-valued library call or float division on tick/microsecond quantities)", min_instances=3)
    check_numeric(ctx, rr, ["pyoda_time/utility/_csharp_compatibility.py", "pyoda_time/utility/_tick_arithmetic.py", "pyoda_time/_offset.py", "pyoda_time/_instant.py", "pyoda_time/_duration.py"])
    return rr


@rule("C15")
def r15_3_range_guards(ctx: Ctx) -> RuleResult:
    """The guards that protect conversions to datetime admit the whole stdlib range: the year handed to datetime.datetime has
    lower bound exactly MINYEAR on the returning paths (a guard is present on that very quantity and rejects nothing valid);
    Instant.to_datetime_utc rejects exactly the instants strictly before the BCL epoch (order domain, 3 orderings)."""
    from ..absint import Iv, Obj
    from ..oblig import interp
    from ..order import build, run

    rr = RuleResult("R15.3", "stdlib range guards reject exactly the values outside datetime's range", min_instances=4)
    M = ctx.M
    f = M.func("LocalDateTime.to_naive_datetime")
    I = interp(ctx)
    years = []
    orig = I.call

    def call(c, st, fn, depth):
        if depth == 0 and unparse(c.func) in ("datetime.datetime", "datetime"):
            for k in c.keywords:
                if k.arg == "year":
                    years.append((I.ev(k.value, st, fn, depth), unparse(k.value)))
            if c.args:
                years.append((I.ev(c.args[0], st, fn, depth), unparse(c.args[0])))
        return orig(c, st, fn, depth)

    I.call = call  # type: ignore[method-assign]
    I.analyse(f)
    rr.states += I.steps
    rr.inst()
    if not years:
        rr.fail(f.qual, "construction of datetime.datetime(year=...) not found", ctx.loc(f))
    else:
        bad = [(v, t) for v, t in years if not (isinstance(v, Iv) and v.lo == 1)]
        if bad:
            v, t = bad[0]
            rr.fail(f.qual, f"year passed to datetime (`{t}`) is constrained to {v} on the returning paths; datetime's range starts at year 1: the guard is missing on this quantity or rejects valid years", ctx.loc(f))
        else:
            rr.ok({"fn": f.qual, "year_passed": [repr(v) for v, _ in years]})
    # the converted (Gregorian) value supplies every field
    rr.inst()
    conv = None
    for n in ast.walk(f.node):
        if isinstance(n, ast.Assign) and isinstance(n.value, ast.Call) and unparse(n.value.func) == "self.with_calendar" and "gregorian" in unparse(n.value).lower():
            conv = n.targets[0].id if isinstance(n.targets[0], ast.Name) else None
    fields = []
    for n in ast.walk(f.node):
        if isinstance(n, ast.Call) and unparse(n.func) in ("datetime.datetime", "datetime"):
            fields = [unparse(k.value) for k in n.keywords] + [unparse(a) for a in n.args]
    if conv is None:
        rr.fail(f.qual, "value is not converted with with_calendar(CalendarSystem.gregorian) before its fields are read", ctx.loc(f))
    elif not fields or not all(x.startswith(conv + ".") for x in fields):
        rr.fail(f.qual, f"datetime fields {fields} are not all read from the Gregorian-converted value `{conv}`", ctx.loc(f))
    else:
        rr.ok({"fn": f.qual, "converted": conv, "fields": fields})
    # Instant.to_datetime_utc: rejects exactly instants strictly before the BCL epoch
    g = M.func("Instant.to_datetime_utc")
    a, b = build("Instant", "a"), build("Instant", "epoch")
    meta_prop = M.func("_PyodaConstantsMeta.BCL_EPOCH")
    for rel, must_raise in (((-1, 0), True), ((0, -1), True), ((0, 0), False), ((0, 1), False), ((1, 0), False)):
        rr.inst()
        ranks = {}
        for ka, kb, r in zip(a.keys, b.keys, rel):
            for n_ in ka:
                ranks[n_] = 1
            for n_ in kb:
                ranks[n_] = 1 - r
        out = run(ctx, g, a.obj, {}, ranks, stubs={meta_prop.qual: lambda args, kws, recv: b.obj})
        rr.states += 1
        raised_all = not out.values
        if raised_all == must_raise:
            rr.ok({"fn": g.qual, "relation_to_BCL_epoch": rel, "raises": raised_all})
        else:
            rr.fail(g.qual, f"for an instant {'before' if must_raise else 'at or after'} the BCL epoch (key relation {rel}) the conversion {'returns' if must_raise else 'raises'}", ctx.loc(g))
    return rr
