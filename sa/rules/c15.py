"""C15 rules."""
from __future__ import annotations

from ..core import Ctx, RuleResult, anchor_files, rule


@rule("C15")
def r15_1_units(ctx: Ctx) -> RuleResult:
    from ..dims import units_rule

    return units_rule(ctx, "R15.1", "C15", 100)


from ..model import UNKNOWN, AnalysisError, mangle, unparse  # noqa: E402
import ast  # noqa: E402


@rule("C15")
def r15_5_numeric_discipline(ctx: Ctx) -> RuleResult:
    from ..numeric import check_numeric

    rr = RuleResult("R15.5", "stdlib bridges use exact integer arithmetic (no float-valued library call or float division on tick/microsecond quantities)", min_instances=3)
    check_numeric(ctx, rr, sorted(anchor_files("C15")))
    return rr


@rule("C15")
def r15_3_range_guards(ctx: Ctx) -> RuleResult:
    """The guards that protect conversions to datetime admit the whole stdlib range: the year handed to datetime.datetime has
    lower bound exactly MINYEAR on the returning paths (a guard is present on that very quantity and rejects nothing valid);
    Instant.to_datetime_utc rejects exactly the instants strictly before the BCL epoch (order domain, 3 orderings)."""
    from ..absint import Iv, Obj
    from ..oblig import interp
    from ..order import build, run

    rr = RuleResult("R15.3", "stdlib range guards reject exactly the values outside datetime's range", min_instances=4)
    M = ctx.M
    f = M.func("LocalDateTime.to_naive_datetime")
    I = interp(ctx)
    years = []
    orig = I.call

    def call(c, st, fn, depth):
        if depth == 0 and unparse(c.func) in ("datetime.datetime", "datetime"):
            for k in c.keywords:
                if k.arg == "year":
                    years.append((I.ev(k.value, st, fn, depth), unparse(k.value)))
            if c.args:
                years.append((I.ev(c.args[0], st, fn, depth), unparse(c.args[0])))
        return orig(c, st, fn, depth)

    I.call = call  # type: ignore[method-assign]
    I.analyse(f)
    rr.states += I.steps
    rr.inst()
    if not years:
        rr.fail(f.qual, "construction of datetime.datetime(year=...) not found", ctx.loc(f))
    else:
        bad = [(v, t) for v, t in years if not (isinstance(v, Iv) and v.lo == 1)]
        if bad:
            v, t = bad[0]
            rr.fail(f.qual, f"year passed to datetime (`{t}`) is constrained to {v} on the returning paths; datetime's range starts at year 1: the guard is missing on this quantity or rejects valid years", ctx.loc(f))
        else:
            rr.ok({"fn": f.qual, "year_passed": [repr(v) for v, _ in years]})
    # the converted (Gregorian) value supplies every field
    rr.inst()
    conv = None
    for n in ast.walk(f.node):
        if isinstance(n, ast.Assign) and isinstance(n.value, ast.Call) and unparse(n.value.func) == "self.with_calendar" and "gregorian" in unparse(n.value).lower():
            conv = n.targets[0].id if isinstance(n.targets[0], ast.Name) else None
    fields = []
    for n in ast.walk(f.node):
        if isinstance(n, ast.Call) and unparse(n.func) in ("datetime.datetime", "datetime"):
            fields = [unparse(k.value) for k in n.keywords] + [unparse(a) for a in n.args]
    if conv is None:
        rr.fail(f.qual, "value is not converted with with_calendar(CalendarSystem.gregorian) before its fields are read", ctx.loc(f))
    elif not fields or not all(x.startswith(conv + ".") for x in fields):
        rr.fail(f.qual, f"datetime fields {fields} are not all read from the Gregorian-converted value `{conv}`", ctx.loc(f))
    else:
        rr.ok({"fn": f.qual, "converted": conv, "fields": fields})
    # Instant.to_datetime_utc: rejects exactly instants strictly before the BCL epoch
    g = M.func("Instant.to_datetime_utc")
    a, b = build("Instant", "a"), build("Instant", "epoch")
    meta_prop = M.func("_PyodaConstantsMeta.BCL_EPOCH")
    for rel, must_raise in (((-1, 0), True), ((0, -1), True), ((0, 0), False), ((0, 1), False), ((1, 0), False)):
        rr.inst()
        ranks = {}
        for ka, kb, r in zip(a.keys, b.keys, rel):
            for n_ in ka:
                ranks[n_] = 1
            for n_ in kb:
                ranks[n_] = 1 - r
        out = run(ctx, g, a.obj, {}, ranks, stubs={meta_prop.qual: lambda args, kws, recv: b.obj})
        rr.states += 1
        raised_all = not out.values
        if raised_all == must_raise:
            rr.ok({"fn": g.qual, "relation_to_BCL_epoch": rel, "raises": raised_all})
        else:
            rr.fail(g.qual, f"for an instant {'before' if must_raise else 'at or after'} the BCL epoch (key relation {rel}) the conversion {'returns' if must_raise else 'raises'}", ctx.loc(g))
    return rr


@rule("C15")
def r15_6_timedelta_truncates(ctx: Ctx) -> RuleResult:
    """Duration.to_timedelta is documented to truncate towards zero: evaluated on intervals of sub-microsecond durations
    (negative and positive) the (days, seconds, microseconds) handed to timedelta add up to the truncated microsecond count."""
    from ..absint import Iv, Obj
    from ..oblig import interp as mk

    rr = RuleResult("R15.6", "Duration.to_timedelta truncates towards zero: the components handed to timedelta add up to trunc(ns / 1000) microseconds for negative and positive sub-microsecond cases", min_instances=4)
    M = ctx.M
    f = M.func("Duration.to_timedelta")
    NPD = M.fold_class_const("PyodaConstants", "NANOSECONDS_PER_DAY")
    US = {"days": 86_400_000_000, "hours": 3_600_000_000, "minutes": 60_000_000, "seconds": 1_000_000, "milliseconds": 1_000, "microseconds": 1}
    cases = [(-1, Iv(NPD - 999, NPD - 1), (0, 0), "-999..-1 ns"), (-1, Iv(NPD - 1999, NPD - 1001), (-1, -1), "-1999..-1001 ns"),
             (0, Iv(0, 999), (0, 0), "0..999 ns"), (2, Iv(1500, 1999), (2 * US["days"] + 1, 2 * US["days"] + 1), "2 days + 1500..1999 ns")]
    for d, n, (lo, hi), label in cases:
        rr.inst()
        rr.states += 1
        I = mk(ctx)
        I.max_depth = 6
        got: list = []

        def on_return(r, v, s, fn, _I=I):
            call = r.value
            if isinstance(call, ast.Call) and unparse(call.func).endswith("timedelta"):
                names = ["days", "seconds", "microseconds", "milliseconds", "minutes", "hours"]
                tot = Iv(0, 0)
                for i, a in enumerate(call.args):
                    x = _I.ev(a, s, fn, 0)
                    tot = _add(tot, _scale(x, US[names[i]]))
                for k in call.keywords:
                    if k.arg not in US:
                        tot = Iv(float("-inf"), float("inf"), False)
                        continue
                    x = _I.ev(k.value, s, fn, 0)
                    tot = _add(tot, _scale(x, US[k.arg]))
                got.append(tot)

        def _scale(x, k):
            return Iv(x.lo * k, x.hi * k, x.prec) if isinstance(x, Iv) else Iv(float("-inf"), float("inf"), False)

        def _add(a, b):
            return Iv(a.lo + b.lo, a.hi + b.hi, a.prec and b.prec)

        I.on_return = on_return
        so = Obj("Duration", {mangle("Duration", "__days"): Iv(d, d), mangle("Duration", "__nano_of_day"): n, "$exact": Iv(1, 1)})
        I.analyse(f, self_obj=so)
        if got and all(g.within(lo, hi) for g in got):
            rr.ok({"duration": label, "timedelta_microseconds": repr(got[0])})
        else:
            rr.fail(f.qual, f"for a duration of {label} the components given to timedelta add up to {got} microseconds, truncation towards zero gives [{lo}, {hi}]", f.loc)
    return rr


@rule("C15")
def r15_4_aware_from_local_fields(ctx: Ctx) -> RuleResult:
    """Aware datetimes are built from the value's *local* Gregorian fields plus its offset - never by converting the UTC instant,
    which can lie outside datetime's range while the local value is inside it (and vice versa)."""
    from ..exc import ExcAnalysis

    rr = RuleResult("R15.4", "OffsetDateTime.to_aware_datetime / from_aware_datetime go through the local date-time bridge (to_naive_datetime / from_naive_datetime), not through the UTC instant", min_instances=2)
    M = ctx.M
    A = ExcAnalysis(ctx)
    for q, must, forbidden in (("OffsetDateTime.to_aware_datetime", "LocalDateTime.to_naive_datetime", ("Instant.to_datetime_utc",)),
                               ("OffsetDateTime.from_aware_datetime", "LocalDateTime.from_naive_datetime", ("Instant.from_datetime_utc", "Instant.from_aware_datetime"))):
        f = M.func(q, required=False)
        if f is None:
            raise AnalysisError(f"{q} vanished")
        rr.inst()
        A.escapes(f)
        reach = {g.qual for g in A.reachable(f)}
        bad = [x for x in forbidden if x in reach]
        if bad:
            rr.fail(q, f"converts through {bad[0]}: the UTC instant of a value whose local fields are valid for datetime can be outside datetime's range (year 1 with a positive offset, year 9999 with a negative one)", f.loc)
        elif must not in reach:
            rr.fail(q, f"does not go through {must}", f.loc)
        else:
            rr.ok({"fn": q, "bridge": must})
    return rr


@rule("C15")
def r15_7_year_kinds(ctx: Ctx) -> RuleResult:
    from ..yearkinds import check_year_kinds

    rr = RuleResult("R15.7", "absolute years and years-of-era are never interchanged (stdlib dates take the absolute proleptic year, which the range guard then bounds)", min_instances=30)
    check_year_kinds(ctx, rr)
    return rr


@rule("C15")
def r15_9_memo_keys(ctx: Ctx) -> RuleResult:
    """Conversions from the standard library types must not be memoised on keys whose equality is coarser than the value: an
    aware datetime equals every other aware datetime denoting the same instant, whatever its offset (home: sa/memo.py)."""
    from ..memo import memo_tables

    rr = RuleResult("R15.9", "no conversion is memoised under a key that identifies less than the argument (aware datetimes at different offsets are equal)", min_instances=3)
    for mt in memo_tables(ctx.M):
        rr.inst(nontrivial=mt.table != "functools.cache")
        if mt.problem:
            rr.fail(mt.fn.qual, mt.problem, ctx.loc(mt.fn, mt.node))
        else:
            rr.ok()
    return rr


STDLIB_LOSSY = {
    "astimezone": "shifts by the offset inside the stdlib range: OverflowError within one offset of datetime.min / datetime.max, where the direct tick arithmetic is exact",
    "timestamp": "goes through a float number of seconds (and the platform's time_t range)",
    "fromtimestamp": "float seconds and the platform's time_t range",
    "utcfromtimestamp": "float seconds and the platform's time_t range",
    "utctimetuple": "drops microseconds",
    "timetuple": "drops microseconds",
}


@rule("C15")
def r15_10_no_lossy_stdlib_routes(ctx: Ctx) -> RuleResult:
    """The bridges compute with ticks / microseconds taken directly from the fields of the stdlib value (`_to_ticks`, replace,
    utcoffset).  Routing a conversion through stdlib operations that are lossy or have a smaller domain than the values being
    converted makes it fail or round exactly at the edges the property quantifies over."""
    rr = RuleResult("R15.10", "stdlib bridges never go through astimezone / timestamp / fromtimestamp / timetuple (lossy or smaller-domain stdlib operations)", min_instances=6)
    files = anchor_files("C15")
    for f in sorted(set(ctx.M.func_of_node.values()), key=lambda x: x.qual):
        if f.mod.rel not in files or isinstance(f.node, ast.Lambda):
            continue
        from ..kit import own_nodes

        for n in own_nodes(f.node):
            if isinstance(n, ast.Call) and isinstance(n.func, ast.Attribute) and n.func.attr in {"replace", "utcoffset", "tzinfo", "date", "time", "timetz", "isoformat", "combine"} | set(STDLIB_LOSSY):
                tg, how = ctx.R.callees(n, f, count=False)
                if how == "resolved":
                    continue  # a repo method of that name
                rr.inst()
                if n.func.attr in STDLIB_LOSSY:
                    rr.fail(f.qual, f"`{unparse(n)[:70]}`: {STDLIB_LOSSY[n.func.attr]}", ctx.loc(f, n))
                else:
                    rr.ok()
    return rr


OVERFLOW_BRIDGES_REVIEWED = {
    "Instant.from_aware_datetime": "documented: an aware datetime whose UTC instant lies outside the Instant range is rejected with OverflowError (the guard of _from_untrusted_duration)",
}


@rule("C15")
def r15_11_bridges_reach_no_overflow(ctx: Ctx) -> RuleResult:
    """Conversions between the stdlib types and their counterparts stay inside both ranges by construction (the stdlib range is the
    smaller one) and signal unrepresentable values with ValueError from their own range guards.  None of them may reach an explicit
    `raise OverflowError`: that only happens when a conversion detours through an intermediate value with a different range (an
    instant in UTC for a local value near year 9999 with a negative offset)."""
    import re

    from ..exc import ExcAnalysis, ExcConfig

    rr = RuleResult("R15.11", "stdlib bridges reach no `raise OverflowError` (no detour through an intermediate value of another range); one documented exception", min_instances=12)
    A = ExcAnalysis(ctx, ExcConfig())
    files = anchor_files("C15")
    for f in sorted(set(ctx.M.func_of_node.values()), key=lambda x: x.qual):
        if f.mod.rel not in files or isinstance(f.node, ast.Lambda) or f.cls is None or f.parent is not None:
            continue
        if not re.search(r"(datetime|timedelta|to_date$|from_date$|to_time$|from_time$)", f.name):
            continue
        rr.inst()
        esc = A.escapes(f)
        it = esc.values() if isinstance(esc, dict) else esc
        ov = sorted({e.fn for e in it if e.exc == "OverflowError" and e.kind == "raise"})
        if not ov:
            rr.ok()
        elif f.qual in OVERFLOW_BRIDGES_REVIEWED:
            rr.ok({"fn": f.qual, "reviewed": OVERFLOW_BRIDGES_REVIEWED[f.qual]})
        else:
            rr.fail(f.qual, f"can now raise OverflowError (from {ov[0]}): the conversion goes through an intermediate value whose range the input can leave although the result is representable", ctx.loc(f))
    return rr


@rule("C15")
def r15_12_timedelta_fields(ctx: Ctx) -> RuleResult:
    """A timedelta is stored floor-normalised: days may be negative, seconds and microseconds never are.  A value computed from
    `.days` and `.seconds` alone is therefore the *floor* of the span in seconds; truncation toward zero (what Offset and Duration
    promise) needs the microseconds as well.  In every function of the bridge files the expression that is returned, if it reads
    two of the three fields of a timedelta, reads all three (reading the third only for a range check does not count)."""
    from ..kit import own_nodes

    rr = RuleResult("R15.12", "results computed from a timedelta's fields use all three normalised fields (days, seconds, microseconds), not only the floor part", min_instances=1)
    files = anchor_files("C15")
    FIELDS = ("days", "seconds", "microseconds")
    for f in sorted(set(ctx.M.func_of_node.values()), key=lambda x: x.qual):
        if f.mod.rel not in files or isinstance(f.node, ast.Lambda):
            continue
        tds = {p.arg for p in f.params if p.annotation is not None and "timedelta" in unparse(p.annotation)}
        if not tds:
            continue
        # names flowing into returned values
        defs: dict[str, set[str]] = {}
        reads_of: dict[str, set[tuple[str, str]]] = {}
        for n in own_nodes(f.node):
            if isinstance(n, (ast.Assign, ast.AnnAssign)) and getattr(n, "value", None) is not None:
                t = n.targets[0] if isinstance(n, ast.Assign) else n.target
                if isinstance(t, ast.Name):
                    defs.setdefault(t.id, set()).update(x.id for x in ast.walk(n.value) if isinstance(x, ast.Name))
                    reads_of.setdefault(t.id, set()).update((x.value.id, x.attr) for x in ast.walk(n.value) if isinstance(x, ast.Attribute) and isinstance(x.value, ast.Name) and x.value.id in tds and x.attr in FIELDS)
        for r in own_nodes(f.node):
            if not (isinstance(r, ast.Return) and r.value is not None):
                continue
            seen: set[str] = set()
            work = [x.id for x in ast.walk(r.value) if isinstance(x, ast.Name)]
            got = {(x.value.id, x.attr) for x in ast.walk(r.value) if isinstance(x, ast.Attribute) and isinstance(x.value, ast.Name) and x.value.id in tds and x.attr in FIELDS}
            while work:
                nm = work.pop()
                if nm in seen:
                    continue
                seen.add(nm)
                got |= reads_of.get(nm, set())
                work.extend(defs.get(nm, ()))
            for td in tds:
                flds = {a for (o, a) in got if o == td}
                if len(flds) >= 2:
                    rr.inst()
                    if len(flds) == 3:
                        rr.ok({"fn": f.qual, "fields": sorted(flds)})
                    else:
                        missing = sorted(set(FIELDS) - flds)
                        rr.fail(f.qual, f"the result is computed from `{td}.{'`, `.'.join(sorted(flds))}` without `.{missing[0]}`: for negative spans with a sub-second part this is the floor, not the value truncated toward zero", ctx.loc(f, r))
    return rr


# ------------------------------------------------------------------------------------------- R15.13 no coarser repo type on the way

# repo factories that truncate to a coarser unit / a narrower range than the value being bridged:
# result type of the bridge -> {factory: what it loses}
COARSER_FACTORIES = {
    "Instant": {
        "Offset.from_timedelta": "truncates to whole seconds and rejects offsets beyond +/-18 h; an aware datetime's utcoffset() is a timedelta with microseconds and a +/-24 h range",
        "Offset.from_seconds": "range limited to +/-18 h",
        "Offset.from_ticks": "truncates to whole seconds",
        "Offset.from_milliseconds": "truncates to whole seconds",
        "Offset.from_nanoseconds": "truncates to whole seconds",
    },
    "Duration": {
        "Offset.from_timedelta": "truncates to whole seconds, +/-18 h",
    },
}


@rule("C15")
def r15_13_no_coarser_type_on_the_way(ctx: Ctx) -> RuleResult:
    """A bridge whose result has nanosecond / tick resolution and no offset limit (Instant, Duration) must not compute through the
    Offset type: Offset holds whole seconds within +/-18 h, so `Instant.from_aware_datetime` via `Offset.from_timedelta(utcoffset)`
    is half a second off for a tzinfo with a fractional offset and raises for a 20 h one.  (OffsetDateTime legitimately builds its
    Offset that way: its own offset field is an Offset.)"""
    import re

    from ..kit import own_nodes

    rr = RuleResult("R15.13", "stdlib bridges of Instant / Duration never compute through the Offset type (whole seconds, +/-18 h)", min_instances=4)
    M = ctx.M
    for cname, table in COARSER_FACTORIES.items():
        c = M.cls(cname, required=True)
        for f in sorted(c.all_defs, key=lambda g: g.qual):
            if isinstance(f.node, ast.Lambda) or not re.search(r"(datetime|timedelta|_time$|_date$)", f.name):
                continue
            rr.inst()
            bad = None
            for n in own_nodes(f.node):
                if isinstance(n, ast.Call) and unparse(n.func) in table:
                    bad = n
                if cname == "Instant" and isinstance(n, ast.Call) and isinstance(n.func, ast.Attribute) and n.func.attr == "to_timedelta":
                    # Duration.to_timedelta drops the sub-microsecond part TOWARDS ZERO (right for an amount of time); an instant before
                    # 1970 needs the floor: 1 ns before the epoch is 1969-12-31T23:59:59.999999, not 1970-01-01T00:00:00
                    bad = n
                    table = dict(table, **{unparse(n.func): "Duration.to_timedelta truncates towards zero; a point in time before the epoch must be floored (days and microseconds from the floor view)"})
                if isinstance(n, ast.Call) and isinstance(n.func, ast.Attribute) and n.func.attr in STDLIB_RANGE_LIMITED:
                    # the stdlib's own normalisations stay inside datetime.min .. datetime.max (astimezone raises OverflowError for an
                    # aware datetime within its offset of either end although the UTC value is a valid Instant) or go through floats
                    bad = n
                    table = dict(table, **{unparse(n.func): STDLIB_RANGE_LIMITED[n.func.attr]})
            if bad is None:
                rr.ok({"bridge": f.qual})
            else:
                rr.fail(f.qual, f"`{unparse(bad)[:80]}`: {table[unparse(bad.func)]}", ctx.loc(f, bad))
    return rr


STDLIB_RANGE_LIMITED = {
    "astimezone": "datetime.astimezone is limited to datetime.min .. datetime.max: an aware datetime within its UTC offset of either end raises OverflowError although its UTC value is representable; subtract the offset in integer ticks",
    "timestamp": "datetime.timestamp() is a float (53 bits): microseconds are lost far from the epoch",
    "fromtimestamp": "datetime.fromtimestamp goes through a float / the platform's time_t range",
    "utcfromtimestamp": "datetime.utcfromtimestamp goes through a float / the platform's time_t range",
    "utctimetuple": "utctimetuple drops the sub-second part",
    "timetuple": "timetuple drops the sub-second part",
}


# ------------------------------------------------------------------------------------------- R15.14 / R15.15


@rule("C15")
def r15_14_bridges_truncate_only_to_microseconds(ctx: Ctx) -> RuleResult:
    """The stdlib types resolve microseconds; the only precision an outgoing bridge may drop is what lies below a microsecond.
    Every truncating division / remainder in a to_* / from_* bridge must therefore divide by the nanoseconds (or ticks) per
    microsecond - dividing an offset's seconds by 60 to build a timedelta from minutes loses the seconds of an LMT offset."""
    import re

    from ..kit import own_nodes

    rr = RuleResult("R15.14", "stdlib bridges truncate only from nanoseconds / ticks to microseconds: no other truncating division in a to_* / from_* bridge", min_instances=3)
    allowed = {"PyodaConstants.NANOSECONDS_PER_MICROSECOND", "PyodaConstants.TICKS_PER_MICROSECOND", "1"}
    files = anchor_files("C15")
    for f in sorted(set(ctx.M.func_of_node.values()), key=lambda x: x.qual):
        if isinstance(f.node, ast.Lambda) or f.cls is None or f.mod.rel not in files:
            continue
        if not re.search(r"^(to_|from_).*(datetime|timedelta|date$|time$)", f.name):
            continue
        for n in own_nodes(f.node):
            div = None
            if isinstance(n, ast.BinOp) and isinstance(n.op, (ast.FloorDiv, ast.Div, ast.Mod)):
                div = n.right
            elif isinstance(n, ast.Call) and unparse(n.func).split(".")[-1] in ("_towards_zero_division", "_csharp_modulo", "divmod") and len(n.args) >= 2:
                div = n.args[1]
            if div is None:
                continue
            rr.inst()
            if unparse(div) in allowed:
                rr.ok({"bridge": f.qual, "divides by": unparse(div)})
            else:
                rr.fail(f.qual, f"`{unparse(n)[:80]}` truncates to a unit coarser than a microsecond: the part below `{unparse(div)}` is dropped from the converted value", ctx.loc(f, n))
    return rr


@rule("C15")
def r15_15_sub_second_accessors_truncate(ctx: Ctx) -> RuleResult:
    """The stdlib types hold microseconds; what lies below is DROPPED by every bridge, never rounded (rounding 999999.5 us up wraps
    the microsecond field to 0 and moves the value back by almost a second).  LocalTime's millisecond / microsecond / tick-of-second
    accessors, which the bridges and `to_naive_datetime` read, are evaluated by the abstract interpreter on exact nanosecond
    values and compared with floor division."""
    from ..absint import Iv, Obj
    from ..oblig import interp

    rr = RuleResult("R15.15", "LocalTime's sub-second accessors (millisecond, microsecond, tick_of_second, nanosecond_of_second) truncate (evaluated on exact values, .5 boundaries included)", min_instances=3)
    M = ctx.M
    c = M.cls("LocalTime")
    nps = 10**9
    spec = {"millisecond": lambda n: (n % nps) // 10**6, "microsecond": lambda n: (n % nps) // 1000, "tick_of_second": lambda n: (n % nps) // 100, "nanosecond_of_second": lambda n: n % nps}
    for name, want in spec.items():
        f = M.find_method(c, name)
        if f is None or isinstance(f.node, ast.Lambda):
            continue
        rr.inst()
        bad = None
        for n in (0, 1, 499, 500, 999, 1000, 999_999_500, 999_999_999, 45_296 * nps + 999_999_500, 86_399 * nps + 999_999_999, 12 * 3600 * nps + 123_456_789):
            so = Obj("LocalTime", {mangle("LocalTime", "__nanoseconds"): Iv(n, n)})
            I = interp(ctx)
            I.max_depth = 5
            rets, _ = I.analyse(f, self_obj=so, params={})
            got = {int(v.lo) for v, _x in rets if isinstance(v, Iv) and v.lo == v.hi}
            if got != {want(n)}:
                bad = bad or (n, sorted(got) or [repr(v) for v, _x in rets][:1], want(n))
        if bad is None:
            rr.ok({"accessor": f.qual})
        else:
            rr.fail(f.qual, f"{name} of a time with {bad[0]} ns since midnight evaluates to {bad[1]}, truncation gives {bad[2]}", ctx.loc(f))
    return rr
