"""C15 rules."""
from __future__ import annotations

from ..core import Ctx, RuleResult, rule


@rule("C15")
def r15_1_units(ctx: Ctx) -> RuleResult:
    from ..dims import units_rule

    return units_rule(ctx, "R15.1", "C15", 100)
