"""C10 - Time-of-day and local date-time arithmetic is exact and carries correctly (structural clauses)."""
from __future__ import annotations

import ast
import re

from ..absint import Interp, Iv, Obj, State
from ..core import Ctx, RuleResult, rule
from ..kit import bind_args, own_nodes
from ..model import Func
from ..model import UNKNOWN, AnalysisError, mangle, unparse
from ..oblig import decide, get_contracts, global_sweep, interp, select

EXPECTED_UNDECIDED = {
    "_LocalTimePatternParser._LocalTimeParseBucket._calculate_value=>LocalTime._from_hour_minute_second_nanosecond_trusted(hour)": "bucket field ranges come from the pattern handler tables (decided under C08)",
}


@rule("C10")
def r10_1_local_time_invariant(ctx: Ctx) -> RuleResult:
    rr = RuleResult("R10.1", "every LocalTime construction site yields nanosecond-of-day in [0, 24h)", min_instances=25)
    groups = select(global_sweep(ctx), ["LocalTime._ctor(", "LocalTime._LocalTime__nanoseconds", "LocalTime._from_hour_minute_second_nanosecond_trusted("])
    rr.states = ctx.cache.get("sweep_steps", 0)
    decide(rr, groups, "R10.1", EXPECTED_UNDECIDED, ctx)
    return rr


# accessor -> (nanoseconds-per-unit constant or 1, container modulus constant or None, expected range)
ACCESSORS = {
    "hour": ("NANOSECONDS_PER_HOUR", None, "HOURS_PER_DAY"),
    "minute": ("NANOSECONDS_PER_MINUTE", "MINUTES_PER_HOUR", None),
    "second": ("NANOSECONDS_PER_SECOND", "SECONDS_PER_MINUTE", None),
    "millisecond": ("NANOSECONDS_PER_MILLISECOND", "MILLISECONDS_PER_SECOND", None),
    "microsecond": ("NANOSECONDS_PER_MICROSECOND", "MICROSECONDS_PER_SECOND", None),
    "tick_of_second": ("NANOSECONDS_PER_TICK", "TICKS_PER_SECOND", None),
    "tick_of_day": ("NANOSECONDS_PER_TICK", None, "TICKS_PER_DAY"),
    "nanosecond_of_second": (None, "NANOSECONDS_PER_SECOND", None),
    "nanosecond_of_day": (None, None, "NANOSECONDS_PER_DAY"),
}


def _nonneg(t, ns_keys: set[str]) -> bool:
    if t is None:
        return False
    if t[0] == "NS":
        return True
    if t[0] == "v":
        return t[1] in ns_keys
    if t[0] == "c":
        return t[1] >= 0
    if t[0] in ("//", "%", "tzd", "cmod"):
        return _nonneg(t[1], ns_keys) and t[2][0] == "c" and t[2][1] > 0
    if t[0] in ("+", "*"):
        return _nonneg(t[1], ns_keys) and _nonneg(t[2], ns_keys)
    return False


def qnorm(I: Interp, t, st: State, ns_keys: set[str]):
    """Normalise a term over the non-negative nanosecond-of-day atom into  ('%', ('//', NS, c), m) shape."""
    if t is None:
        return None
    if t[0] == "NS":
        return t
    if t[0] == "v":
        return ("NS",) if t[1] in ns_keys else t
    if t[0] == "c":
        return t
    a = qnorm(I, t[1], st, ns_keys)
    b = qnorm(I, t[2], st, ns_keys)
    if a is None or b is None:
        return None
    op = t[0]
    nonneg = _nonneg(a, ns_keys)
    if op == "tzd" and nonneg:
        op = "//"
    if op == "cmod" and nonneg:
        op = "%"
    if op == "//" and b[0] == "c" and a[0] == "//" and a[2][0] == "c":
        return ("//", a[1], ("c", a[2][1] * b[1]))
    if op == "//" and b == ("c", 1):
        return a
    return (op, a, b)


def accessor_term(ctx: Ctx, cname: str, prop: str, depth: int = 0):
    """Normalised term returned by a time-of-day accessor, following accessor-to-accessor reads within the class."""
    M = ctx.M
    c = M.cls(cname)
    f = M.find_method(c, prop)
    if f is None or f.kind != "property":
        return None, None
    I = interp(ctx)
    out: list = []
    ns_field = {"LocalTime": {"self." + mangle("LocalTime", "__nanoseconds")}, "OffsetTime": {"self.nanosecond_of_day"}}.get(cname, set())

    def on_return(r: ast.Return, v, st: State, fn) -> None:
        t = I.term(r.value, st, fn) if r.value is not None else None
        # unwrap _int32_overflow / _int64_overflow identity wrappers (proved identity by the range rule)
        e = r.value
        while t is None and isinstance(e, ast.Call) and unparse(e.func).split(".")[-1] in ("_int32_overflow", "_int64_overflow") and len(e.args) == 1:
            e = e.args[0]
            t = I.term(e, st, fn)
        out.append((t, v, st))

    I.on_return = on_return
    I.analyse(f)
    if len(out) != 1:
        return None, out
    t, v, st = out[0]

    def subst(t):
        # replace reads of sibling accessors by their own terms
        if t is None:
            return None
        if t[0] == "v":
            k = t[1]
            if k.startswith("self.") and k not in ns_field and depth < 3:
                nm = k[len("self."):]
                g = M.find_method(c, nm)
                if g is not None and g.kind == "property" and nm in ACCESSORS and nm != "nanosecond_of_day" or (cname != "OffsetTime" and nm == "nanosecond_of_day" and g is not None):
                    st2, _ = accessor_term(ctx, cname, nm, depth + 1)
                    return st2
            return t
        if t[0] == "c":
            return t
        a, b = subst(t[1]), subst(t[2])
        if a is None or b is None:
            return None
        return (t[0], a, b)

    t = subst(t)
    if t is None:
        return None, out
    # evaluate the normal form assuming NS >= 0 (the type invariant proved by R10.1)
    st0 = State({k: Iv(0, get_contracts(ctx).field_inv[("LocalTime", mangle("LocalTime", "__nanoseconds"))][1]) for k in ns_field})
    return qnorm(I, t, st0, ns_field | {"NS"}) if t[0] != "NS" else t, out


@rule("C10")
def r10_2_accessor_decomposition(ctx: Ctx) -> RuleResult:
    rr = RuleResult("R10.2", "hour/minute/second/sub-second accessors are NS // unit [% container] with the unit's own constant, and land in range", min_instances=16)
    M = ctx.M

    def const(n: str | None) -> int | None:
        if n is None:
            return None
        v = M.fold_class_const("PyodaConstants", n)
        if v is UNKNOWN:
            raise AnalysisError(f"PyodaConstants.{n} not foldable")
        return v

    for cname in ("LocalTime", "OffsetTime"):
        c = M.cls(cname)
        for prop, (unit_c, mod_c, range_c) in ACCESSORS.items():
            f = M.find_method(c, prop)
            if f is None:
                if cname == "OffsetTime" and prop == "microsecond":
                    continue  # OffsetTime has no microsecond accessor
                raise AnalysisError(f"{cname}.{prop} missing")
            if cname == "OffsetTime" and prop == "nanosecond_of_day":
                continue  # the packed-field decoder: decided by the bit-layout rule R11.3
            rr.inst()
            t, outs = accessor_term(ctx, cname, prop)
            unit, mod = const(unit_c) or 1, const(mod_c)
            want = ("NS",)
            if unit != 1:
                want = ("//", want, ("c", unit))
            if mod is not None:
                want = ("%", want, ("c", mod))
            rr.states += 1
            # range from the invariant
            hi = (mod - 1) if mod is not None else (const(range_c) - 1 if range_c else None)
            v = outs[0][1] if outs and len(outs) == 1 else None
            if t != want:
                rr.fail(f.qual, f"accessor does not decompose the nanosecond-of-day as {show_q(want)}; found {show_q(t)}", ctx.loc(f))
            elif hi is not None and not (isinstance(v, Iv) and v.within(0, hi)):
                rr.fail(f.qual, f"accessor range {v} not proved inside [0, {hi}]", ctx.loc(f))
            else:
                rr.ok({"accessor": f.qual, "form": show_q(t), "range": repr(v)})
    # clock_hour_of_half_day in [1, 12]
    for cname in ("LocalTime", "OffsetTime"):
        f = M.find_method(M.cls(cname), "clock_hour_of_half_day")
        if f is None:
            raise AnalysisError(f"{cname}.clock_hour_of_half_day missing")
        rr.inst()
        I = interp(ctx)
        rets, _ = I.analyse(f)
        vals = [v for v, _ in rets]
        if vals and all(isinstance(v, Iv) and v.within(1, 12) for v in vals):
            rr.ok({"accessor": f.qual, "range": [repr(v) for v in vals]})
        else:
            rr.fail(f.qual, f"clock_hour_of_half_day not proved inside [1, 12]: {vals}", ctx.loc(f))
    return rr


def show_q(t) -> str:
    if t is None:
        return "<not a quotient/remainder form>"
    if t[0] == "NS":
        return "NS"
    if t[0] == "c":
        return str(t[1])
    if t[0] == "v":
        return t[1]
    return f"({show_q(t[1])} {t[0]} {show_q(t[2])})"


@rule("C10")
def r10_5_factory_guards(ctx: Ctx) -> RuleResult:
    """Every public LocalTime factory that takes numbers rejects out-of-range components: analysed with unconstrained
    parameters, every normal return carries a LocalTime whose nanosecond-of-day is proved in range (so the guards are present
    and have the right bounds), and each parameter is constrained to the documented interval on the returning paths."""
    rr = RuleResult("R10.5", "public LocalTime factories range-check every component before combining", min_instances=10)
    M = ctx.M
    c = M.cls("LocalTime")
    K = lambda n: M.fold_class_const("PyodaConstants", n)  # noqa: E731
    spec = {
        "__init__": {"hour": 23, "minute": 59, "second": 59, "millisecond": 999},
        "from_hour_minute_second_millisecond_tick": {"hour": 23, "minute": 59, "second": 59, "millisecond": 999, "tick_within_millisecond": K("TICKS_PER_MILLISECOND") - 1},
        "from_hour_minute_second_tick": {"hour": 23, "minute": 59, "second": 59, "tick_within_second": K("TICKS_PER_SECOND") - 1},
        "from_hour_minute_second_nanosecond": {"hour": 23, "minute": 59, "second": 59, "nanosecond_within_second": K("NANOSECONDS_PER_SECOND") - 1},
        "from_nanoseconds_since_midnight": {"nanoseconds": K("NANOSECONDS_PER_DAY") - 1},
        "from_ticks_since_midnight": {"ticks": K("TICKS_PER_DAY") - 1},
        "from_milliseconds_since_midnight": {"milliseconds": K("MILLISECONDS_PER_DAY") - 1},
        "from_seconds_since_midnight": {"seconds": K("SECONDS_PER_DAY") - 1},
        "from_minutes_since_midnight": {"minutes": K("MINUTES_PER_DAY") - 1},
        "from_hours_since_midnight": {"hours": K("HOURS_PER_DAY") - 1},
    }
    for name, params in spec.items():
        f = M.find_method(c, name)
        if f is None:
            raise AnalysisError(f"LocalTime.{name} missing")
        I = interp(ctx)
        finals: list[State] = []
        if name == "__init__":
            _, falls = I.analyse(f)
            finals = falls
        else:
            rets, _ = I.analyse(f)
            finals = [s for _, s in rets]
        rr.states += len(finals)
        for p, hi in params.items():
            rr.inst()
            if not finals:
                rr.fail(f.qual, "no normally returning path found", ctx.loc(f))
                continue
            bad = [s.get(p) for s in finals if not (isinstance(s.get(p), Iv) and s.get(p).within(0, hi))]
            if bad:
                rr.fail(f.qual, f"parameter {p} is not constrained to [0, {hi}] on every returning path (reaches the value computation as {bad[0]})", ctx.loc(f))
            else:
                rr.ok({"factory": f.qual, "param": p, "range": [0, hi]})
    return rr


C10_MODULES = ["pyoda_time/_local_time.py", "pyoda_time/_local_date_time.py", "pyoda_time/fields/_time_period_field.py", "pyoda_time/_offset_time.py", "pyoda_time/_time_adjusters.py"]


@rule("C10")
def r10_6_numeric_discipline(ctx: Ctx) -> RuleResult:
    from ..numeric import check_numeric

    rr = RuleResult("R10.6", "time-of-day arithmetic uses exact integer operations (no float on unbounded amounts; floor only on non-negative operands)", min_instances=7)
    check_numeric(ctx, rr, C10_MODULES, decoder_exempt={"OffsetTime._offset_seconds", "OffsetTime._offset_nanoseconds"})
    return rr


@rule("C10")
def r10_4_calendar_retention(ctx: Ctx) -> RuleResult:
    from ..core import anchor_files
    from ..retention import check_retention

    rr = RuleResult("R10.4", "time arithmetic carries days into the date in its own calendar (no optional `calendar` dropped)", min_instances=1)
    files = anchor_files("C10")
    check_retention(ctx, rr, lambda f: f.mod.rel in files)
    return rr


@rule("C10")
def r10_3_units(ctx: Ctx) -> RuleResult:
    from ..dims import units_rule

    return units_rule(ctx, "R10.3", "C10", 60)


@rule("C10")
def r10_7_period_application_order(ctx: Ctx) -> RuleResult:
    from .c09 import r09_4_unit_order

    r = r09_4_unit_order(ctx)
    r.rule = "R10.7"
    for f in r.findings:
        f.rule = "R10.7"
    return r


@rule("C10")
def r10_9_calendar_free_productions(ctx: Ctx) -> RuleResult:
    from ..retention import check_calendar_free_productions

    rr = RuleResult("R10.9", "arithmetic keeps the calendar: no result is assembled from calendar-free pieces (instant, day number, local instant) while a calendar-bearing value is in hand", min_instances=100)
    check_calendar_free_productions(ctx, rr)
    return rr


# ------------------------------------------------------------------------------------------- truncating adjusters


class _Lin:
    """Linear form over the basis {N, N mod m, 1} with rational coefficients (N = the nanosecond-of-day of the adjusted time);
    `unk` marks a contribution that is not expressible in the basis."""

    def __init__(self, terms: dict | None = None, unk: str | None = None) -> None:
        from fractions import Fraction

        self.t = {k: Fraction(v) for k, v in (terms or {}).items() if v != 0}
        self.unk = unk

    def __add__(self, o: "_Lin") -> "_Lin":
        t = dict(self.t)
        for k, v in o.t.items():
            t[k] = t.get(k, 0) + v
        return _Lin(t, self.unk or o.unk)

    def scale(self, c) -> "_Lin":
        return _Lin({k: v * c for k, v in self.t.items()}, self.unk)

    def const(self):
        return self.t.get("1", 0) if set(self.t) <= {"1"} and not self.unk else None

    def show(self) -> str:
        if self.unk:
            return f"<not a combination of N and its remainders: {self.unk}>"
        parts = []
        for k, v in sorted(self.t.items(), key=str):
            nm = "N" if k == "N" else ("1" if k == "1" else f"N%{k[1]}")
            parts.append(f"{'+' if v > 0 else '-'} {abs(v) if abs(v) != 1 or nm == '1' else ''}{'' if nm == '1' else nm}".replace("  ", " "))
        return " ".join(parts).lstrip("+ ") or "0"


def _quot_rem(unit: int, mod: int | None) -> _Lin:
    """N // unit [% mod] in the basis (valid for N >= 0, which R10.1 proves for every LocalTime)."""
    from fractions import Fraction

    if mod is None:
        return _Lin({"N": Fraction(1, unit), ("mod", unit): Fraction(-1, unit)}) if unit != 1 else _Lin({"N": 1})
    if unit == 1:
        return _Lin({("mod", mod): 1})
    return _Lin({("mod", unit * mod): Fraction(1, unit), ("mod", unit): Fraction(-1, unit)})


@rule("C10")
def r10_10_truncating_adjusters(ctx: Ctx) -> RuleResult:
    """TimeAdjusters.truncate_to_<unit>: the adjusted time is exactly N - N % unit.  The adjuster's expression is evaluated over
    linear forms in N and its remainders, with every accessor standing for the quotient/remainder form that R10.2 proves for it,
    LocalTime constructors/factories for the expression they store, and plus_<unit> for an addition of that many nanoseconds."""
    rr = RuleResult("R10.10", "truncating time adjusters yield exactly N - N % unit (nothing finer than the unit survives, nothing coarser is lost)", min_instances=3)
    M = ctx.M
    meta = M.cls("__TimeAdjustersMeta")
    lt = M.cls("LocalTime")

    def const(n):
        v = M.fold_class_const("PyodaConstants", n)
        if not isinstance(v, int):
            raise AnalysisError(f"PyodaConstants.{n} not foldable")
        return v

    def accessor(name: str) -> _Lin | None:
        if name not in ACCESSORS or M.find_method(lt, name) is None:
            return None
        u, m, _ = ACCESSORS[name]
        return _quot_rem(const(u) if u else 1, const(m) if m else None)

    def field_unit(plus: Func) -> int | None:
        """plus_<unit>(v): nanoseconds per unit of the _TimePeriodField it delegates to"""
        for n in own_nodes(plus.node):
            if isinstance(n, ast.Attribute) and isinstance(n.value, ast.Name) and n.value.id == "_TimePeriodField":
                g = M.find_method(M.cls("_TimePeriodFieldMeta"), n.attr)
                if g is not None:
                    for c in own_nodes(g.node):
                        if isinstance(c, ast.Call) and c.args:
                            v = M.fold(c.args[0], g.cls, g.mod)
                            if isinstance(v, int):
                                return v
        return None

    def ev(e: ast.expr, env: dict, fn, depth: int = 0) -> _Lin:
        if isinstance(e, ast.Constant) and isinstance(e.value, int):
            return _Lin({"1": e.value})
        if isinstance(e, ast.Name):
            if e.id in env:
                return env[e.id]
            return _Lin(unk=e.id)
        if isinstance(e, ast.Attribute):
            if isinstance(e.value, ast.Name) and env.get(e.value.id) == "TIME":
                a = accessor(e.attr)
                return a if a is not None else _Lin(unk=unparse(e))
            v = M.fold(e, fn.cls if hasattr(fn, "cls") else None, fn.mod)
            if isinstance(v, int):
                return _Lin({"1": v})
            return _Lin(unk=unparse(e))
        if isinstance(e, ast.UnaryOp) and isinstance(e.op, ast.USub):
            return ev(e.operand, env, fn, depth).scale(-1)
        if isinstance(e, ast.BinOp):
            a, b = ev(e.left, env, fn, depth), ev(e.right, env, fn, depth)
            if isinstance(e.op, ast.Add):
                return a + b
            if isinstance(e.op, ast.Sub):
                return a + b.scale(-1)
            if isinstance(e.op, ast.Mult):
                if b.const() is not None:
                    return a.scale(b.const())
                if a.const() is not None:
                    return b.scale(a.const())
            if isinstance(e.op, ast.Mod) and b.const() is not None and a.t == {"N": 1} and not a.unk:
                return _Lin({("mod", int(b.const())): 1})
            if isinstance(e.op, ast.FloorDiv) and b.const() is not None and a.t == {"N": 1} and not a.unk:
                return _quot_rem(int(b.const()), None)
            return _Lin(unk=unparse(e)[:60])
        if isinstance(e, ast.Call):
            # LocalTime(...) / LocalTime.<factory>(...) / <time>.plus_<unit>(v)
            if isinstance(e.func, ast.Attribute) and isinstance(e.func.value, ast.Name) and env.get(e.func.value.id) == "TIME":
                g = M.find_method(lt, e.func.attr)
                u = field_unit(g) if g is not None and e.func.attr.startswith("plus_") else None
                if u is not None and len(e.args) == 1:
                    return _Lin({"N": 1}) + ev(e.args[0], env, fn, depth).scale(u)  # modulo one day: exact when the result stays in [0, day)
                return _Lin(unk=unparse(e)[:60])
            tg, how = ctx.R.callees(e, fn, count=False)
            tg = [t for t in tg if t.cls is not None and t.cls.name == "LocalTime" and t.name != "__new__"]
            if how == "resolved" and len(tg) == 1 and depth < 3:
                g = tg[0]
                b = bind_args(e, g)
                genv: dict = {}
                for p in g.value_params:
                    if p.arg in b:
                        genv[p.arg] = ev(b[p.arg], env, fn, depth)
                    else:
                        d = g.default_of(p.arg)
                        genv[p.arg] = ev(d, {}, g, depth) if d is not None else _Lin(unk=p.arg)
                stores = [n.value for n in own_nodes(g.node) if isinstance(n, ast.Assign) and isinstance(n.targets[0], ast.Attribute) and mangle("LocalTime", n.targets[0].attr) == mangle("LocalTime", "__nanoseconds")]
                inner = [k.value for n in own_nodes(g.node) if isinstance(n, ast.Return) and isinstance(n.value, ast.Call) for k in n.value.keywords if k.arg == "nanoseconds"]
                cands = stores or inner
                if len(cands) == 1:
                    return ev(cands[0], genv, g, depth + 1)
            return _Lin(unk=unparse(e)[:60])
        return _Lin(unk=unparse(e)[:60])

    for name, f in sorted(meta.methods.items()):
        m = re.match(r"truncate_to_(\w+)$", name)
        if not m:
            continue
        rr.inst()
        unit = const("NANOSECONDS_PER_" + m.group(1).upper())
        lams = [n.value for n in own_nodes(f.node) if isinstance(n, ast.Return) and isinstance(n.value, ast.Lambda)]
        if len(lams) != 1 or len(lams[0].args.args) != 1:
            lam_f = None
            # a nested def returned by name
            rets = [n.value for n in own_nodes(f.node) if isinstance(n, ast.Return) and isinstance(n.value, ast.Name)]
            if len(rets) == 1 and rets[0].id in f.nested:
                lam_f = f.nested[rets[0].id]
                body_rets = [n.value for n in own_nodes(lam_f.node) if isinstance(n, ast.Return) and n.value is not None]
                if len(body_rets) == 1 and len(lam_f.params) == 1:
                    from ..kit import inline_locals

                    expr, par = inline_locals(lam_f.node, body_rets[0]), lam_f.params[0].arg
                else:
                    lam_f = None
            if lam_f is None:
                rr.fail(f.qual, "adjuster is not a one-parameter function returning one expression (shape not analysed)", ctx.loc(f))
                continue
        else:
            expr, par = lams[0].body, lams[0].args.args[0].arg
        got = ev(expr, {par: "TIME"}, f)
        want = _Lin({"N": 1, ("mod", unit): -1})
        rr.states += 1
        if not got.unk and got.t == want.t:
            rr.ok({"adjuster": name, "result": got.show(), "unit": unit})
        else:
            rr.fail(f.qual, f"the adjusted time is `{got.show()}`, not `N - N%{unit}`: " + ("components finer than the unit survive or coarser ones are lost" if not got.unk else "not shown to be the exact truncation"), ctx.loc(f))
    return rr


@rule("C10")
def r10_11_wraps(ctx: Ctx) -> RuleResult:
    from ..numeric import check_wraps

    rr = RuleResult("R10.11", "time-of-day factories and accessors: wrap-around helpers only on quantities proved inside the wrapped type's range", min_instances=8)
    check_wraps(ctx, rr)
    return rr


@rule("C10")
def r10_12_no_wrapping_time_arithmetic_on_date_times(ctx: Ctx) -> RuleResult:
    """LocalTime.plus_* and _TimePeriodField._add_local_time wrap around midnight and *discard* the number of days crossed - right
    for a time of day, wrong inside a value that also has a date.  Methods of date-and-time types (anything with both a `date`
    and a `time_of_day` component) must not reach them: their time arithmetic goes through _add_local_date_time /
    _add_local_time_with_extra_days, which return the day carry."""
    rr = RuleResult("R10.12", "date-and-time types never do their arithmetic with the wrapping LocalTime operations (which drop the day carry)", min_instances=3)
    M = ctx.M
    for c in sorted(M.all_classes(), key=lambda x: x.qual):
        if "_compatibility" in c.mod.rel or M.find_method(c, "date") is None or M.find_method(c, "time_of_day") is None:
            continue
        rr.inst()
        bad = None
        for f in c.all_defs:
            if isinstance(f.node, ast.Lambda):
                continue
            for n in own_nodes(f.node):
                # `self.__time + period` / `self.time_of_day.plus(period)`: the operator forms of the same wrapping arithmetic
                timeish = r"(^self\.__time$|^self\._time$|\.time_of_day$|^self\.__local_time$|_LocalDateTime__time$)"
                if isinstance(n, ast.BinOp) and isinstance(n.op, (ast.Add, ast.Sub)) and re.search(timeish, unparse(n.left)) and not re.search(timeish, unparse(n.right)):
                    bad = (f, n)
                    continue
                if isinstance(n, ast.Call) and isinstance(n.func, ast.Attribute) and n.func.attr in ("plus", "minus") and re.search(timeish, unparse(n.func.value)):
                    bad = (f, n)
                    continue
                if not (isinstance(n, ast.Call) and isinstance(n.func, ast.Attribute)):
                    continue
                a = n.func.attr
                if not (re.match(r"plus_(hours|minutes|seconds|milliseconds|microseconds|ticks|nanoseconds)$", a) or a == "_add_local_time"):
                    continue
                tg, how = ctx.R.callees(n, f, count=False)
                if how == "resolved" and any(t.cls is not None and t.cls.name in ("LocalTime", "_TimePeriodField") and (t.cls.name == "LocalTime" or t.name == "_add_local_time") for t in tg):
                    bad = (f, n)
        if bad:
            f, n = bad
            rr.fail(f.qual, f"`{unparse(n)[:70]}` wraps around midnight and drops the days crossed; the date of the result is not adjusted", ctx.loc(f, n))
        else:
            rr.ok({"class": c.qual})
    return rr


@rule("C10")
def r10_13_time_field_units(ctx: Ctx) -> RuleResult:
    """Every time period field (nanoseconds ... hours) is described by two numbers: nanoseconds per unit and units per day; all
    wrap-around arithmetic reduces amounts modulo units-per-day first.  For each of the seven field instances (evaluated from
    their construction sites) the two must multiply to exactly one day, whichever way the second is obtained (computed or
    passed in)."""
    from ..oblig import time_period_field_instances

    rr = RuleResult("R10.13", "time period fields: nanoseconds-per-unit x units-per-day == nanoseconds per day for every field instance", min_instances=7)
    npd = ctx.M.fold_class_const("PyodaConstants", "NANOSECONDS_PER_DAY")
    for name, inst in time_period_field_instances(ctx):
        rr.inst()
        u = next((v for k, v in inst.fields.items() if k.endswith("__unit_nanoseconds")), None)
        d = next((v for k, v in inst.fields.items() if k.endswith("__units_per_day")), None)
        if isinstance(u, Iv) and isinstance(d, Iv) and u.const and d.const and int(u.lo) * int(d.lo) == npd:
            rr.ok({"field": name, "unit_ns": int(u.lo), "units_per_day": int(d.lo)})
        else:
            rr.fail(f"_TimePeriodField.{name}", f"nanoseconds per unit {u} x units per day {d} is not one day ({npd} ns): amounts are reduced modulo the wrong number of units", "pyoda_time/fields/_time_period_field.py")
    return rr


# ------------------------------------------------------------------------------------------- R10.14 borrow / carry across years

LENGTH_QUERIES = {"_get_days_in_year", "_get_months_in_year", "get_days_in_year", "get_months_in_year"}
# borrow loops that count from the END of the year (the remaining amount is negative and relative to the year's end): stepping back
# adds the length of the year being left.  function -> reason
END_BASED_BORROW = {
    "_HebrewYearMonthDayCalculator._add_months": "the backward branch first re-bases the month count on the end of the year (`months -= months_in_year(year) - month`)",
}


def _counter_delta(e: ast.expr, v: str) -> int | None:
    """e == v + k for an integer constant k -> k."""
    if isinstance(e, ast.Name) and e.id == v:
        return 0
    if isinstance(e, ast.BinOp) and isinstance(e.op, (ast.Add, ast.Sub)) and isinstance(e.left, ast.Name) and e.left.id == v and isinstance(e.right, ast.Constant) and isinstance(e.right.value, int):
        return e.right.value if isinstance(e.op, ast.Add) else -e.right.value
    return None


@rule("C10")
def r10_14_borrow_and_carry_use_the_right_year(ctx: Ctx) -> RuleResult:
    """Day-of-year / month-of-year arithmetic that crosses a year boundary steps a year counter by one and adjusts the running
    amount by the length of a year.  Counting from the start of the year, a borrow (`year -= 1`) must add the length of the year
    it lands in and a carry (`year += 1`) must subtract the length of the year it leaves - evaluated symbolically in each block:
    the argument of the length query, as an offset from the counter's value at block entry, against the counter's final offset.
    A reordering that leaves `year - 1` in the query after the decrement asks about year - 2."""
    rr = RuleResult("R10.14", "year-boundary borrow / carry: the running amount is adjusted by the length of the year the step lands in (borrow) or leaves (carry), as symbolic offsets of the year counter within each block", min_instances=5)
    M = ctx.M

    def blocks(node: ast.AST):
        for n in ast.walk(node):
            for fld in ("body", "orelse"):
                b = getattr(n, fld, None)
                if isinstance(b, list) and b and isinstance(b[0], ast.stmt):
                    yield b

    for f in sorted(set(M.func_of_node.values()), key=lambda x: x.qual):
        if isinstance(f.node, ast.Lambda) or "_compatibility" in f.mod.rel:
            continue
        if not any(isinstance(n, ast.Call) and isinstance(n.func, ast.Attribute) and n.func.attr in LENGTH_QUERIES for n in own_nodes(f.node)):
            continue
        # latest definition of locals holding a year length (days_in_year = calc._get_days_in_year(year))
        for blk in blocks(f.node):
            counters = {s.target.id for s in blk if isinstance(s, ast.AugAssign) and isinstance(s.target, ast.Name) and isinstance(s.value, ast.Constant) and s.value.value == 1}
            for v in sorted(counters):
                off = 0
                recs: list[tuple[str, int, ast.stmt]] = []
                local_len: dict[str, int] = {}
                # definitions before the block (in the function) of locals assigned from a length query of v: offset relative to block entry
                for s in own_nodes(f.node):
                    if isinstance(s, ast.Assign) and len(s.targets) == 1 and isinstance(s.targets[0], ast.Name) and s.lineno < blk[0].lineno:
                        c = s.value
                        if isinstance(c, ast.Call) and isinstance(c.func, ast.Attribute) and c.func.attr in LENGTH_QUERIES and c.args:
                            d = _counter_delta(c.args[0], v)
                            if d is not None:
                                local_len[s.targets[0].id] = d
                for s in blk:
                    if isinstance(s, ast.AugAssign) and isinstance(s.target, ast.Name) and s.target.id == v and isinstance(s.value, ast.Constant) and s.value.value == 1:
                        off += 1 if isinstance(s.op, ast.Add) else -1 if isinstance(s.op, ast.Sub) else 0
                        continue
                    if isinstance(s, ast.Assign) and len(s.targets) == 1 and isinstance(s.targets[0], ast.Name):
                        c = s.value
                        if isinstance(c, ast.Call) and isinstance(c.func, ast.Attribute) and c.func.attr in LENGTH_QUERIES and c.args:
                            d = _counter_delta(c.args[0], v)
                            if d is not None:
                                local_len[s.targets[0].id] = off + d
                        continue
                    if isinstance(s, ast.AugAssign) and isinstance(s.op, (ast.Add, ast.Sub)) and isinstance(s.target, ast.Name) and s.target.id != v:
                        val = s.value
                        d = None
                        if isinstance(val, ast.Call) and isinstance(val.func, ast.Attribute) and val.func.attr in LENGTH_QUERIES and val.args:
                            k = _counter_delta(val.args[0], v)
                            d = off + k if k is not None else None
                        elif isinstance(val, ast.Name) and val.id in local_len:
                            d = local_len[val.id]
                        if d is not None:
                            recs.append(("+" if isinstance(s.op, ast.Add) else "-", d, s))
                if off == 0 or not recs:
                    continue
                for sign, d, s in recs:
                    rr.inst()
                    if off < 0:
                        want = off + 1 if f.qual in END_BASED_BORROW else off
                        ok = sign == "+" and d == want
                        kind = "borrow"
                    else:
                        want = off - 1
                        ok = sign == "-" and d == want
                        kind = "carry"
                    if ok:
                        rr.ok({"function": f.qual, "step": f"{v} {off:+d}", kind: f"length of {v}{want:+d} relative to block entry"})
                    else:
                        rr.fail(f.qual, f"`{unparse(s)[:80]}`: the block steps `{v}` by {off:+d} but adjusts the amount by the length of `{v}{d:+d}` (relative to the block's entry value); a {kind} needs the length of `{v}{want:+d}`", ctx.loc(f, s))
    return rr


# ------------------------------------------------------------------------------------------- R10.15 / R10.16

# the shortest year of any supported calendar (Hebrew deficient common year); reviewed against R01.5's year kinds
SHORTEST_YEAR_DAYS = 353


@rule("C10")
def r10_15_single_boundary_fast_path(ctx: Ctx) -> RuleResult:
    """_FixedLengthDatePeriodField.add has a fast path for amounts that can cross at most ONE year boundary: it adjusts the day of
    year by the length of one neighbouring year.  That only holds while |days| is below the length of the shortest year of any
    calendar (353 days, a deficient Hebrew year; 354 for the lunar calendars): the bound of the fast-path test is folded and
    compared with it.  A bound of 366 is fine for solar calendars and produces day-of-year values beyond the year in lunar ones."""
    rr = RuleResult("R10.15", "the single-year-boundary fast path of day / week addition is only taken for amounts shorter than the shortest calendar year (353 days)", min_instances=1)
    M = ctx.M
    f = M.func("_FixedLengthDatePeriodField.add")
    found = False
    for n in own_nodes(f.node):
        if isinstance(n, ast.If) and isinstance(n.test, (ast.Compare, ast.BoolOp)) and "days_to_add" in unparse(n.test) and any(isinstance(x, ast.Call) and isinstance(x.func, ast.Attribute) and x.func.attr == "_get_days_in_year" for b in n.body for x in ast.walk(b)):
            found = True
            rr.inst()
            consts = [abs(c.value if isinstance(c, ast.Constant) else -c.operand.value) for c in ast.walk(n.test)
                      if (isinstance(c, ast.Constant) and isinstance(c.value, int)) or (isinstance(c, ast.UnaryOp) and isinstance(c.op, ast.USub) and isinstance(c.operand, ast.Constant))]
            consts = [c for c in consts if c > 1]
            if consts and max(consts) <= SHORTEST_YEAR_DAYS:
                rr.ok({"fast path": unparse(n.test), "bound": max(consts)})
            else:
                rr.fail(f.qual, f"fast-path test `{unparse(n.test)[:60]}` admits {max(consts) - 1 if consts else '?'} days, more than the shortest calendar year ({SHORTEST_YEAR_DAYS} days): two year boundaries can be crossed while only one is handled", ctx.loc(f, n))
    if not found:
        raise AnalysisError(f"{f.qual}: fast-path test not found")
    return rr


@rule("C10")
def r10_16_double_carry_is_symmetric(ctx: Ctx) -> RuleResult:
    """Changing an offset can move the time of day by up to 36 hours either way, so the nanosecond-of-day can leave [0, one day)
    by up to TWO days in either direction: the forward (`>= NPD`) and backward (`< 0`) normalisation arms must carry the same
    number of times.  The arms are compared structurally: the number of nested carries under each."""
    rr = RuleResult("R10.16", "normalising a nanosecond-of-day after an offset change carries as many days forwards as backwards (both arms handle two days)", min_instances=1)
    M = ctx.M
    for f in sorted(set(M.func_of_node.values()), key=lambda x: x.qual):
        if isinstance(f.node, ast.Lambda) or f.name != "with_offset" or f.cls is None:
            continue
        from ..kit import inline_locals

        def npd(t, f=f) -> bool:  # the day length, also when it is held in a local
            return "NANOSECONDS_PER_DAY" in unparse(inline_locals(f.node, t))

        for n in own_nodes(f.node):
            if not (isinstance(n, ast.If) and npd(n.test) and n.orelse and isinstance(n.orelse[0], ast.If)):
                continue
            par = getattr(n, "_parent", None)
            if isinstance(par, ast.If) and n in par.body and npd(par.test):
                continue  # the nested second carry itself

            def depth(stmts: list[ast.stmt], key: str) -> int:
                d = 0
                for s in stmts:
                    if isinstance(s, ast.If) and key(s.test):
                        d = max(d, 1 + depth(s.body, key))
                return d

            fwd = 1 + depth(n.body, lambda t: npd(t) and ">=" in unparse(t))
            back_if = n.orelse[0]
            back = 1 + depth(back_if.body, lambda t: "< 0" in unparse(t))
            rr.inst()
            if fwd == back:
                rr.ok({"function": f.qual, "carries each way": fwd})
            else:
                rr.fail(f.qual, f"the forward arm carries {fwd} day(s), the backward arm {back}: an offset change of more than 24 hours leaves a nanosecond-of-day outside [0, one day) in one direction", ctx.loc(f, n))
    return rr


# ------------------------------------------------------------------------------------------- R10.17 / R10.18


@rule("C10")
def r10_17_time_of_day_arithmetic_wraps(ctx: Ctx) -> RuleResult:
    """A time of day has no range: adding or subtracting any amount wraps around midnight.  Duration has a range (about +/- 2**30
    days) and its factories raise outside it, so LocalTime arithmetic that goes through a Duration (`period.to_duration()`,
    `Duration.from_*`) turns a wrap into a ValueError for large amounts and makes `-` disagree with `+`.  No arithmetic method of
    LocalTime may construct or obtain a Duration."""
    rr = RuleResult("R10.17", "LocalTime arithmetic (plus / minus / operators) never goes through a Duration (whose range would turn wrapping into an error)", min_instances=8)
    M = ctx.M
    c = M.cls("LocalTime")
    for f in sorted(c.all_defs, key=lambda g: g.qual):
        if isinstance(f.node, ast.Lambda) or not (f.name in ("__add__", "__sub__", "plus", "minus", "add", "subtract") or f.name.startswith("plus_")):
            continue
        rr.inst()
        bad = next((n for n in own_nodes(f.node) if isinstance(n, ast.Call) and (unparse(n.func).endswith(".to_duration") or re.match(r"Duration\.(from_|_ctor|_from)", unparse(n.func)))), None)
        if bad is None:
            rr.ok({"method": f.qual})
        else:
            rr.fail(f.qual, f"`{unparse(bad)[:70]}`: a Duration is range-limited; time-of-day arithmetic must wrap for every amount (and agree with its inverse)", ctx.loc(f, bad))
    return rr


@rule("C10")
def r10_18_time_of_day_extremes(ctx: Ctx) -> RuleResult:
    """LocalTime.midnight / noon / max_value and min_value are the reference points of carry arithmetic: max_value is ONE NANOSECOND
    before midnight (LocalDateTime.max_iso_value is built from it).  Their constructors are evaluated by the abstract interpreter
    and the stored nanosecond-of-day compared with 0, half a day and one day minus one nanosecond."""
    from ..absint import Iv
    from ..oblig import interp

    rr = RuleResult("R10.18", "LocalTime.midnight / noon / max_value hold 0, half a day and one day minus one nanosecond (evaluated)", min_instances=3)
    M = ctx.M
    npd = M.fold_class_const("PyodaConstants", "NANOSECONDS_PER_DAY")
    meta = M.cls("_LocalTimeMeta")
    for name, want in (("midnight", 0), ("min_value", 0), ("noon", npd // 2), ("max_value", npd - 1)):
        f = M.find_method(meta, name)
        if f is None:
            continue
        rr.inst()
        I = interp(ctx)
        I.max_depth = 6
        rets, _ = I.analyse(f, params={})
        rr.states += 1
        got = set()
        for v, _x in rets:
            fl = getattr(v, "fields", None) or {}
            n = next((x for k, x in fl.items() if "nanoseconds" in k), None)
            got.add(int(n.lo) if isinstance(n, Iv) and n.lo == n.hi else repr(v)[:40])
        if got == {want}:
            rr.ok({name: want})
        else:
            rr.fail(f.qual, f"LocalTime.{name} holds {sorted(got, key=str)} nanoseconds of the day, not {want}", ctx.loc(f))
    return rr
