"""C05 - Local date-times map to exactly the instants whose local rendering is that value (wiring / table / guard clauses)."""
from __future__ import annotations

import ast

from ..absint import Iv, Obj
from ..core import Ctx, RuleResult, anchor_files, rule
from ..kit import NoReturn, own_nodes
from ..model import UNKNOWN, AnalysisError, mangle, unparse
from ..terms import Store, TermEval, show, sym


def _callname(t) -> str:
    return t[1].split(".")[-1] if isinstance(t, tuple) and t[0] == "call" else ""


@rule("C05")
def r05_1_mapping_table(ctx: Ctx) -> RuleResult:
    rr = RuleResult("R05.1", "map_local builds its result from the right probes: 2 = (earlier, later) in order, 1 = one interval twice, 0 = (before gap, after gap)", min_instances=8)
    M = ctx.M
    f = M.func("DateTimeZone.map_local")
    te = TermEval(M, ctx.R, f, inline_depth=0)
    outs = te.run(Store({"local_date_time": sym("LDT")}))
    rr.states += len(outs)
    seen_counts = set()
    for ret, _ in outs:
        if ret is None or not (ret[0] == "call" and ret[1].endswith("ZoneLocalMapping._ctor")):
            continue
        rr.inst()
        args = list(ret[2])
        if len(args) != 5:
            rr.fail(f.qual, f"unexpected mapping construction {show(ret)[:120]}", ctx.loc(f))
            continue
        zone, ldt, early, late, count = args
        cnt = count[1] if count[0] == "const" else None
        seen_counts.add(cnt)
        ne, nl = _callname(early), _callname(late)
        is_first = lambda t: isinstance(t, tuple) and t[0] == "call" and t[1].endswith("get_zone_interval")  # noqa: E731
        ok, why = True, ""
        if zone != sym("self") or ldt != sym("LDT"):
            ok, why = False, "zone / local value slots are not (self, local_date_time)"
        elif cnt == 2:
            if not ((ne.endswith("get_earlier_matching_interval") and is_first(late)) or (is_first(early) and nl.endswith("get_later_matching_interval"))):
                ok, why = False, f"count 2 must pair the earlier probe with the first guess (in that order) or the first guess with the later probe; found ({show(early)[:60]}, {show(late)[:60]})"
        elif cnt == 1:
            if early != late:
                ok, why = False, f"count 1 must put the same interval in both slots; found ({show(early)[:60]}, {show(late)[:60]})"
        elif cnt == 0:
            if not (ne.endswith("get_interval_before_gap") and nl.endswith("get_interval_after_gap")):
                ok, why = False, f"count 0 must be (interval before gap, interval after gap); found ({show(early)[:60]}, {show(late)[:60]})"
        else:
            ok, why = False, f"count is not a literal 0, 1 or 2: {show(count)}"
        if ok:
            rr.ok({"count": cnt, "early": show(early)[:70], "late": show(late)[:70]})
        else:
            rr.fail(f.qual, why, ctx.loc(f))
    if seen_counts != {0, 1, 2}:
        rr.fail(f.qual, f"map_local does not produce all of the counts 0, 1, 2 (found {sorted(x for x in seen_counts if x is not None)})", ctx.loc(f))
    # the probes' day pre-filter must leave one day of slack (|local day - UTC day| <= 1 because |offset| < 24h)
    from ..oblig import interp
    from ..absint import State, TOPINT

    for q, side in (("DateTimeZone.__get_earlier_matching_interval", "earlier"), ("DateTimeZone.__get_later_matching_interval", "later")):
        g = M.func(q)
        rr.inst()
        I = interp(ctx)
        # the condition under which the neighbouring interval is probed: facts holding at the probe call (an enclosing `if`,
        # or the negation of an earlier `if ...: return None`)
        from ..exc import facts_at

        probes = [n for n in own_nodes(g.node) if isinstance(n, ast.Call) and isinstance(n.func, ast.Attribute) and n.func.attr == "get_zone_interval"]
        cands = []
        for pc in probes:
            for (l, o, r) in sorted(facts_at(pc)):
                if "local_instant" in l and "_days_since_epoch" in l and "_days_since_epoch" in r and o in ("<", "<=", ">", ">="):
                    cands.append((l, o, r))
        if len(probes) != 1 or len(set(cands)) != 1:
            rr.fail(q, "day pre-filter not recognised", ctx.loc(g))
            continue
        l0, o0, r0 = cands[0]
        t = ast.parse(f"{l0} {o0} {r0}", mode="eval").body
        for sub in ast.walk(t):
            for ch in ast.iter_child_nodes(sub):
                ch._parent = sub  # type: ignore[attr-defined]
        st = State({})
        la, lb = I.lin(I.term(t.left, st, g)), I.lin(I.term(t.comparators[0], st, g))
        op = type(t.ops[0])
        if la is None or lb is None:
            rr.fail(q, f"pre-filter `{unparse(t)}` is not linear in the day numbers", ctx.loc(g))
            continue
        # normalise to  local - bound  (>= for later, <= for earlier): slack = constant part that widens the accepted set
        diff_c = la[0] - lb[0]
        atoms_l = {k: v for k, v in la[1].items()}
        atoms_r = {k: v for k, v in lb[1].items()}
        local_left = any("local_instant" in k[1] for k in atoms_l)
        if side == "later":
            good_op = op in (ast.GtE, ast.Gt) if local_left else op in (ast.LtE, ast.Lt)
            slack = (diff_c if local_left else -diff_c) - (1 if op in (ast.Gt, ast.Lt) else 0)
        else:
            good_op = op in (ast.LtE, ast.Lt) if local_left else op in (ast.GtE, ast.Gt)
            slack = (-diff_c if local_left else diff_c) - (1 if op in (ast.Gt, ast.Lt) else 0)
        if good_op and slack >= 1:
            rr.ok({"probe": q, "prefilter": unparse(t), "slack_days": slack})
        else:
            rr.fail(q, f"pre-filter `{unparse(t)}` leaves {slack} day(s) of slack; a local day can differ from the UTC day of the boundary by one, so matching intervals are skipped", ctx.loc(g, t))
    return rr


def _strip_checks(e: ast.expr) -> ast.expr:
    """`_Preconditions._check_not_null(x, "name")` returns x: replace the call by its first argument."""
    import copy

    class T(ast.NodeTransformer):
        def visit_Call(self, node: ast.Call) -> ast.AST:  # noqa: N802
            self.generic_visit(node)
            if isinstance(node.func, ast.Attribute) and node.func.attr == "_check_not_null" and node.args:
                return node.args[0]
            return node

    return T().visit(copy.deepcopy(e))


def _match_table(f) -> dict:
    """Outcome of a function that selects on `<x>.count`, per count value: {k: ('return'|'raise', expression text)}.
    Decided by following the function for each k (match arms, if/elif chains on the count or a local alias of it, in any mix);
    temporaries are inlined and argument-check wrappers are looked through, so the table is the same however the selection is spelt."""
    from ..kit import inline_locals

    def is_count(e: ast.expr) -> bool:
        e = _strip_checks(inline_locals(f.node, e))
        return isinstance(e, ast.Attribute) and e.attr == "count"

    def decide(t: ast.expr, k: int) -> bool | None:
        if isinstance(t, ast.BoolOp):
            vs = [decide(v, k) for v in t.values]
            if isinstance(t.op, ast.Or):
                return True if any(v is True for v in vs) else (None if any(v is None for v in vs) else False)
            return False if any(v is False for v in vs) else (None if any(v is None for v in vs) else True)
        if isinstance(t, ast.UnaryOp) and isinstance(t.op, ast.Not):
            d = decide(t.operand, k)
            return None if d is None else not d
        if isinstance(t, ast.Compare) and len(t.ops) == 1:
            a, b, op = t.left, t.comparators[0], t.ops[0]
            if is_count(b) and isinstance(a, ast.Constant):
                a, b = b, a
                op = {ast.Lt: ast.Gt(), ast.Gt: ast.Lt(), ast.LtE: ast.GtE(), ast.GtE: ast.LtE()}.get(type(op), op)
            if is_count(a):
                if isinstance(b, ast.Constant) and isinstance(b.value, int):
                    c = b.value
                    return {ast.Eq: k == c, ast.NotEq: k != c, ast.Lt: k < c, ast.LtE: k <= c, ast.Gt: k > c, ast.GtE: k >= c}.get(type(op))
                if isinstance(op, (ast.In, ast.NotIn)) and isinstance(b, (ast.Tuple, ast.List, ast.Set)) and all(isinstance(x, ast.Constant) for x in b.elts):
                    r = k in [x.value for x in b.elts]
                    return r if isinstance(op, ast.In) else not r
        return None

    def run(body: list[ast.stmt], k: int):
        for s in body:
            if isinstance(s, ast.Return):
                return ("return", unparse(_strip_checks(inline_locals(f.node, s.value))) if s.value is not None else "None")
            if isinstance(s, ast.Raise):
                return ("raise", unparse(_strip_checks(inline_locals(f.node, s.exc))) if s.exc is not None else "")
            if isinstance(s, ast.If):
                d = decide(s.test, k)
                if d is None:
                    return ("other", "undecided test `" + unparse(s.test) + "`")
                r = run(s.body if d else s.orelse, k)
                if r is not None:
                    return r
            elif isinstance(s, ast.Match) and is_count(s.subject):
                for c in s.cases:
                    pats = c.pattern.patterns if isinstance(c.pattern, ast.MatchOr) else [c.pattern]
                    hit = any((isinstance(q, ast.MatchValue) and isinstance(q.value, ast.Constant) and q.value.value == k) or (isinstance(q, ast.MatchAs) and q.pattern is None) for q in pats)
                    if hit and c.guard is None:
                        r = run(c.body, k)
                        if r is not None:
                            return r
                        break
        return None

    return {k: run(f.body, k) for k in (0, 1, 2)}


@rule("C05")
def r05_2_selection_tables(ctx: Ctx) -> RuleResult:
    rr = RuleResult("R05.2", "ZoneLocalMapping.single/first/last and create_mapping_resolver select by count as documented", min_instances=12)
    M = ctx.M
    B = "self.__build_zoned_date_time"
    spec = {
        "ZoneLocalMapping.single": {0: ("raise", "SkippedTimeError(self.local_date_time, self.zone)"), 1: ("return", f"{B}(self.early_interval)"),
                                    2: ("raise", f"AmbiguousTimeError({B}(self.early_interval), {B}(self.late_interval))")},
        "ZoneLocalMapping.first": {0: ("raise", "SkippedTimeError(self.local_date_time, self.zone)"), 1: ("return", f"{B}(self.early_interval)"), 2: ("return", f"{B}(self.early_interval)")},
        "ZoneLocalMapping.last": {0: ("raise", "SkippedTimeError(self.local_date_time, self.zone)"), 1: ("return", f"{B}(self.early_interval)"), 2: ("return", f"{B}(self.late_interval)")},
    }
    for q, table in spec.items():
        f = M.func(q)
        got = _match_table(f)
        for cnt, want in table.items():
            rr.inst()
            g = got.get(cnt)
            if g == want:
                rr.ok({"fn": q, "count": cnt, "effect": want[0], "expr": want[1]})
            else:
                rr.fail(q, f"count {cnt}: must {want[0]} `{want[1]}`, found {g}", ctx.loc(f))
    f = M.func("ZoneLocalMapping.__build_zoned_date_time")
    rr.inst()
    outs = TermEval(M, ctx.R, f, inline_depth=1).run(Store({"interval": sym("INTERVAL")}))
    good = False
    if len(outs) == 1 and outs[0][0] is not None:
        t = outs[0][0]
        if t[0] == "call" and t[1].endswith("ZonedDateTime._ctor"):
            kw = dict(t[3])
            odt, zone = kw.get("offset_date_time"), kw.get("zone")
            if odt is not None and odt[0] == "call" and odt[1].endswith("with_offset") and show(odt[4]).endswith("local_date_time") and odt[2] == (("attr", sym("INTERVAL"), "wall_offset"),) and show(zone).endswith("zone"):
                good = True
    if good:
        rr.ok({"fn": f.qual, "expr": show(outs[0][0])[:120]})
    else:
        rr.fail(f.qual, f"must be ZonedDateTime._ctor(local_date_time.with_offset(interval.wall_offset), zone); found {[show(o[0])[:120] for o in outs]}", ctx.loc(f))
    g = M.func("__ResolversMeta.create_mapping_resolver")
    inner = g.nested.get("func")
    if inner is None:
        raise AnalysisError("create_mapping_resolver: inner function not found")
    got = _match_table(inner)
    want = {0: ("return", "skipped_time_resolver(mapping.local_date_time, mapping.zone, mapping.early_interval, mapping.late_interval)"),
            1: ("return", "mapping.first()"), 2: ("return", "ambiguous_time_resolver(mapping.first(), mapping.last())")}
    for cnt, w in want.items():
        rr.inst()
        if got.get(cnt) == w:
            rr.ok({"resolver": "create_mapping_resolver", "count": cnt, "expr": w[1]})
        else:
            rr.fail(g.qual, f"count {cnt}: must return `{w[1]}`, found {got.get(cnt)}", ctx.loc(inner))
    return rr


@rule("C05")
def r05_3_stock_resolvers(ctx: Ctx) -> RuleResult:
    """Decided by effect, not by name: whatever callables are wired into the strict resolver must be no-return functions raising
    the ambiguous / skipped error; the lenient resolver's ambiguity handler returns its first (earlier) parameter and its gap handler
    re-expresses the local value at the offset before the gap in the offset after it."""
    rr = RuleResult("R05.3", "strict resolver raises for ambiguity and gaps; lenient resolver picks the earlier instant and shifts a skipped time forward by the gap", min_instances=6)
    M = ctx.M
    nr = NoReturn(M, ctx.R)
    meta = M.cls("__ResolversMeta")

    def wired(prop: str) -> dict[str, str]:
        f = M.find_method(meta, prop)
        if f is None:
            raise AnalysisError(f"Resolvers.{prop} missing")
        for n in own_nodes(f.node):
            if isinstance(n, ast.Call) and unparse(n.func).endswith("create_mapping_resolver"):
                return {k.arg: unparse(k.value).split(".")[-1] for k in n.keywords if k.arg}
        raise AnalysisError(f"Resolvers.{prop}: create_mapping_resolver call not found")

    def raised_class(fn) -> str | None:
        for n in own_nodes(fn.node):
            if isinstance(n, ast.Raise) and n.exc is not None:
                return unparse(n.exc.func if isinstance(n.exc, ast.Call) else n.exc)
        return None

    strict = wired("strict_resolver")
    for slot, exc in (("ambiguous_time_resolver", "AmbiguousTimeError"), ("skipped_time_resolver", "SkippedTimeError")):
        rr.inst()
        fn = M.find_method(meta, strict.get(slot, ""))
        if fn is None:
            rr.fail("Resolvers.strict_resolver", f"{slot} is wired to {strict.get(slot)}, which is not a resolver function", meta.mod.rel)
        elif id(fn) in nr.nr and raised_class(fn) == exc:
            rr.ok({"resolver": "strict", "slot": slot, "wired": fn.qual, "effect": f"always raises {exc}"})
        else:
            rr.fail("Resolvers.strict_resolver", f"{slot} is wired to {fn.qual}, which does not always raise {exc}", ctx.loc(fn))
    len_ = wired("lenient_resolver")
    rr.inst()
    fn = M.find_method(meta, len_.get("ambiguous_time_resolver", ""))
    if fn is not None:
        outs = TermEval(M, ctx.R, fn, inline_depth=0).run(Store({p.arg: sym(p.arg) for p in fn.value_params}))
        first = fn.value_params[0].arg
        if len(outs) == 1 and outs[0][0] == sym(first):
            rr.ok({"resolver": "lenient", "slot": "ambiguous", "wired": fn.qual, "returns": f"its first parameter ({first})"})
        else:
            rr.fail("Resolvers.lenient_resolver", f"ambiguity handler {fn.qual} does not return its first (earlier) parameter: {[show(o[0]) for o in outs]}", ctx.loc(fn))
    else:
        rr.fail("Resolvers.lenient_resolver", "ambiguity handler not resolved", meta.mod.rel)
    rr.inst()
    fn = M.find_method(meta, len_.get("skipped_time_resolver", ""))
    good = False
    desc = []
    if fn is not None:
        ps = [p.arg for p in fn.value_params]
        outs = TermEval(M, ctx.R, fn, inline_depth=0).run(Store({p: sym(p) for p in ps}))
        desc = [show(o[0])[:160] for o in outs]
        if len(outs) == 1 and outs[0][0] is not None and len(ps) == 4:
            ldt, zone, before, after = ps
            t = outs[0][0]
            if t[0] == "call" and t[1].endswith("ZonedDateTime._ctor"):
                kw = dict(t[3])
                odt = kw.get("offset_date_time")
                if kw.get("zone") == sym(zone) and odt is not None and odt[0] == "call" and odt[1].endswith("with_offset") and odt[2] == (("attr", sym(after), "wall_offset"),):
                    inner = odt[4]
                    if inner is not None and inner[0] == "call" and inner[1].endswith("OffsetDateTime.__init__"):
                        ikw = dict(inner[3])
                        a = list(inner[2])
                        l_ = ikw.get("local_date_time", a[0] if a else None)
                        o_ = ikw.get("offset", a[1] if len(a) > 1 else None)
                        if l_ == sym(ldt) and o_ == ("attr", sym(before), "wall_offset"):
                            good = True
    if good:
        rr.ok({"resolver": "lenient", "slot": "skipped", "wired": fn.qual, "shape": "OffsetDateTime(local, before.wall_offset).with_offset(after.wall_offset) in zone"})
    else:
        rr.fail("Resolvers.lenient_resolver", f"gap handler must re-express the local value taken at interval_before.wall_offset in interval_after.wall_offset (forward shift by the gap); found {desc}", ctx.loc(fn) if fn else meta.mod.rel)
    for q, prop in (("DateTimeZone.at_strictly", "strict_resolver"), ("DateTimeZone.at_leniently", "lenient_resolver")):
        f = M.func(q)
        rr.inst()
        if f"resolver=Resolvers.{prop}" in unparse(f.node):
            rr.ok({"fn": q, "resolver": prop})
        else:
            rr.fail(q, f"does not resolve with Resolvers.{prop}", ctx.loc(f))
    return rr


@rule("C05")
def r05_4_guards(ctx: Ctx) -> RuleResult:
    rr = RuleResult("R05.4", "local+offset construction verifies the offset against the zone; start-of-day in a gap checks the resulting date; gap bracketing picks the adjacent intervals", min_instances=4)
    M = ctx.M
    f = M.func("ZonedDateTime.__init__")
    rr.inst()
    # the `correct_offset != offset -> raise` test must precede the construction in the local+offset arm
    arm = None
    for n in own_nodes(f.node):
        if isinstance(n, ast.If) and "local_date_time is not None" in unparse(n.test) and "offset is not None" in unparse(n.test):
            arm = n
    good = False
    if arm is not None:
        body = arm.body
        idx_check = next((i for i, s in enumerate(body) if isinstance(s, ast.If) and isinstance(s.test, ast.Compare) and isinstance(s.test.ops[0], ast.NotEq)
                          and {unparse(s.test.left), unparse(s.test.comparators[0])} == {"correct_offset", "offset"} and any(isinstance(x, ast.Raise) for x in s.body)), None)
        idx_build = next((i for i, s in enumerate(body) if isinstance(s, ast.Assign) and "OffsetDateTime(" in unparse(s.value)), None)
        src = next((s for s in body if isinstance(s, (ast.Assign, ast.AnnAssign)) and unparse(getattr(s, "targets", [getattr(s, "target", None)])[0]) == "correct_offset"), None)
        derived = src is not None and "zone.get_utc_offset(candidate_instant)" in unparse(src.value)
        cand = next((s for s in body if isinstance(s, ast.Assign) and unparse(s.targets[0]) == "candidate_instant"), None)
        cand_ok = cand is not None and unparse(cand.value) == "local_date_time._to_local_instant()._minus(offset)"
        good = idx_check is not None and idx_build is not None and idx_check < idx_build and derived and cand_ok
    if good:
        rr.ok({"fn": f.qual, "guard": "zone.get_utc_offset(local - offset) != offset -> raise, before construction"})
    else:
        rr.fail(f.qual, "the local+offset arm does not verify that the zone's offset at (local - offset) equals the given offset before constructing", ctx.loc(f))
    g = M.func("DateTimeZone.at_start_of_day")
    rr.inst()
    tbl = {}
    for m in own_nodes(g.node):
        if isinstance(m, ast.Match):
            for c in m.cases:
                if isinstance(c.pattern, ast.MatchValue) and c.pattern.value.value == 0:
                    body = c.body
                    chk = any(isinstance(s, ast.If) and "_year_month_day" in unparse(s.test) and "date._year_month_day" in unparse(s.test) and any(isinstance(x, ast.Raise) for x in s.body) for s in body)
                    uses = "instant=interval.start" in unparse(c) and "offset=interval.wall_offset" in unparse(c) and "mapping.late_interval" in unparse(c)
                    tbl[0] = chk and uses
    if tbl.get(0):
        rr.ok({"fn": g.qual, "gap_arm": "start of the interval after the gap, rejected unless still on the requested date"})
    else:
        rr.fail(g.qual, "the skipped-midnight arm must take the start of the interval after the gap (late_interval.start at its wall offset) and raise unless the result is still on the requested date", ctx.loc(g))
    for q, want in (("DateTimeZone.__get_interval_before_gap", ["self.get_zone_interval(guess_interval.start - Duration.epsilon)", "guess_interval"]),
                    ("DateTimeZone.__get_interval_after_gap", ["guess_interval", "self.get_zone_interval(guess_interval.end)"])):
        h = M.func(q)
        rr.inst()
        ifs = [n for n in own_nodes(h.node) if isinstance(n, ast.If)]
        ok = False
        if len(ifs) == 1 and unparse(ifs[0].test) == "local_instant._minus(guess_interval.wall_offset) < guess_interval._raw_start":
            a = [unparse(s.value) for s in ifs[0].body if isinstance(s, ast.Return)]
            b = [unparse(s.value) for s in (ifs[0].orelse or h.body[h.body.index(ifs[0]) + 1:]) if isinstance(s, ast.Return)]
            ok = a[:1] == want[:1] and b[:1] == want[1:]
        if ok:
            rr.ok({"fn": q, "before_guess_start": want[0], "otherwise": want[1]})
        else:
            rr.fail(q, f"gap bracketing must return {want[0]} when the local value precedes the guessed interval's start and {want[1]} otherwise", ctx.loc(h))
    return rr


@rule("C05")
def r05_5_zone_interval_contains(ctx: Ctx) -> RuleResult:
    from ..order import build, run, weak_orderings

    rr = RuleResult("R05.5", "ZoneInterval membership (instant and local) is half-open [start, end); construction rejects start >= end", min_instances=3)
    M = ctx.M
    c = M.cls("ZoneInterval")
    for name, fs, fe, t in (("__contains__", "__raw_start", "__raw_end", "Instant"), ("_contains", "__local_start", "__local_end", "_LocalInstant")):
        f = M.find_method(c, name)
        rr.inst()
        bad = None
        n = 0
        for rk in weak_orderings(3):
            s, e, i = rk
            if s >= e:
                continue
            ms, me, mi = build(t, "s"), build(t, "e"), build(t, "i")
            ranks = {}
            for mdl, r in ((ms, s), (me, e), (mi, i)):
                ranks[mdl.keys[0][0]] = r
                ranks[mdl.keys[1][0]] = 0
            out = run(ctx, f, Obj("ZoneInterval", {mangle("ZoneInterval", fs): ms.obj, mangle("ZoneInterval", fe): me.obj, "_raw_start": ms.obj, "_raw_end": me.obj}),
                      {f.value_params[0].arg: mi.obj}, ranks)
            n += 1
            want = s <= i < e
            if out.definite_bool is None or out.definite_bool != want:
                bad = f"ordering start={s} end={e} probe={i}: evaluates to {out.definite_bool if out.definite_bool is not None else (out.escaped or out.values)[:1]}, half-open membership is {want}"
                break
        rr.states += n
        if bad:
            rr.fail(f.qual, bad, ctx.loc(f))
        else:
            rr.ok({"op": f.qual, "orderings": n})
    init = M.find_method(c, "__init__")
    rr.inst()
    res = []
    for s, e in ((0, 1), (0, 0), (1, 0)):
        ms, me = build("Instant", "s"), build("Instant", "e")
        ranks = {ms.keys[0][0]: s, ms.keys[1][0]: 0, me.keys[0][0]: e, me.keys[1][0]: 0}
        out = run(ctx, init, Obj("ZoneInterval", {"$exact": Iv(1, 1)}), {"name": __import__("sa.absint", fromlist=["ConstV"]).ConstV("n"), "start": ms.obj, "end": me.obj,
                                                                       "wall_offset": Obj("Offset"), "savings": Obj("Offset")}, ranks)
        res.append(bool(out.values))
    if res == [True, False, False]:
        rr.ok({"ctor": "rejects start >= end"})
    else:
        rr.fail(init.qual, f"construction outcomes for (start<end, start==end, start>end) are {res}, expected [ok, raise, raise]", ctx.loc(init))
    return rr


@rule("C05")
def r05_6_calendar_retention(ctx: Ctx) -> RuleResult:
    from ..retention import check_retention

    rr = RuleResult("R05.6", "zone mapping keeps the calendar of the local value (no optional `calendar` dropped)", min_instances=3)
    files = anchor_files("C05")
    check_retention(ctx, rr, lambda f: f.mod.rel in files)
    return rr


@rule("C05")
def r05_6_resolver_slots(ctx: Ctx) -> RuleResult:
    """The stock resolvers are lazily built singletons: each getter must fill the slot it tests, or asking for one resolver
    replaces another (strict would start answering leniently, depending on which was asked for first)."""
    from ..memo import lazy_slots

    rr = RuleResult("R05.7", "stock resolver getters fill the slot they test", min_instances=2)
    for ls in lazy_slots(ctx.M, anchor_files("C05")):
        rr.inst()
        if ls.problem:
            rr.fail(ls.fn.qual, ls.problem, ctx.loc(ls.fn, ls.node))
        else:
            rr.ok({"getter": ls.fn.qual, "slot": ls.slot})
    return rr


# expected shape of the thin entry points and of the two interval-edge resolvers: (function, callee as written after inlining
# temporaries, {callee parameter: argument text})
WIRING = [
    ("LocalDate.at_start_of_day_in_zone", "zone.at_start_of_day", {"date": "self"}),
    ("LocalDateTime.in_zone_strictly", "zone.at_strictly", {"local_date_time": "self"}),
    ("LocalDateTime.in_zone_leniently", "zone.at_leniently", {"local_date_time": "self"}),
    ("LocalDateTime.in_zone", "zone.resolve_local", {"local_date_time": "self", "resolver": "resolver"}),
    ("DateTimeZone.at_strictly", "self.resolve_local", {"local_date_time": "local_date_time", "resolver": "Resolvers.strict_resolver"}),
    ("DateTimeZone.at_leniently", "self.resolve_local", {"local_date_time": "local_date_time", "resolver": "Resolvers.lenient_resolver"}),
    ("__ResolversMeta.return_end_of_interval_before", "ZonedDateTime", {"instant": "interval_before.end - Duration.epsilon", "zone": "zone", "calendar": "local_date_time.calendar"}),
    ("__ResolversMeta.return_start_of_interval_after", "ZonedDateTime", {"instant": "interval_after.start", "zone": "zone", "calendar": "local_date_time.calendar"}),
]


@rule("C05")
def r05_8_entry_point_wiring(ctx: Ctx) -> RuleResult:
    """The convenience entry points are one-liners over the zone's primitives (`at_start_of_day`, `at_strictly`, `at_leniently`,
    `resolve_local`), which carry the case analysis this property is about (gaps, whole skipped days, ambiguity); the two
    interval-edge resolvers build their answer through the public ZonedDateTime constructor, which derives the offset from the
    zone for the instant it is given.  Each must return exactly that call: a re-composition out of other pieces loses a case
    (a wholly skipped day) or pairs an instant with the offset of the interval it does not belong to."""
    from ..kit import bind_args, inline_locals

    rr = RuleResult("R05.8", "convenience entry points return the zone primitive's answer; interval-edge resolvers go through the offset-deriving ZonedDateTime constructor with the documented instant", min_instances=8)
    M = ctx.M
    for q, callee, want in WIRING:
        f = M.func(q, required=False)
        if f is None:
            raise AnalysisError(f"{q} vanished")
        rr.inst()
        rets = [n for n in own_nodes(f.node) if isinstance(n, ast.Return) and n.value is not None]
        if len(rets) != 1:
            rr.fail(q, f"has {len(rets)} return statements; expected the single call `{callee}(...)`", ctx.loc(f))
            continue
        v = _strip_checks(inline_locals(f.node, rets[0].value))
        if not (isinstance(v, ast.Call) and unparse(v.func) == callee):
            rr.fail(q, f"returns `{unparse(v)[:80]}` instead of the answer of `{callee}(...)`", ctx.loc(f, rets[0]))
            continue
        tg, how = ctx.R.callees(rets[0].value if isinstance(rets[0].value, ast.Call) else v, f, count=False)
        t = next((x for x in tg if x.name != "__new__"), None) if tg else None
        got = {p: unparse(_strip_checks(inline_locals(f.node, a))) for p, a in (bind_args(v, t).items() if t is not None else [(k.arg, k.value) for k in v.keywords])}
        if t is None:
            got.update({list(want)[i]: unparse(a) for i, a in enumerate(v.args) if i < len(want)})
        bad = {p: (got.get(p), w) for p, w in want.items() if got.get(p) != w}
        if bad:
            p, (g_, w) = next(iter(bad.items()))
            rr.fail(q, f"passes `{g_}` as `{p}` of {callee}; the documented value is `{w}`", ctx.loc(f, rets[0]))
        else:
            rr.ok({"fn": q, "returns": f"{callee}({', '.join(f'{p}={w}' for p, w in want.items())})"})
    return rr


# ------------------------------------------------------------------------------------------- R05.10 local instants at the ends of time


@rule("C05")
def r05_10_safe_plus_at_the_ends_of_time(ctx: Ctx) -> RuleResult:
    """Instant._safe_plus(offset) gives the local instant of an instant, or the before-min / after-max sentinel when instant + offset
    leaves the representable range; zone intervals compute their local bounds with it.  On the first and the last day of time the
    answer depends on the direction of the offset: the function is evaluated by the abstract interpreter on exact values (first /
    last day, start / end of the day, offsets of +/- 1 h and +/- 18 h) and the constructor it reaches is compared with
    floor((days * NPD + nanos + offset) / NPD) against the day range."""
    from ..absint import Iv, Obj
    from ..oblig import interp

    rr = RuleResult("R05.10", "Instant._safe_plus returns the before-min / after-max sentinel exactly when instant + offset leaves the day range, evaluated on the first and last day of time", min_instances=12)
    M = ctx.M
    f = M.func("Instant._safe_plus")
    lo, hi = M.fold_class_const("Instant", "_MIN_DAYS"), M.fold_class_const("Instant", "_MAX_DAYS")
    npd = M.fold_class_const("PyodaConstants", "NANOSECONDS_PER_DAY")
    if not all(isinstance(v, int) for v in (lo, hi, npd)):
        raise AnalysisError("Instant day range not foldable")
    nanos: tuple = (0, npd - 1, 3600 * 10**9)
    offs: tuple = (3600, -3600, 64800, -64800)
    if ctx.tier != "quick":  # thorough: the exact crossing points of every whole-hour and several odd offsets, one nanosecond either side
        offs = tuple(sorted({sg * x for sg in (1, -1) for x in (1, 59, 60, 1800, 3599, 3600, 3601, 19800, 20700, 43200, 64799, 64800)}))
        nanos = tuple(sorted({0, 1, npd - 1, npd - 2, 3600 * 10**9} | {n for o in offs for n in ((-o * 10**9) % npd, (-o * 10**9 - 1) % npd, (-o * 10**9 + 1) % npd)}))
    for days in (lo, hi, lo + 1, hi - 1):
        for nano in nanos:
            for off_s in offs:
                rr.inst()
                seen: list[str] = []

                def on_call(c, callee, bound, st, fn, seen=seen):
                    if fn.name not in ("_safe_plus", "_plus"):
                        return  # the sentinels are themselves built with _LocalInstant._ctor
                    if callee.name in ("before_min_value", "after_max_value") or (callee.name.endswith("_ctor") and callee.cls is not None and callee.cls.name == "_LocalInstant"):
                        seen.append("before" if callee.name == "before_min_value" else "after" if callee.name == "after_max_value" else "valid")

                I = interp(ctx)
                I.max_depth = 6
                I.hooks_all_depths = True
                I.on_call = on_call
                dur = Obj("Duration", {mangle("Duration", "__days"): Iv(days, days), mangle("Duration", "__nano_of_day"): Iv(nano, nano)})
                so = Obj("Instant", {mangle("Instant", "__duration"): dur})
                off = Obj("Offset", {mangle("Offset", "__seconds"): Iv(off_s, off_s)})
                I.analyse(f, self_obj=so, params={f.value_params[0].arg: off})
                rr.states += 1
                fd = (days * npd + nano + off_s * 10**9) // npd
                want = "before" if fd < lo else "after" if fd > hi else "valid"
                got = set(seen)
                if got == {want}:
                    rr.ok()
                else:
                    rr.fail(f.qual, f"day {days} ({'first' if days == lo else 'last' if days == hi else 'inner'}), nanosecond of day {nano}, offset {off_s:+d} s: reaches {sorted(got) or 'no constructor'}; instant + offset lies on day {fd}, so the answer is `{want}`", ctx.loc(f))
    return rr


@rule("C05")
def r05_11_local_instant_day_range(ctx: Ctx) -> RuleResult:
    """A _LocalInstant built from a Duration must accept exactly the days [Instant._MIN_DAYS, Instant._MAX_DAYS]: the local
    rendering of an instant on the last day of time (9999-12-31 in any zone that is at or ahead of UTC there) is a valid local
    instant.  The guard of the OverflowError is evaluated by the abstract interpreter at both bounds and one day beyond."""
    from ..absint import Iv, State
    from ..oblig import interp

    rr = RuleResult("R05.11", "_LocalInstant._ctor(nanoseconds=...) rejects exactly the days outside [Instant._MIN_DAYS, Instant._MAX_DAYS] (guard evaluated at the bounds)", min_instances=4)
    M = ctx.M
    f = M.func("_LocalInstant._ctor", required=True)
    lo, hi = M.fold_class_const("Instant", "_MIN_DAYS"), M.fold_class_const("Instant", "_MAX_DAYS")
    if not (isinstance(lo, int) and isinstance(hi, int)):
        raise AnalysisError("Instant day range not foldable")
    guards = [n for n in own_nodes(f.node) if isinstance(n, ast.If) and any(isinstance(x, ast.Raise) and "OverflowError" in unparse(x) for x in n.body)
              and any(isinstance(x, ast.Name) and x.id == "days" for x in ast.walk(n.test))]
    if len(guards) != 1:
        raise AnalysisError(f"{f.qual}: expected one OverflowError guard on `days`, found {len(guards)}")
    g = guards[0]
    for d, want in ((lo - 1, 1), (lo, 0), (0, 0), (hi - 1, 0), (hi, 0), (hi + 1, 1)):
        rr.inst()
        v = interp(ctx).ev(g.test, State({"days": Iv(d, d)}), f, 0)
        if isinstance(v, Iv) and v.const and int(v.lo) == want:
            rr.ok({"day": d, "rejected": bool(want)})
        elif isinstance(v, Iv) and v.const:
            rr.fail(f.qual, f"day {d} ({'the last' if d == hi else 'the first' if d == lo else 'a'} day of time{'' if lo <= d <= hi else ', outside'}) is {'rejected' if v.lo else 'accepted'}: local instants on days [{lo}, {hi}] are all valid (9999-12-31 local time exists in every zone at or ahead of UTC)", ctx.loc(f, g))
        else:
            rr.fail(f.qual, f"the guard `{unparse(g.test)[:70]}` could not be evaluated at day {d} (not decided)", ctx.loc(f, g))
    return rr
