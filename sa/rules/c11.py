"""C11 - Offset and zoned date-times keep instant, local time, offset, calendar in step (structural clauses)."""
from __future__ import annotations

import ast
import re

from ..core import Ctx, RuleResult, rule
from ..kit import own_nodes
from ..model import UNKNOWN, AnalysisError, mangle, unparse
from ..oblig import decide, global_sweep, select


@rule("C11")
def r11_2_day_carry(ctx: Ctx) -> RuleResult:
    rr = RuleResult("R11.2", "every OffsetTime construction receives a nanosecond-of-day in [0, 24h) and offset seconds within +/-18h (carries suffice)", min_instances=8)
    groups = select(global_sweep(ctx), ["OffsetTime._ctor("])
    rr.states = ctx.cache.get("sweep_steps", 0)
    decide(rr, groups, "R11.2", {}, ctx)
    return rr


@rule("C11")
def r11_1_calendar_retention(ctx: Ctx) -> RuleResult:
    from ..retention import check_retention

    from ..core import anchor_files

    rr = RuleResult("R11.1", "derived values keep the calendar: no call drops an optional `calendar` while one is in scope", min_instances=10)
    files = anchor_files("C11")
    check_retention(ctx, rr, lambda f: f.mod.rel in files)
    return rr


@rule("C11")
def r11_7_units(ctx: Ctx) -> RuleResult:
    from ..dims import units_rule

    return units_rule(ctx, "R11.7", "C11", 40)


# ------------------------------------------------------------------------------------------- sign discipline


def _sign_of_use(node: ast.AST, stop: ast.AST) -> int:
    """Net sign with which `node` enters the enclosing expression: flipped by being the right operand of `-`, by unary
    minus, and by being an argument of a `_minus_*` helper."""
    sign = 1
    n = node
    while n is not stop and n is not None:
        p = getattr(n, "_parent", None)
        if isinstance(p, ast.BinOp) and isinstance(p.op, ast.Sub) and p.right is n:
            sign = -sign
        elif isinstance(p, ast.UnaryOp) and isinstance(p.op, ast.USub):
            sign = -sign
        elif isinstance(p, ast.Call) and n in p.args and isinstance(p.func, ast.Attribute) and p.func.attr.lstrip("_").startswith("minus"):
            sign = -sign
        elif isinstance(p, ast.AugAssign) and isinstance(p.op, ast.Sub) and p.value is n:
            sign = -sign
        if isinstance(p, ast.stmt):
            break
        n = p
    return sign


SIGN_TABLE = [
    # (function, attribute read that carries the offset, expected sign, meaning)
    ("Instant._plus", "offset.nanoseconds", +1, "instant -> local adds the offset"),
    ("Instant._safe_plus", "offset.nanoseconds", +1, "instant -> local adds the offset"),
    ("_LocalInstant._minus", "offset.nanoseconds", -1, "local -> instant subtracts the offset"),
    ("_LocalInstant._safe_minus", "offset.nanoseconds", -1, "local -> instant subtracts the offset"),
    ("OffsetDateTime._ctor", "offset.nanoseconds", +1, "instant + offset = local"),
    ("OffsetDateTime.__to_elapsed_time_since_epoch", "_offset_nanoseconds", -1, "local - offset = instant"),
    ("OffsetDateTime.with_offset", "offset.nanoseconds", +1, "new local = old local + new offset - old offset"),
    ("OffsetDateTime.with_offset", "_offset_nanoseconds", -1, "new local = old local + new offset - old offset"),
    ("Duration._plus_small_nanoseconds", "small_nanos", +1, "helper adds"),
    ("Duration._minus_small_nanoseconds", "small_nanos", -1, "helper subtracts"),
]


@rule("C11")
def r11_4_sign_discipline(ctx: Ctx) -> RuleResult:
    rr = RuleResult("R11.4", "instant -> local adds the offset, local -> instant subtracts it, at every conversion site", min_instances=10)
    for q, attr, want, why in SIGN_TABLE:
        f = ctx.M.func(q)
        uses = []
        for n in ast.walk(f.node):
            txt = unparse(n) if isinstance(n, (ast.Attribute, ast.Name)) else ""
            if txt.endswith(attr) and isinstance(getattr(n, "ctx", None), ast.Load):
                par = getattr(n, "_parent", None)
                if isinstance(par, ast.Attribute):
                    continue  # a longer chain (e.g. offset.nanoseconds.bit_length) - not the quantity itself
                if isinstance(par, ast.Compare) or (isinstance(par, ast.Call) and unparse(par.func).endswith("_check_argument_range")):
                    continue  # guards do not count
                uses.append(n)
        rr.inst()
        if not uses:
            rr.fail(q, f"no arithmetic use of `{attr}` found (expected: {why})", ctx.loc(f))
            continue
        signs = {_sign_of_use(u, f.node) for u in uses}
        if signs == {want}:
            rr.ok({"fn": q, "quantity": attr, "sign": "+" if want > 0 else "-", "uses": len(uses)})
        else:
            rr.fail(q, f"`{attr}` enters the result with sign {sorted(signs)} but {why} (expected {'+' if want > 0 else '-'})", ctx.loc(f, uses[0]))
    return rr


@rule("C11")
def r11_3_packed_layout(ctx: Ctx) -> RuleResult:
    rr = RuleResult("R11.3", "OffsetTime packs nanosecond-of-day | offset_seconds << BITS; mask = 2^BITS-1 covers a day; every decoder uses the same shift/mask", min_instances=6)
    M = ctx.M
    c = M.cls("OffsetTime")
    BITS = M.fold_class_const("OffsetTime", mangle("OffsetTime", "__NANOSECONDS_BITS"))
    MASK = M.fold_class_const("OffsetTime", mangle("OffsetTime", "__NANOSECONDS_MASK"))
    NPD = M.fold_class_const("PyodaConstants", "NANOSECONDS_PER_DAY")
    if not all(isinstance(x, int) for x in (BITS, MASK, NPD)):
        raise AnalysisError("OffsetTime layout constants not foldable")
    rr.inst()
    if MASK == (1 << BITS) - 1 and (1 << BITS) > NPD - 1:
        rr.ok({"bits": BITS, "mask": MASK, "covers": NPD - 1})
    else:
        rr.fail("OffsetTime", f"mask {MASK} / bits {BITS} do not form a field wide enough for a nanosecond-of-day (< {NPD})", c.mod.rel)
    field = mangle("OffsetTime", "__nanoseconds_and_offset")
    # encoders
    for f in c.all_defs:
        for n in ast.walk(f.node):
            if isinstance(n, ast.Assign) and isinstance(n.targets[0], ast.Attribute) and mangle("OffsetTime", n.targets[0].attr) == field:
                rr.inst()
                v = n.value
                ok = False
                if isinstance(v, ast.Call):
                    from ..kit import inline_simple_call

                    v = inline_simple_call(ctx.R, v, f) or v  # packing moved into a one-line helper
                if isinstance(v, ast.BinOp) and isinstance(v.op, ast.BitOr):
                    for lo, hi in ((v.left, v.right), (v.right, v.left)):
                        if isinstance(hi, ast.BinOp) and isinstance(hi.op, ast.LShift) and M.fold(hi.right, c, c.mod) == BITS and not isinstance(lo, ast.BinOp):
                            ok = "nano" in unparse(lo) and "offset" in unparse(hi.left)
                elif isinstance(v, ast.Name) and "zero_offset" in v.id:
                    ok = True  # offset 0: the packed value is the nanosecond-of-day itself
                if ok:
                    rr.ok({"encoder": f.qual, "expr": unparse(v)})
                else:
                    rr.fail(f.qual, f"packs `{unparse(v)}`: not nanosecond_of_day | offset_seconds << {BITS}", ctx.loc(f, n))
    # decoders
    spec = {"nanosecond_of_day": ("and", MASK), "_offset_seconds": ("shr", BITS), "_offset_nanoseconds": ("shr", BITS)}
    for name, (kind, k) in spec.items():
        f = M.find_method(c, name)
        if f is None:
            raise AnalysisError(f"OffsetTime.{name} missing")
        rr.inst()
        good = False
        for n in ast.walk(f.node):
            if isinstance(n, ast.BinOp) and isinstance(n.left, ast.Attribute) and mangle("OffsetTime", n.left.attr) == field:
                if kind == "and" and isinstance(n.op, ast.BitAnd) and M.fold(n.right, c, c.mod) == k:
                    good = True
                if kind == "shr" and isinstance(n.op, ast.RShift) and M.fold(n.right, c, c.mod) == k:
                    good = True
        if good:
            rr.ok({"decoder": f.qual, "op": kind, "const": k})
        else:
            rr.fail(f.qual, f"does not decode the packed field with {'& ' + str(k) if kind == 'and' else '>> ' + str(k)}", ctx.loc(f))
    return rr


@rule("C11")
def r11_5_zoned_offset_rederived(ctx: Ctx) -> RuleResult:
    """A zoned value built from an instant gets its offset from the zone for that very instant; an offset read from an existing
    value is only ever combined with that value's own instant; subtraction of two values goes through to_instant()."""
    from ..terms import Store, TermEval, show, sym

    rr = RuleResult("R11.5", "zoned values re-derive the offset from the zone for the same instant; value - value subtracts instants", min_instances=4)
    M = ctx.M
    # (a) ZonedDateTime.__init__: both instant arms pass offset = zone.get_utc_offset(instant)
    f = M.func("ZonedDateTime.__init__")
    n_sites = 0
    for n in ast.walk(f.node):
        if isinstance(n, ast.Call) and unparse(n.func).endswith("OffsetDateTime._ctor"):
            kw = {k.arg: k.value for k in n.keywords}
            if "instant" in kw:
                n_sites += 1
                rr.inst()
                o = kw.get("offset")
                good = isinstance(o, ast.Call) and isinstance(o.func, ast.Attribute) and o.func.attr == "get_utc_offset" and unparse(o.func.value) == "zone" and [unparse(a) for a in o.args] == [unparse(kw["instant"])]
                if good:
                    rr.ok({"site": unparse(n)[:100]})
                else:
                    rr.fail(f.qual, f"offset for the instant is `{unparse(o) if o is not None else None}`, not zone.get_utc_offset({unparse(kw['instant'])})", ctx.loc(f, n))
    if n_sites < 2:
        raise AnalysisError("ZonedDateTime.__init__: instant construction arms not found")
    # (b) inside ZonedDateTime / OffsetDateTime arithmetic, `self.offset` may only accompany `self.to_instant()` shifted results through a
    #     constructor that re-derives (ZonedDateTime(...)) - never a trusted ZonedDateTime._ctor with a moved instant
    zc = M.cls("ZonedDateTime")
    for g in zc.all_defs:
        for n in ast.walk(g.node):
            if isinstance(n, ast.Call) and unparse(n.func).endswith("ZonedDateTime._ctor"):
                rr.inst()
                txt = unparse(n)
                if "self.offset" in txt or "self._ZonedDateTime__offset_date_time.offset" in txt:
                    rr.fail(g.qual, f"builds a zoned value through the trusted constructor re-using this value's offset: `{txt[:120]}` (the offset must be re-derived from the zone for the new instant)", ctx.loc(g, n))
                else:
                    rr.ok({"site": txt[:100]})
    for q in ("ZonedDateTime.__add__",):
        g = M.func(q)
        rr.inst()
        outs = TermEval(M, ctx.R, g, inline_depth=0).run(Store({p.arg: sym(p.arg) for p in g.value_params}))
        good = False
        for ret, _ in outs:
            if ret is not None and ret[0] == "call" and ret[1].endswith("ZonedDateTime.__init__"):
                kw = dict(ret[3])
                if kw.get("zone") is not None and "zone" in show(kw["zone"]) and kw.get("instant") is not None and "to_instant" in show(kw["instant"]):
                    good = True
        if good:
            rr.ok({"fn": q, "via": "ZonedDateTime(instant=..., zone=self.zone, ...) (offset re-derived)"})
        else:
            rr.fail(q, f"result is not rebuilt through ZonedDateTime(instant=<moved instant>, zone=self.zone, ...): {[show(o[0]) for o in outs if o[0] is not None][:2]}", ctx.loc(g))
    # (c) OffsetDateTime - OffsetDateTime
    g = M.func("OffsetDateTime.__sub__")
    rr.inst()
    found = False
    for n in ast.walk(g.node):
        if isinstance(n, ast.BinOp) and isinstance(n.op, ast.Sub) and unparse(n.left) == "self.to_instant()" and unparse(n.right).endswith(".to_instant()"):
            found = True
    if found:
        rr.ok({"fn": g.qual, "difference": "self.to_instant() - other.to_instant()"})
    else:
        rr.fail(g.qual, "value - value is not computed as the difference of the two instants", ctx.loc(g))
    return rr


@rule("C11")
def r11_6_zoned_clock(ctx: Ctx) -> RuleResult:
    from .c19 import r19_4_zoned_and_system_clock

    r = r19_4_zoned_and_system_clock(ctx)
    r.rule = "R11.6"
    for f in r.findings:
        f.rule = "R11.6"
    return r


@rule("C11")
def r11_7_calendar_free_productions(ctx: Ctx) -> RuleResult:
    from ..retention import check_calendar_free_productions

    rr = RuleResult("R11.9", "conversions between local, offset and zoned values keep the calendar: no result is rebuilt from an instant or local instant alone while a calendar-bearing value is in hand", min_instances=100)
    check_calendar_free_productions(ctx, rr)
    return rr


@rule("C11")
def r11_8_zero_offset_conversions(ctx: Ctx) -> RuleResult:
    """`_minus_zero_offset` / `_plus_zero_offset` convert between the local and the global time line pretending the offset is zero.
    That is legitimate only as a first guess where no offset is known (the zone mapping probes); in a function that is handed an
    offset for the value it converts, it ignores that offset."""
    rr = RuleResult("R11.8", "zero-offset local<->instant conversions occur only where no offset is in hand (zone-mapping guesses)", min_instances=3)
    for f in sorted(ctx.M.funcs.values(), key=lambda x: x.qual):
        if isinstance(f.node, ast.Lambda):
            continue
        sites = [n for n in own_nodes(f.node) if isinstance(n, ast.Call) and isinstance(n.func, ast.Attribute) and n.func.attr in ("_minus_zero_offset", "_plus_zero_offset")]
        if not sites:
            continue
        offs = [p.arg for p in f.value_params if p.annotation is not None and re.search(r"\bOffset\b", unparse(p.annotation))]
        own = f.cls is not None and f.self_name is not None and ctx.M.find_method(f.cls, "offset") is not None and f.cls.name not in ("DateTimeZone",)
        for s in sites:
            rr.inst()
            if offs or own:
                rr.fail(f.qual, f"`{unparse(s)[:70]}` converts with a zero offset although an offset is in hand ({', '.join(offs) or 'self.offset'}): the instant is off by that offset", ctx.loc(f, s))
            else:
                rr.ok({"fn": f.qual, "site": unparse(s)[:60], "why": "no offset parameter: a deliberate first guess, corrected by the neighbouring-interval probes (R05.x)"})
    return rr


@rule("C11")
def r11_11_calendar_identity(ctx: Ctx) -> RuleResult:
    """Two calendar systems are the same calendar only if they are the same object / have the same id: `name` is shared by all
    variants of a family (the eight Hijri calendars are all "Hijri", both Hebrew numberings "Hebrew", the three Persian
    calendars "Persian").  No code decides "same calendar" on `.name`."""
    rr = RuleResult("R11.11", "calendar systems are compared by identity / equality / id, never by name", min_instances=1)
    R = ctx.R
    n_cmp = 0
    for f in sorted(set(ctx.M.func_of_node.values()), key=lambda x: x.qual):
        if isinstance(f.node, ast.Lambda) or "_compatibility" in f.mod.rel:
            continue
        sc = None
        for n in own_nodes(f.node):
            if not (isinstance(n, ast.Compare) and len(n.ops) == 1 and isinstance(n.ops[0], (ast.Eq, ast.NotEq, ast.Is, ast.IsNot))):
                continue
            sides = [n.left, n.comparators[0]]
            sc = sc or R.scope(f)

            def cal(e: ast.expr) -> bool:
                try:
                    return R.type_of(e, sc) == "CalendarSystem"
                except Exception:  # noqa: BLE001
                    return False

            if all(cal(s) for s in sides):
                n_cmp += 1
                rr.inst()
                rr.ok()
            elif all(isinstance(s, ast.Attribute) and s.attr == "name" and cal(s.value) for s in sides):
                rr.inst()
                rr.fail(f.qual, f"`{unparse(n)}` decides on the calendars' names, which all variants of a family share: different calendars (Hijri civil / astronomical, Hebrew civil / scriptural) are taken for the same one", ctx.loc(f, n))
    if n_cmp == 0:
        raise AnalysisError("no calendar comparison found in the package (type resolution broken?)")
    return rr


@rule("C11")
def r11_12_calendar_conversion_goes_through_the_day_number(ctx: Ctx) -> RuleResult:
    """`with_calendar` keeps the physical day and changes the calendar: two calendar systems share year / month / day numbers only
    if they are the same system, so the only sound conversion is via the day number (`days_since_epoch=`), or a delegation to the
    `with_calendar` of a component.  A return that re-tags the packed year/month/day with the new calendar's ordinal (a "same
    rules" shortcut) moves the date: Hebrew civil and scriptural share a calculator class and differ by months, the Hijri
    variants by a day."""
    rr = RuleResult("R11.12", "with_calendar converts through the day number or delegates to a component's with_calendar on every returning path (never re-tags the year/month/day fields)", min_instances=5)
    M = ctx.M
    for f in sorted(set(M.func_of_node.values()), key=lambda x: x.qual):
        if isinstance(f.node, ast.Lambda) or f.cls is None or f.name != "with_calendar" or "/_compatibility/" in f.mod.rel:
            continue
        rr.inst()
        assigned = {}
        for n in own_nodes(f.node):
            if isinstance(n, (ast.Assign, ast.AnnAssign)) and getattr(n, "value", None) is not None:
                for t in [n.target] if isinstance(n, ast.AnnAssign) else n.targets:
                    if isinstance(t, ast.Name):
                        assigned.setdefault(t.id, []).append(n.value)
        bad = None
        n_ret = 0
        for n in own_nodes(f.node):
            if not (isinstance(n, ast.Return) and n.value is not None):
                continue
            n_ret += 1
            texts = [unparse(n.value)]
            for x in ast.walk(n.value):
                if isinstance(x, ast.Name) and x.id in assigned:
                    texts += [unparse(v) for v in assigned[x.id]]
            t = " ".join(texts)
            if "_with_calendar_ordinal" in t or ("year_month_day" in t and "days_since_epoch" not in t and ".with_calendar(" not in t):
                bad = bad or (n, "re-tags the year / month / day fields with the new calendar")
            elif "days_since_epoch" not in t and ".with_calendar(" not in t and "self" != t.strip():
                bad = bad or (n, "neither passes the day number nor delegates to a component's with_calendar")
        if bad is not None:
            rr.fail(f.qual, f"`{unparse(bad[0])[:100]}` {bad[1]}: the same field numbers denote another day in another calendar system, so the value (and the instant of an OffsetDateTime built on it) moves", ctx.loc(f, bad[0]))
        elif n_ret == 0:
            rr.fail(f.qual, "no returning path found", ctx.loc(f))
        else:
            rr.ok({"fn": f.qual, "returns": n_ret})
    return rr
