"""C11 - Offset and zoned date-times keep instant, local time, offset, calendar in step (structural clauses)."""
from __future__ import annotations

import ast

from ..core import Ctx, RuleResult, rule
from ..model import UNKNOWN, AnalysisError, mangle, unparse
from ..oblig import decide, global_sweep, select


@rule("C11")
def r11_2_day_carry(ctx: Ctx) -> RuleResult:
    rr = RuleResult("R11.2", "every OffsetTime construction receives a nanosecond-of-day in [0, 24h) and offset seconds within +/-18h (carries suffice)", min_instances=8)
    groups = select(global_sweep(ctx), ["OffsetTime._ctor("])
    rr.states = ctx.cache.get("sweep_steps", 0)
    decide(rr, groups, "R11.2", {})
    return rr


@rule("C11")
def r11_1_calendar_retention(ctx: Ctx) -> RuleResult:
    from ..retention import check_retention

    from ..core import anchor_files

    rr = RuleResult("R11.1", "derived values keep the calendar: no call drops an optional `calendar` while one is in scope", min_instances=10)
    files = anchor_files("C11")
    check_retention(ctx, rr, lambda f: f.mod.rel in files)
    return rr


@rule("C11")
def r11_7_units(ctx: Ctx) -> RuleResult:
    from ..dims import units_rule

    return units_rule(ctx, "R11.7", "C11", 40)
