"""C01 - Every calendar maps day numbers to valid dates one-to-one and in order (structural / finite-domain clauses)."""
from __future__ import annotations

import ast
import itertools

from ..absint import AV, INF, TOPINT, Iv, Obj, State
from ..calendars import calculator_instances
from ..core import Ctx, RuleResult, rule
from ..kit import own_nodes, stores_in
from ..model import UNKNOWN, AnalysisError, mangle, unparse
from ..oblig import interp

SYMBOLIC_YEAR = Iv(-INF, INF, False)


def _const(v: AV) -> int | None:
    return int(v.lo) if isinstance(v, Iv) and v.const and v.bounded else None


# ------------------------------------------------------------------------------------------- R01.5 year kinds


def year_kinds(ctx: Ctx, cname: str) -> list[tuple[str, dict]]:
    """Finite 'year kinds' of a calculator class: (label, stubs) where the stubs replace the year-dependent predicates/data."""
    M = ctx.M
    b = lambda x: Iv(int(x), int(x))  # noqa: E731
    if cname in ("_GregorianYearMonthDayCalculator", "_JulianYearMonthDayCalculator", "_CopticYearMonthDayCalculator", "_IslamicYearMonthDayCalculator",
                 "_PersianSimpleYearMonthDayCalculator", "_PersianArithmeticYearMonthDayCalculator", "_PersianAstronomicalYearMonthDayCalculator"):
        return [(f"leap={leap}", {"*._is_leap_year": (lambda a, k, r, leap=leap: b(leap)), "*.__is_gregorian_leap_year": (lambda a, k, r, leap=leap: b(leap))}) for leap in (False, True)]
    if cname == "_BadiYearMonthDayCalculator":
        return [(f"ayyam-i-ha={n}", {"*._get_days_in_ayyami_ha": (lambda a, k, r, n=n: b(n))}) for n in (4, 5)]
    if cname == "_HebrewYearMonthDayCalculator":
        hc = M.cls("_HebrewScripturalCalculator")
        HL = M.fold_class_const(hc.name, mangle(hc.name, "__IS_HESHVAN_LONG_CACHE_BIT"))
        KS = M.fold_class_const(hc.name, mangle(hc.name, "__IS_KISLEV_SHORT_CACHE_BIT"))
        if not isinstance(HL, int) or not isinstance(KS, int):
            raise AnalysisError("Hebrew cache flag bits not foldable")
        kinds = []
        for leap in (False, True):
            for (hl, ks, extra) in ((False, True, -1), (False, False, 0), (True, False, 1)):
                length = (384 if leap else 354) + extra
                cache = (HL if hl else 0) | (KS if ks else 0)
                kinds.append((f"leap={leap},heshvan_long={hl},kislev_short={ks},length={length}", {
                    "*._is_leap_year": (lambda a, k, r, leap=leap: b(leap)),
                    "*.__get_or_populate_cache": (lambda a, k, r, cache=cache: b(cache)),
                    "*._days_in_year": (lambda a, k, r, length=length: b(length)),
                }))
        return kinds
    if cname == "_UmAlQuraYearMonthDayCalculator":
        return [("month bits symbolic", {})]
    raise AnalysisError(f"no year-kind model for calculator {cname}")


def _call_method(ctx: Ctx, cls, name: str, self_obj: Obj, params: dict, stubs: dict):
    f = ctx.M.find_method(cls, name)
    if f is None:
        raise AnalysisError(f"{cls.name}.{name} missing")
    I = interp(ctx)
    I.max_depth = 8
    I.max_nodes = 5000
    I.stubs = stubs
    rets, falls = I.analyse(f, self_obj=self_obj, params=params)
    return I, rets


@rule("C01")
def r01_5_per_year_consistency(ctx: Ctx) -> RuleResult:
    """For every calculator and every finite year kind (the year itself stays symbolic) and EVERY day-of-year d of that kind:
    the month/day split lies inside the reported tables and days_to_start_of_month(month) + day == d (so the split and its inverse
    agree, are one-to-one and increasing within a year), and the month lengths add up to the year length."""
    rr = RuleResult("R01.5", "within a year: day-of-year <-> (month, day) is a bijection inside the reported month tables, for every calculator and year kind", min_instances=20)
    M = ctx.M
    done = set()
    for ci in calculator_instances(ctx):
        key = ci.label if ci.cls == "_HebrewYearMonthDayCalculator" else ci.cls
        if key in done:
            continue
        done.add(key)
        cls = M.cls(ci.cls)
        for label, stubs0 in year_kinds(ctx, ci.cls):
            rr.inst()
            where = f"{key}[{label}]"
            got_box: list = []

            def ymd_ctor(a, k, r, got_box=got_box):
                # summary of the packing constructor: remember the components (the packed layout itself is decided by R01.1)
                if "month" in k:
                    got_box.append((k.get("month"), k.get("day")))
                    return Obj("_YearMonthDay", {"_year": k.get("year"), "_month": k.get("month"), "_day": k.get("day")})
                return Obj("_YearMonthDay")

            stubs = dict(stubs0)
            stubs["_YearMonthDay._ctor"] = ymd_ctor
            so = Obj(ci.cls, dict(ci.obj.fields))
            _, r = _call_method(ctx, cls, "_get_days_in_year", so, {"year": SYMBOLIC_YEAR}, stubs)
            diy = _const(r[0][0]) if len(r) >= 1 and all(x[0] == r[0][0] for x in r) else None
            _, r = _call_method(ctx, cls, "_get_months_in_year", so, {"year": SYMBOLIC_YEAR}, stubs)
            miy = _const(r[0][0]) if r else None
            symbolic = ci.cls == "_UmAlQuraYearMonthDayCalculator"
            if symbolic:
                diy = 354  # ranges only; both 354 and 355 day years share the code path
            if diy is None or miy is None:
                rr.fail(where, f"year length / month count not constant for this year kind (days_in_year={r}, months={miy})", "")
                continue
            # month tables
            lens, starts = {}, {}
            bad = None
            for m in range(1, miy + 1):
                _, r1 = _call_method(ctx, cls, "_get_days_in_month", so, {"year": SYMBOLIC_YEAR, "month": Iv(m, m)}, stubs)
                _, r2 = _call_method(ctx, cls, "_get_days_from_start_of_year_to_start_of_month", so, {"year": SYMBOLIC_YEAR, "month": Iv(m, m)}, stubs)
                lens[m] = r1[0][0] if r1 else None
                starts[m] = r2[0][0] if r2 else None
            rr.states += 2 * miy
            if not symbolic:
                lc = {m: _const(v) for m, v in lens.items()}
                sc = {m: _const(v) for m, v in starts.items()}
                if any(v is None for v in lc.values()) or any(v is None for v in sc.values()):
                    rr.fail(where, f"month tables are not constant for this year kind: lengths {lens}, starts {starts}", "")
                    continue
                if sum(lc.values()) != diy:
                    bad = f"month lengths {list(lc.values())} add up to {sum(lc.values())}, the year has {diy} days"
                # civil order of months for calendars whose month 1 is not the first (Hebrew scriptural numbering): order by start
                order = sorted(lc, key=lambda m: sc[m])
                acc = 0
                for m in order:
                    if bad is None and sc[m] != acc:
                        bad = f"month {m} starts at day offset {sc[m]} but the preceding months have {acc} days"
                    acc += lc[m]
            # every day of the year
            if bad is None:
                seen_pairs = set()
                for d in range(1, diy + 1):
                    I = interp(ctx)
                    I.max_depth = 8
                    I.max_nodes = 5000
                    I.stubs = stubs
                    f = M.find_method(cls, "_get_year_month_day_from_year_and_day_of_year")
                    pn = [p.arg for p in f.value_params]
                    got_box.clear()
                    rets, _ = I.analyse(f, self_obj=so, params={pn[0]: SYMBOLIC_YEAR, pn[1]: Iv(d, d)})
                    rr.states += 1
                    objs = [v for v, _ in rets if isinstance(v, Obj) and "_month" in v.fields]
                    if symbolic:
                        if not objs:
                            bad = f"day-of-year {d}: no date returned"
                            break
                        for o in objs:
                            mth, day = o.fields["_month"], o.fields["_day"]
                            if not (isinstance(mth, Iv) and mth.within(1, miy) and isinstance(day, Iv) and day.within(1, 30)):
                                bad = f"day-of-year {d}: month {mth} / day {day} not proved inside [1, {miy}] / [1, 30]"
                        if bad:
                            break
                        continue
                    if len(objs) != 1 and not (objs and all(o == objs[0] for o in objs)):
                        bad = f"day-of-year {d}: {len(objs)} different dates returned (raise_log {I.raise_log[:1]})"
                        break
                    mth, day = objs[0].fields["_month"], objs[0].fields["_day"]
                    m_, d_ = _const(mth), _const(day)
                    if m_ is None or d_ is None:
                        bad = f"day-of-year {d}: month {mth} / day {day} not constant for this year kind"
                        break
                    if not (1 <= m_ <= miy):
                        bad = f"day-of-year {d} -> month {m_}, outside [1, {miy}]"
                        break
                    if not (1 <= d_ <= lc[m_]):
                        bad = f"day-of-year {d} -> month {m_} day {d_}, but that month has {lc[m_]} days"
                        break
                    if sc[m_] + d_ != d:
                        bad = f"day-of-year {d} -> ({m_}, {d_}) but days_to_start_of_month({m_}) + {d_} = {sc[m_] + d_}: the two directions disagree"
                        break
                    seen_pairs.add((m_, d_))
                if bad is None and not symbolic and len(seen_pairs) != diy:
                    bad = f"{diy} days map to {len(seen_pairs)} distinct (month, day) pairs"
            if bad:
                rr.fail(where, bad, ctx.loc(M.find_method(cls, "_get_year_month_day_from_year_and_day_of_year")))
            else:
                rr.ok({"calculator": ci.cls, "kind": label, "days": diy, "months": miy})
    return rr


@rule("C01")
def r01_5b_hebrew_year_flags(ctx: Ctx) -> RuleResult:
    """The Hebrew cache entry derives (Heshvan long, Kislev short) from the year length; for each of the six possible lengths the
    derived flags must be the ones under which the month lengths add up to that length."""
    rr = RuleResult("R01.5b", "Hebrew year-kind flags derived from the year length are the ones consistent with the month lengths", min_instances=6)
    M = ctx.M
    hc = M.cls("_HebrewScripturalCalculator")
    f = M.find_method(hc, mangle(hc.name, "__compute_cache_entry"))
    if f is None:
        raise AnalysisError("_HebrewScripturalCalculator.__compute_cache_entry missing")
    HL = M.fold_class_const(hc.name, mangle(hc.name, "__IS_HESHVAN_LONG_CACHE_BIT"))
    KS = M.fold_class_const(hc.name, mangle(hc.name, "__IS_KISLEV_SHORT_CACHE_BIT"))
    SH = M.fold_class_const(hc.name, mangle(hc.name, "__ELAPSED_DAYS_CACHE_SHIFT"))
    Y = 5000
    for length, (hl, ks) in {353: (False, True), 354: (False, False), 355: (True, False), 383: (False, True), 384: (False, False), 385: (True, False)}.items():
        rr.inst()
        I = interp(ctx)
        I.max_depth = 3
        base = 1000000
        I.stubs = {
            "*.__elapsed_days_no_cache": (lambda a, k, r, length=length: Iv(base, base) if _const(a[0]) == Y else Iv(base + length, base + length)),
            "*._is_valid_for_year": (lambda a, k, r: Iv(0, 0)),
        }
        rets, _ = I.analyse(f, params={"year": Iv(Y, Y)})
        rr.states += 1
        vals = {_const(v) for v, _ in rets}
        if len(vals) != 1 or None in vals:
            rr.fail(f.qual, f"year length {length}: cache entry not constant under abstract evaluation: {[v for v, _ in rets]}", ctx.loc(f))
            continue
        v = vals.pop()
        got = (bool(v & HL), bool(v & KS), v >> SH)
        if got == (hl, ks, base):
            rr.ok({"year_length": length, "heshvan_long": hl, "kislev_short": ks})
        else:
            rr.fail(f.qual, f"year of {length} days: derives heshvan_long={got[0]}, kislev_short={got[1]}, elapsed={got[2] - base:+d}; the month lengths add up to {length} only with heshvan_long={hl}, kislev_short={ks}", ctx.loc(f))
    return rr


@rule("C01")
def r01_3_validation_matches_tables(ctx: Ctx) -> RuleResult:
    """What the constructors' validator accepts is exactly what the calendar reports: for every calculator, year kind and month the
    accepted days are 1..days_in_month (probed just inside / outside), months 1..months_in_year, and years min_year..max_year."""
    rr = RuleResult("R01.3", "year/month/day validation accepts exactly the advertised years, the reported months and the reported days of each month", min_instances=20)
    M = ctx.M
    done = set()
    for ci in calculator_instances(ctx):
        key = ci.cls
        if key in done:
            continue
        done.add(key)
        cls = M.cls(ci.cls)
        so = Obj(ci.cls, dict(ci.obj.fields))
        vf = M.find_method(cls, "_validate_year_month_day")

        def accepts(year: AV, month: int, day: int, stubs: dict) -> bool | None:
            I = interp(ctx)
            I.max_depth = 8
            I.max_nodes = 5000
            I.stubs = stubs
            rets, falls = I.analyse(vf, self_obj=so, params={"year": year, "month": Iv(month, month), "day": Iv(day, day)})
            rr.states += 1
            return bool(rets or falls)

        for label, stubs in year_kinds(ctx, ci.cls):
            if ci.cls == "_UmAlQuraYearMonthDayCalculator":
                continue  # month lengths are per-year data; the generic validator reads the same table as _get_days_in_month
            rr.inst()
            _, r = _call_method(ctx, cls, "_get_months_in_year", so, {"year": SYMBOLIC_YEAR}, stubs)
            miy = _const(r[0][0]) if r else None
            if miy is None:
                rr.fail(f"{ci.cls}[{label}]", "month count not constant for this year kind", "")
                continue
            yr = Iv(ci.min_year, ci.max_year, False)  # any advertised year
            bad = None
            for m in range(1, miy + 1):
                _, r1 = _call_method(ctx, cls, "_get_days_in_month", so, {"year": SYMBOLIC_YEAR, "month": Iv(m, m)}, stubs)
                dim = _const(r1[0][0]) if r1 else None
                if dim is None:
                    bad = f"month {m}: length not constant"
                    break
                for d, want in ((0, False), (1, True), (dim, True), (dim + 1, False)):
                    if accepts(yr, m, d, stubs) != want:
                        bad = f"month {m} has {dim} days but day {d} is {'rejected' if want else 'accepted'} by the validator"
                        break
                if bad:
                    break
            if bad is None:
                for m, want in ((0, False), (miy + 1, False)):
                    if accepts(yr, m, 1, stubs) != want:
                        bad = f"month {m} is accepted although the year has months 1..{miy}"
            if bad:
                rr.fail(f"{ci.cls}[{label}]", bad, ctx.loc(vf))
            else:
                rr.ok({"calculator": ci.cls, "kind": label, "months": miy})
        # advertised year range
        rr.inst()
        kinds = year_kinds(ctx, ci.cls)
        stubs = kinds[0][1]
        res = {y: accepts(Iv(y, y), 1, 1, stubs) for y in (ci.min_year - 1, ci.min_year, ci.max_year, ci.max_year + 1)}
        want = {ci.min_year - 1: False, ci.min_year: True, ci.max_year: True, ci.max_year + 1: False}
        if res == want:
            rr.ok({"calculator": ci.cls, "years": [ci.min_year, ci.max_year]})
        else:
            wrong = [y for y in want if res[y] != want[y]]
            rr.fail(ci.cls, f"advertised years are [{ci.min_year}, {ci.max_year}] but the validator {'accepts' if res[wrong[0]] else 'rejects'} year {wrong[0]}", ctx.loc(vf))
    return rr


@rule("C01")
def r01_3b_badi_table_readers(ctx: Ctx) -> RuleResult:
    """The two readers of the Badi year table must switch to the table at the same year and index it identically, and the index
    must stay inside the folded table for every year the calculator can be asked about."""
    rr = RuleResult("R01.3b", "sibling readers of the Badi year table agree on the first tabulated year and the index; the index stays inside the table", min_instances=2)
    M = ctx.M
    c = M.cls("_BadiYearMonthDayCalculator")
    readers = [M.find_method(c, "_get_days_in_ayyami_ha"), M.find_method(c, mangle(c.name, "__get_naw_ruz_day_in_march"))]
    if any(r is None for r in readers):
        raise AnalysisError("Badi table readers missing")
    shapes = []
    for f in readers:
        test = idx = None
        for n in own_nodes(f.node):
            if isinstance(n, ast.If) and "FIRST_YEAR_OF_STANDARDIZED_CALENDAR" in unparse(n.test):
                test = unparse(n.test)
            if isinstance(n, ast.Subscript) and "year_info_raw" in unparse(n.value):
                idx = unparse(n.slice)
        shapes.append((f.qual, test, idx))
    rr.inst()
    if shapes[0][1:] == shapes[1][1:] and shapes[0][1] is not None and shapes[0][2] is not None:
        rr.ok({"switch": shapes[0][1], "index": shapes[0][2]})
    else:
        rr.fail(c.qual, f"table readers disagree: {shapes[0][0]} uses ({shapes[0][1]}, [{shapes[0][2]}]) but {shapes[1][0]} uses ({shapes[1][1]}, [{shapes[1][2]}]): the year length and the year start come from different rows", c.mod.rel)
    tbl = M.fold_class_const(c.name, "year_info_raw")
    rr.inst()
    if not isinstance(tbl, (bytes, list, tuple)):
        rr.fail(c.qual, "year_info_raw not foldable", c.mod.rel)
    else:
        bad = None
        for f in readers:
            I = interp(ctx)
            I.analyse(f, params={"year": SYMBOLIC_YEAR})
            oob = [m for _, m in I.raise_log if "outside folded table" in m]
            # index interval on the table path
            seen = []
            orig = I.ev

            def ev(e, st, fn, depth, seen=seen, orig=orig):
                if isinstance(e, ast.Subscript) and "year_info_raw" in unparse(e.value) and depth == 0:
                    seen.append(orig(e.slice, st, fn, depth))
                return orig(e, st, fn, depth)

            I2 = interp(ctx)
            I2.ev = ev.__get__(I2) if False else I2.ev  # keep simple: evaluate index directly below
            I3 = interp(ctx)
            idxs = []
            o3 = I3.ev

            def ev3(e, st, fn, depth, idxs=idxs, o3=o3):
                if isinstance(e, ast.Subscript) and "year_info_raw" in unparse(e.value):
                    idxs.append(o3(e.slice, st, fn, depth))
                return o3(e, st, fn, depth)

            I3.ev = ev3  # type: ignore[method-assign]
            I3.analyse(f, params={"year": SYMBOLIC_YEAR})
            for v in idxs:
                if not (isinstance(v, Iv) and v.lo >= 0 and v.hi <= len(tbl) - 1):
                    bad = f"{f.qual}: table index {v} not proved inside [0, {len(tbl) - 1}]"
        if bad:
            rr.fail(c.qual, bad, c.mod.rel)
        else:
            rr.ok({"table_rows": len(tbl)})
    return rr


# ------------------------------------------------------------------------------------------- R01.4 definite initialisation


def _self_field_stores(f) -> set[str]:
    out = set()
    cn = f.cls.name if f.cls else None
    for s in stores_in(f):
        parts = s.target.split(".")
        if len(parts) == 2 and parts[0] == "self" and s.kind == "attr":
            out.add(parts[1])
    return out


@rule("C01")
def r01_4_definite_initialisation(ctx: Ctx) -> RuleResult:
    """An alternate constructor that creates the instance with super().__new__(cls) bypasses __init__: every field that a
    bypassed base-class __init__ assigns and that is read somewhere in the package must be assigned by the alternate constructor."""
    rr = RuleResult("R01.4", "alternate constructors assign every field of bypassed base-class initialisers that the package reads", min_instances=15)
    M = ctx.M
    # all attribute reads in the package, by attribute name
    reads: dict[str, list] = {}
    for f in M.funcs.values():
        if isinstance(f.node, ast.Lambda) or "_compatibility" in f.mod.rel:
            continue
        for n in own_nodes(f.node):
            if isinstance(n, ast.Attribute) and isinstance(n.ctx, ast.Load):
                reads.setdefault(mangle(M.mangling_class(n), n.attr), []).append(f)
    for c in sorted(M.all_classes(), key=lambda k: k.qual):
        if "_compatibility" in c.mod.rel or "/text/" in c.mod.rel:
            continue
        for f in c.all_defs:
            if isinstance(f.node, ast.Lambda) or f.kind != "classmethod":
                continue
            creates = any(isinstance(n, ast.Assign) and isinstance(n.targets[0], ast.Name) and n.targets[0].id == "self" and isinstance(n.value, ast.Call)
                          and isinstance(n.value.func, ast.Attribute) and n.value.func.attr == "__new__" for n in own_nodes(f.node))
            if not creates:
                continue
            rr.inst()
            assigned = _self_field_stores(f)
            calls_init = {unparse(n.func) for n in own_nodes(f.node) if isinstance(n, ast.Call) and isinstance(n.func, ast.Attribute) and n.func.attr == "__init__"}
            missing = []
            for k in M.mro(c):
                init = k.methods.get("__init__")
                if init is None or isinstance(init.node, ast.Lambda):
                    continue
                if k is c:
                    continue  # the class's own __init__ is an alternative, not a base initialiser
                if any(k.name in ci or ci.startswith("super(") or ci.startswith("super()") for ci in calls_init):
                    continue
                for fld in sorted(_self_field_stores(init)):
                    if fld in assigned:
                        continue
                    rd = [g for g in reads.get(fld, []) if g is not init]
                    if rd:
                        missing.append((k.name, fld, rd[0].qual))
            if missing:
                k, fld, reader = missing[0]
                rr.fail(f.qual, f"creates the instance with __new__ and never assigns `{fld}`, which {k}.__init__ sets and {reader} reads: the read raises AttributeError", ctx.loc(f))
            else:
                rr.ok({"ctor": f.qual, "assigned": sorted(assigned)[:6]})
    return rr


# ------------------------------------------------------------------------------------------- R01.6 table extents / advertised edges


@rule("C01")
def r01_6_table_edges(ctx: Ctx) -> RuleResult:
    """Table-driven calendars: every index used for years min_year-1 .. max_year+1 lies inside the folded table, and at the two
    advertised edges the year starts differ by the year length (so the advertised min/max day numbers are right)."""
    rr = RuleResult("R01.6", "table-driven calendars: indices stay inside the folded tables for the whole year span; year starts at the advertised edges are consistent with year lengths", min_instances=4)
    M = ctx.M
    c = M.cls("_UmAlQuraYearMonthDayCalculator")
    T = getattr(M, "_tables", {}).get(c.name, {})
    ys, yl, ml = (T.get(mangle(c.name, n)) for n in ("__YEAR_START_DAYS", "__YEAR_LENGTHS", "__MONTH_LENGTHS"))
    mn, mx = M.fold_class_const(c.name, mangle(c.name, "__COMPUTED_MIN_YEAR")), M.fold_class_const(c.name, mangle(c.name, "__COMPUTED_MAX_YEAR"))
    if not (isinstance(ys, dict) and isinstance(yl, dict) and isinstance(ml, dict) and isinstance(mn, int) and isinstance(mx, int)):
        raise AnalysisError("Um Al Qura tables could not be folded")
    for name, tbl in (("__YEAR_START_DAYS", ys), ("__YEAR_LENGTHS", yl), ("__MONTH_LENGTHS", ml)):
        rr.inst()
        # the accessors index with  year - MIN + 1  for year in [min-1, max+1]
        need = range(0, mx - mn + 3)
        missing = [i for i in need if i not in tbl]
        if missing:
            rr.fail(c.qual, f"{name}: index {missing[0]} (year {missing[0] + mn - 1}) is needed for the span [{mn - 1}, {mx + 1}] but the folded table has keys {min(tbl)}..{max(tbl)}", c.mod.rel)
        else:
            rr.ok({"table": name, "keys": [min(tbl), max(tbl)], "needed": [need[0], need[-1]]})
    idx = lambda y: y - mn + 1  # noqa: E731
    for label, y in (("maximum", mx), ("minimum", mn)):
        rr.inst()
        a, b, ln = ys[idx(y)], ys[idx(y + 1)], yl[idx(y)]
        if b - a == ln:
            rr.ok({"edge": label, "year": y, "start": a, "next_start": b, "length": ln})
        else:
            rr.fail(c.qual, f"at the advertised {label} year {y}: start({y + 1}) - start({y}) = {b - a} but the year has {ln} days: the advertised {'last' if label == 'maximum' else 'first'} day number is off by {b - a - ln}", c.mod.rel,
                    start=a, next_start=b, year_length=ln)
    # the accessor index expression is year - COMPUTED_MIN_YEAR + 1 in every reader
    for fname in ("_get_start_of_year_in_days", "_get_days_in_year", "_get_days_in_month", "_get_days_from_start_of_year_to_start_of_month", "_is_leap_year", "_get_year_month_day_from_year_and_day_of_year"):
        f = M.find_method(c, fname)
        if f is None:
            continue
        for n in own_nodes(f.node):
            if isinstance(n, ast.Subscript) and isinstance(n.value, ast.Attribute) and n.value.attr.lstrip("_") in ("YEAR_START_DAYS", "YEAR_LENGTHS", "MONTH_LENGTHS"):
                rr.inst()
                if unparse(n.slice).replace(" ", "") == "year-self.__COMPUTED_MIN_YEAR+1":
                    rr.ok()
                else:
                    rr.fail(f.qual, f"table index `{unparse(n.slice)}` differs from the layout year - COMPUTED_MIN_YEAR + 1 used by the static initialiser", ctx.loc(f, n))
    return rr


# ------------------------------------------------------------------------------------------- R01.1 bit layout / R01.2 registry


def _or_terms(e: ast.expr) -> list[ast.expr]:
    if isinstance(e, ast.BinOp) and isinstance(e.op, ast.BitOr):
        return _or_terms(e.left) + _or_terms(e.right)
    return [e]


def encoder_fields(ctx: Ctx, e: ast.expr, cls, mod) -> list[tuple[str, int]] | None:
    out = []
    for t in _or_terms(e):
        if isinstance(t, ast.BinOp) and isinstance(t.op, ast.LShift):
            s = ctx.M.fold(t.right, cls, mod)
            if not isinstance(s, int):
                return None
            out.append((unparse(t.left), s))
        else:
            out.append((unparse(t), 0))
    return out


@rule("C01")
def r01_1_bit_layout(ctx: Ctx) -> RuleResult:
    rr = RuleResult("R01.1", "packed year/month/day(/calendar): field widths hold every calendar's values, masks tile the word, encoders and decoders use the same shifts", min_instances=10)
    M = ctx.M
    yc = M.cls("_YearMonthDayCalendar")
    K = lambda n: M.fold_class_const(yc.name, n if not n.startswith("__") else mangle(yc.name, n))  # noqa: E731
    CB, DB, MB, YB = K("_CALENDAR_BITS"), K("_DAY_BITS"), K("_MONTH_BITS"), K("_YEAR_BITS")
    cm, dm, mm, ym = K("__CALENDAR_MASK"), K("__DAY_MASK"), K("__MONTH_MASK"), K("__YEAR_MASK")
    if not all(isinstance(x, int) for x in (CB, DB, MB, YB, cm, dm, mm, ym)):
        raise AnalysisError("_YearMonthDayCalendar layout constants not foldable")
    rr.inst()
    total = CB + DB + MB + YB
    want = [((1 << CB) - 1), ((1 << DB) - 1) << CB, ((1 << MB) - 1) << (CB + DB), ((1 << YB) - 1) << (CB + DB + MB)]
    if [cm, dm, mm, ym] == want and (cm | dm | mm | ym) == (1 << total) - 1 and total == 32:
        rr.ok({"bits": [CB, DB, MB, YB], "total": total})
    else:
        rr.fail(yc.qual, f"masks {[hex(x) for x in (cm, dm, mm, ym)]} do not tile a 32-bit word as calendar|day|month|year with widths {[CB, DB, MB, YB]}", yc.mod.rel)
    # capacity against every calculator (month/day maxima from the same abstract evaluation as R01.5)
    insts = calculator_instances(ctx)
    max_ord = max(v for v in (M.fold(x, M.cls("_CalendarOrdinal"), None) for n, x in M.cls("_CalendarOrdinal").assigns.items() if n != "SIZE") if isinstance(v, int))
    rr.inst()
    if (1 << CB) > max_ord:
        rr.ok({"calendar_bits": CB, "max_ordinal": max_ord})
    else:
        rr.fail(yc.qual, f"{CB} calendar bits cannot hold ordinal {max_ord}", yc.mod.rel)
    lo_year, hi_year = min(c.min_year for c in insts), max(c.max_year for c in insts)
    rr.inst()
    if -(1 << (YB - 1)) <= lo_year - 1 and hi_year - 1 <= (1 << (YB - 1)) - 1:
        rr.ok({"year_bits": YB, "years": [lo_year, hi_year]})
    else:
        rr.fail(yc.qual, f"signed {YB}-bit year field cannot hold year-1 for years [{lo_year}, {hi_year}]", yc.mod.rel)
    max_months, max_days = 0, 0
    done = set()
    for ci in insts:
        if ci.cls in done:
            continue
        done.add(ci.cls)
        cls = M.cls(ci.cls)
        so = Obj(ci.cls, dict(ci.obj.fields))
        for label, stubs in year_kinds(ctx, ci.cls):
            _, r = _call_method(ctx, cls, "_get_months_in_year", so, {"year": SYMBOLIC_YEAR}, stubs)
            miy = _const(r[0][0]) if r else None
            if miy is None:
                continue
            max_months = max(max_months, miy)
            for m in range(1, miy + 1):
                _, r1 = _call_method(ctx, cls, "_get_days_in_month", so, {"year": SYMBOLIC_YEAR, "month": Iv(m, m)}, stubs)
                for v, _ in r1:
                    if isinstance(v, Iv) and v.bounded:
                        max_days = max(max_days, int(v.hi))
    rr.inst()
    if max_months and max_months <= (1 << MB) and max_days and max_days <= (1 << DB):
        rr.ok({"month_bits": MB, "max_months": max_months, "day_bits": DB, "max_day": max_days})
    else:
        rr.fail(yc.qual, f"month/day fields ({MB}/{DB} bits) cannot hold month {max_months} / day {max_days}", yc.mod.rel)
    # encoders vs decoders
    ctor = M.find_method(yc, "_ctor")
    enc = None
    from ..kit import inline_locals

    for n in own_nodes(ctor.node):
        if isinstance(n, ast.Assign) and unparse(n.targets[0]).endswith("__value"):
            val = inline_locals(ctor.node, n.value)  # temporaries for the shifted fields are part of the expression
            if len(_or_terms(val)) == 4:
                enc = encoder_fields(ctx, val, yc, yc.mod)
    rr.inst()
    if enc is None:
        rr.fail(ctor.qual, "four-field packing expression not found", ctx.loc(ctor))
    else:
        want_enc = [("year - 1", CB + DB + MB), ("month - 1", CB + DB), ("day - 1", CB), ("int(calendar_ordinal)", 0)]
        if enc == want_enc:
            rr.ok({"encoder": enc})
        else:
            rr.fail(ctor.qual, f"packs {enc}, layout requires {want_enc}", ctx.loc(ctor))
    dec_spec = {"_year": (ym, CB + DB + MB), "_month": (mm, CB + DB), "_day": (dm, CB), "_calendar_ordinal": (cm, 0)}
    for name, (mask, shift) in dec_spec.items():
        f = M.find_method(yc, name)
        rr.inst()
        masks = [M.fold(n.right, yc, yc.mod) for n in ast.walk(f.node) if isinstance(n, ast.BinOp) and isinstance(n.op, ast.BitAnd)]
        shifts = [M.fold(n.right, yc, yc.mod) for n in ast.walk(f.node) if isinstance(n, ast.BinOp) and isinstance(n.op, ast.RShift)]
        plus1 = name == "_calendar_ordinal" or any(isinstance(n, ast.BinOp) and isinstance(n.op, ast.Add) and isinstance(n.right, ast.Constant) and n.right.value == 1 for n in ast.walk(f.node))
        if masks == [mask] and shifts == ([shift] if shift else []) and plus1:
            rr.ok({"decoder": f.qual, "mask": hex(mask), "shift": shift})
        else:
            rr.fail(f.qual, f"decodes with masks {masks} shifts {shifts}; layout requires mask {hex(mask)} shift {shift} and the +1 bias", ctx.loc(f))
    # _YearMonthDay (same day/month widths, no calendar)
    yd = M.cls("_YearMonthDay")
    ctor = M.find_method(yd, "_ctor")
    enc = None
    for n in own_nodes(ctor.node):
        if isinstance(n, ast.Assign) and unparse(n.targets[0]).endswith("__value") and len(_or_terms(n.value)) == 3:
            enc = encoder_fields(ctx, n.value, yd, yd.mod)
    rr.inst()
    want_enc = [("year - 1", DB + MB), ("month - 1", DB), ("day - 1", 0)]
    if enc == want_enc:
        rr.ok({"encoder": enc})
    else:
        rr.fail(ctor.qual, f"packs {enc}, layout requires {want_enc}", ctx.loc(ctor))
    dmask, mmask = M.fold_class_const(yd.name, mangle(yd.name, "__DAY_MASK")), M.fold_class_const(yd.name, mangle(yd.name, "__MONTH_MASK"))
    for name, (mask, shift) in {"_year": (None, DB + MB), "_month": (((1 << MB) - 1) << DB, DB), "_day": ((1 << DB) - 1, 0)}.items():
        f = M.find_method(yd, name)
        rr.inst()
        masks = [M.fold(n.right, yd, yd.mod) for n in ast.walk(f.node) if isinstance(n, ast.BinOp) and isinstance(n.op, ast.BitAnd)]
        shifts = [M.fold(n.right, yd, yd.mod) for n in ast.walk(f.node) if isinstance(n, ast.BinOp) and isinstance(n.op, ast.RShift)]
        if masks == ([mask] if mask is not None else []) and shifts == ([shift] if shift else []):
            rr.ok({"decoder": f.qual, "mask": hex(mask) if mask else None, "shift": shift})
        else:
            rr.fail(f.qual, f"decodes with masks {masks} shifts {shifts}; layout requires mask {hex(mask) if mask else None} shift {shift}", ctx.loc(f))
    # conversions between the two packings shift by the calendar width
    for q, needle in (("_YearMonthDayCalendar._to_year_month_day", ">> self._CALENDAR_BITS"), ("_YearMonthDayCalendar._ctor", "year_month_day << cls._CALENDAR_BITS | int(calendar_ordinal)")):
        f = M.func(q)
        rr.inst()
        if needle in unparse(f.node):
            rr.ok({"conversion": q})
        else:
            rr.fail(q, f"conversion between the packings does not use `{needle}`", ctx.loc(f))
    return rr


@rule("C01")
def r01_2_registry(ctx: Ctx) -> RuleResult:
    rr = RuleResult("R01.2", "every calendar ordinal has exactly one id and one registry arm that builds it with that ordinal and id", min_instances=19)
    M = ctx.M
    cs = M.cls("CalendarSystem")
    co = M.cls("_CalendarOrdinal")
    ordinals = [n for n in co.assigns if n != "SIZE"]
    idmap = cs.assigns.get(mangle(cs.name, "__ID_ORDINAL_MAP"))
    if not isinstance(idmap, ast.Dict):
        raise AnalysisError("__ID_ORDINAL_MAP is not a dict literal")
    by_ord: dict[str, list[str]] = {}
    for k, v in zip(idmap.keys, idmap.values):
        by_ord.setdefault(unparse(v).split(".")[-1], []).append(unparse(k))
    f = M.func("CalendarSystem._for_ordinal_uncached")
    arms: dict[str, str] = {}
    for m in own_nodes(f.node):
        if isinstance(m, ast.Match):
            for c in m.cases:
                if isinstance(c.pattern, ast.MatchValue):
                    arms[unparse(c.pattern.value).split(".")[-1]] = unparse(ast.Module(body=c.body, type_ignores=[]))
    for o in ordinals:
        rr.inst()
        probs = []
        if len(by_ord.get(o, [])) != 1:
            probs.append(f"has {len(by_ord.get(o, []))} ids in the id map")
        arm = arms.get(o)
        if arm is None:
            probs.append("has no arm in _for_ordinal_uncached")
        else:
            direct = "__ctor(ordinal=ordinal" in arm
            if direct:
                idk = by_ord.get(o, ["?"])[0]
                if f"id_=cls.{idk}" not in arm and f"id_={idk}" not in arm:
                    probs.append(f"arm builds the calendar with another id than {idk}")
            elif "get_hebrew_calendar(HebrewMonthNumbering." in arm:
                if not arm.strip().endswith(("CIVIL)", "SCRIPTURAL)")) or o.split("_")[-1] not in arm:
                    probs.append("Hebrew arm passes a different month numbering than its ordinal")
            elif "get_islamic_calendar(" in arm:
                parts = o.split("_", 2)  # ISLAMIC, CIVIL|ASTRONOMICAL, PATTERN
                if f"IslamicEpoch.{parts[1]}" not in arm or f"IslamicLeapYearPattern.{parts[2]}" not in arm:
                    probs.append("Islamic arm passes a different epoch/pattern than its ordinal")
            else:
                probs.append("arm does not construct through __ctor or the Hebrew/Islamic factories")
        if probs:
            rr.fail(f"CalendarSystem[{o}]", "; ".join(probs), ctx.loc(f))
        else:
            rr.ok({"ordinal": o, "id": by_ord[o][0]})
    # Hebrew / Islamic factories map their arguments to the ordinal of the same name
    g = M.func("CalendarSystem.get_islamic_calendar")
    for m in own_nodes(g.node):
        if isinstance(m, ast.Match):
            for c in m.cases:
                if isinstance(c.pattern, ast.MatchSequence) and len(c.pattern.patterns) == 2:
                    rr.inst()
                    ep, pat = (unparse(p.value).split(".")[-1] for p in c.pattern.patterns)
                    tgt = unparse(c.body[0]).split(".")[-1]
                    if tgt == f"ISLAMIC_{ep}_{pat}":
                        rr.ok({"islamic": f"({ep}, {pat}) -> {tgt}"})
                    else:
                        rr.fail(g.qual, f"(epoch {ep}, pattern {pat}) is registered under ordinal {tgt}: two distinct calendars share a registry slot and the one returned depends on creation order", ctx.loc(g, c.body[0]))
    h = M.func("CalendarSystem.get_hebrew_calendar")
    for m in own_nodes(h.node):
        if isinstance(m, ast.Match):
            for c in m.cases:
                if isinstance(c.pattern, ast.MatchValue):
                    rr.inst()
                    num = unparse(c.pattern.value).split(".")[-1]
                    if f"ordinal=_CalendarOrdinal.HEBREW_{num}" in unparse(c.body[0]) and f"__HEBREW_{num}_ID" in unparse(c.body[0]):
                        rr.ok({"hebrew": num})
                    else:
                        rr.fail(h.qual, f"month numbering {num} is not registered under HEBREW_{num} with its own id", ctx.loc(h, c.body[0]))
    return rr


@rule("C01")
def r01_3c_day_number_guard(ctx: Ctx) -> RuleResult:
    rr = RuleResult("R01.3c", "day numbers are range-checked against the advertised [min_days, max_days] before conversion; the advertised bounds are the starts of min_year and max_year+1", min_instances=3)
    M = ctx.M
    f = M.func("CalendarSystem._get_year_month_day_calendar_from_days_since_epoch")
    rr.inst()
    first = f.body[0]
    if isinstance(first, ast.Expr) and unparse(first.value) == "_Preconditions._check_argument_range('days_since_epoch', days_since_epoch, self._min_days, self._max_days)":
        rr.ok({"guard": unparse(first.value)})
    else:
        rr.fail(f.qual, "the day number is not range-checked against (_min_days, _max_days) first", ctx.loc(f))
    c = M.func("CalendarSystem.__ctor")
    txt = unparse(c.node).replace("_CalendarSystem", "")
    rr.inst()
    if "self.__min_days = year_month_day_calculator._get_start_of_year_in_days(self.min_year)" in txt and "self.__max_days = year_month_day_calculator._get_start_of_year_in_days(self.max_year + 1) - 1" in txt:
        rr.ok({"min_days": "start(min_year)", "max_days": "start(max_year + 1) - 1"})
    else:
        rr.fail(c.qual, "advertised day range is not [start(min_year), start(max_year + 1) - 1]", ctx.loc(c))
    g = M.func("_GregorianYearMonthDayCalculator._get_gregorian_year_month_day_calendar_from_days_since_epoch")
    rr.inst()
    first = g.body[0] if not isinstance(g.body[0], (ast.Import, ast.ImportFrom)) else [s for s in g.body if not isinstance(s, (ast.Import, ast.ImportFrom))][0]
    ok = isinstance(first, ast.If) and "days_since_epoch < cls.__FIRST_OPTIMIZED_DAY or days_since_epoch > cls.__LAST_OPTIMIZED_DAY" in unparse(first.test).replace("_GregorianYearMonthDayCalculator", "") \
        and "CalendarSystem.iso._get_year_month_day_calendar_from_days_since_epoch(days_since_epoch)" in unparse(first)
    if ok:
        rr.ok({"optimised_path": "delegates to the guarded path outside [FIRST_OPTIMIZED_DAY, LAST_OPTIMIZED_DAY]"})
    else:
        rr.fail(g.qual, "outside the optimised day range the decoder does not delegate to the range-checked path", ctx.loc(g))
    return rr


@rule("C01")
def r01_7_era_bounds(ctx: Ctx) -> RuleResult:
    """Gregorian/Julian era calculator: the advertised maximum year-of-era of each era is the year-of-era of the calendar's
    first / last year, so every (era, year-of-era) the calendar reports converts back."""
    from ..absint import Iv, Obj
    from ..oblig import interp as mk

    rr = RuleResult("R01.7", "GJ era calculator: max year-of-era of BC/AD equals the year-of-era of the calendar's minimum / maximum year (reported era values convert back at the edges)", min_instances=4)
    M = ctx.M
    gj = M.cls("_GJEraCalculator")
    init = M.find_method(gj, "__init__")
    yoe = M.find_method(gj, "_get_year_of_era")
    if init is None or yoe is None:
        raise AnalysisError("_GJEraCalculator.__init__ / _get_year_of_era missing")
    for mn, mx in ((-9998, 9999), (-9997, 9998), (-5, 7)):
        I = mk(ctx)
        calc = Obj("_YearMonthDayCalculator", {mangle("_YearMonthDayCalculator", "__min_year"): Iv(mn, mn), mangle("_YearMonthDayCalculator", "__max_year"): Iv(mx, mx)})
        rets, falls = I.analyse(init, params={"ymd_calculator": calc})
        objs = [I._materialize("self", s.get("self"), s) for s in falls if isinstance(s.get("self"), Obj)]
        if len(objs) != 1:
            raise AnalysisError("_GJEraCalculator.__init__ could not be evaluated")
        so = objs[0]
        got_bc = so.fields.get(mangle("_GJEraCalculator", "__max_year_of_bc"))
        got_ad = so.fields.get(mangle("_GJEraCalculator", "__max_year_of_ad"))
        for label, got, y in (("BC", got_bc, mn), ("AD", got_ad, mx)):
            rr.inst()
            rr.states += 1
            I2 = mk(ctx)
            r2, _ = I2.analyse(yoe, self_obj=so, params={"absolute_year": Iv(y, y)})
            want = r2[0][0] if len(r2) == 1 else None
            if isinstance(got, Iv) and isinstance(want, Iv) and got.const and want.const and got.lo == want.lo:
                rr.ok({"calendar_years": [mn, mx], "era": label, "max_year_of_era": int(got.lo)})
            else:
                rr.fail(gj.qual, f"for a calendar spanning years [{mn}, {mx}] the maximum year of era {label} is {got}, but year {y} is reported as year-of-era {want}: that year cannot be converted back from its own (era, year-of-era)", init.loc)
    return rr


# shared with C12: the calendar's own ordering of year/month/day triples must agree with the day-number order the conversions
# produce (monotonicity of the date <-> day-number maps needs it); one rule, reported under its home id R12.1b
# (cross-registration moved to sa/rules/shared.py: SHARED)

# (cross-registration moved to sa/rules/shared.py: SHARED)

# shared with C02: a fast path or table builder that decides leap years by its own arithmetic maps day numbers to dates that the
# calculator proper rejects (home id R02.5)
# (cross-registration moved to sa/rules/shared.py: SHARED)

# (cross-registration moved to sa/rules/shared.py: SHARED)


@rule("C01")
def r01_cfp_calendar_free_productions(ctx: Ctx) -> RuleResult:
    from ..retention import check_calendar_free_productions

    rr = RuleResult("R01.cfp", "day number -> date conversions keep the calendar asked for: no calendar-bearing result (packed year/month/day/calendar included) is produced from calendar-free inputs while a calendar is in hand", min_instances=100)
    check_calendar_free_productions(ctx, rr)
    return rr


@rule("C01")
def r01_8_year_estimate_domain(ctx: Ctx) -> RuleResult:
    """day number -> year starts from the estimate  candidate = trunc((day - start_of_year_1) * 10 / average_days_per_10_years) + 1
    and then asks `_get_start_of_year_in_days(candidate)`, which is only defined on [min_year - 1, max_year + 1] (cache entries,
    fixed tables of the Persian and Um Al Qura calculators).  For every calculator instance the estimate is computed for the first
    and the last day of the calendar (the expression is monotonic in the day) from the instance's own constants; both must fall
    inside that domain.  The first / last day come from abstract evaluation of the year-start function, or - for the calculators
    whose year starts are table driven - from the published leap rule (which R02.2 proves equal to the code's predicate)."""
    from ..absint import Iv, Obj
    from ..calendars import calculator_instances
    from ..oblig import interp
    from .c02 import _leap_spec

    rr = RuleResult("R01.8", "the year estimate of the day-number -> date conversion stays inside the domain of the year-start function for the first and last day of every calendar", min_instances=12)
    M = ctx.M

    def tz(a: int, b: int) -> int:
        q = abs(a) // abs(b)
        return q if (a < 0) == (b < 0) else -q

    base = M.cls("_YearMonthDayCalculator")
    gy = M.find_method(base, "_get_year")
    est = next((n.value for n in own_nodes(gy.node) if isinstance(n, ast.Assign) and isinstance(n.targets[0], ast.Name) and n.targets[0].id == "candidate"), None)
    if est is None or "average_days_per_10_years" not in unparse(est) or "+ 1" not in unparse(est):
        raise AnalysisError("_get_year: the estimate `candidate = trunc(days_since_year_1 * 10 / average) + 1` not found")
    for ci in calculator_instances(ctx):
        c = M.cls(ci.cls)
        if M.find_method(c, "_get_year") is not gy:
            continue  # own conversion (Gregorian fast path etc.)
        fl = ci.obj.fields
        avg, d1 = fl.get(mangle("_YearMonthDayCalculator", "__average_days_per_10_years")), fl.get(mangle("_YearMonthDayCalculator", "__days_at_start_of_year_1"))
        if not (isinstance(avg, Iv) and avg.const and isinstance(d1, Iv) and d1.const):
            rr.undecided.append(f"{ci.label}: constructor constants not exact")
            continue
        a, s1 = int(avg.lo), int(d1.lo)
        f = M.find_method(c, "_get_start_of_year_in_days")
        ends = []
        for y in (ci.min_year, ci.max_year + 1):
            I = interp(ctx)
            I.max_depth = 8
            rets, _ = I.analyse(f, self_obj=Obj(ci.cls, dict(fl)), params={f.value_params[0].arg: Iv(y, y)})
            v = {int(x.lo) for x, _ in rets if isinstance(x, Iv) and x.const}
            ends.append(next(iter(v)) if len(v) == 1 else None)
        how = "year starts evaluated"
        if None in ends:
            spec = _leap_spec(ctx, ci)
            common = {"_PersianSimpleYearMonthDayCalculator": 365, "_PersianArithmeticYearMonthDayCalculator": 365}.get(ci.cls)
            if spec is None or common is None or ci.min_year != 1:
                rr.undecided.append(f"{ci.label}: first / last day not available to the analysis (table-driven year starts)")
                continue
            want = spec[0]
            total = sum(common + (1 if want(y) else 0) for y in range(1, ci.max_year + 1))
            ends = [s1, s1 + total]
            how = "last day from the published leap rule (R02.2)"
        rr.inst()
        lo_day, hi_day = ends[0], ends[1] - 1
        c_lo, c_hi = tz((lo_day - s1) * 10, a) + 1, tz((hi_day - s1) * 10, a) + 1
        if ci.min_year - 1 <= c_lo and c_hi <= ci.max_year + 1:
            rr.ok({"calculator": ci.label, "estimate range": [c_lo, c_hi], "domain": [ci.min_year - 1, ci.max_year + 1], "how": how})
        else:
            rr.fail(ci.label, f"year estimate ranges over [{c_lo}, {c_hi}] on the calendar's days but the year-start function is only defined on [{ci.min_year - 1}, {ci.max_year + 1}] (average days per 10 years = {a}): in-range day numbers index past the year-start table / cache domain", ctx.loc(gy))
    return rr

# shared: the year-start caches (home R13.1) and the Hebrew year starts (home R02.7) feed every day-number conversion
# (cross-registration moved to sa/rules/shared.py: SHARED)
# (cross-registration moved to sa/rules/shared.py: SHARED)

# (cross-registration moved to sa/rules/shared.py: SHARED)
# (cross-registration moved to sa/rules/shared.py: SHARED)
# (cross-registration moved to sa/rules/shared.py: SHARED)


@rule("C01")
def r01_9_badi_year_lengths(ctx: Ctx) -> RuleResult:
    """Badi calendar: a year starts at Naw-Ruz (a day of March of the Gregorian year, from the year table) and has 19 x 19 days plus
    4 or 5 days of Ayyam-i-Ha (from the same table).  The day-number <-> date maps are inverse of each other only if the two agree:
    for every year y, start(y + 1) - start(y) == 361 + ayyam_i_ha(y).  Both table readers are evaluated by the abstract interpreter
    for every year 1..999 (exact integers); the Gregorian date arithmetic between two 20-22 March dates is done by the checker
    (proleptic Gregorian day numbers).  Years where the two disagree map a run of day numbers onto dates whose day number is one
    larger (the dates of the following year's first days are hit twice, the last Ayyam-i-Ha day never)."""
    import datetime

    from ..absint import Iv
    from ..oblig import interp

    rr = RuleResult("R01.9", "Badi: for every year the distance between consecutive Naw-Ruz dates equals the year length given by the Ayyam-i-Ha table", min_instances=900)
    M = ctx.M
    c = M.cls("_BadiYearMonthDayCalculator")
    fa = M.find_method(c, "_get_days_in_ayyami_ha")
    fn = next((g for g in c.all_defs if g.name.endswith("get_naw_ruz_day_in_march")), None)
    g0 = M.fold_class_const(c.name, mangle(c.name, "__GREGORIAN_YEAR_OF_FIRST_BADI_YEAR"))
    if fa is None or fn is None or not isinstance(g0, int):
        raise AnalysisError("Badi table readers / Gregorian base year not found")
    start = M.find_method(c, "_calculate_start_of_year_days")
    if "__GREGORIAN_YEAR_OF_FIRST_BADI_YEAR - 1" not in unparse(start.node) or "month=3" not in unparse(start.node):
        raise AnalysisError("Badi year start is no longer `LocalDate(first Gregorian year + year - 1, March, naw_ruz_day)`")

    def ev(f, y: int) -> int | None:
        I = interp(ctx)
        I.max_depth = 6
        rets, _ = I.analyse(f, params={f.value_params[0].arg: Iv(y, y)})
        vals = {int(v.lo) for v, _ in rets if isinstance(v, Iv) and v.const}
        return next(iter(vals)) if len(vals) == 1 else None

    first_std = M.fold_class_const(c.name, mangle(c.name, "__FIRST_YEAR_OF_STANDARDIZED_CALENDAR"))
    # the pre-standardisation arm asks the ISO calculator whether a Gregorian year is leap: the year it asks about is evaluated from
    # the code (locals inlined), whatever the expression looks like; the predicate itself is proved by R02.2
    from ..absint import State
    from ..kit import inline_locals

    leap_calls = [n for n in own_nodes(fa.node) if isinstance(n, ast.Call) and isinstance(n.func, ast.Attribute) and n.func.attr == "_is_leap_year" and len(n.args) == 1]
    pre_std_by_gregorian_leap = isinstance(first_std, int) and len(leap_calls) == 1 and "iso" in unparse(leap_calls[0].func)
    leap_arg = inline_locals(fa.node, leap_calls[0].args[0]) if pre_std_by_gregorian_leap else None

    def asked_year(y: int) -> int | None:
        v = interp(ctx).ev(leap_arg, State({fa.value_params[0].arg: Iv(y, y)}), fa, 0)
        return int(v.lo) if isinstance(v, Iv) and v.const else None
    nr = {y: ev(fn, y) for y in range(1, 1001)}
    for y in range(1, 1000):
        rr.inst(nontrivial=False)
        a = ev(fa, y)
        if a is None and pre_std_by_gregorian_leap and y < first_std:
            gy = asked_year(y)  # the pre-standardisation arm: 5 days iff the Gregorian year asked about is leap
            a = None if gy is None else 5 if (gy % 4 == 0 and (gy % 100 != 0 or gy % 400 == 0)) else 4
        rr.states += 2
        if a is None or nr[y] is None or nr[y + 1] is None:
            rr.fail(c.qual, f"year {y}: table readers not evaluable", ctx.loc(fa))
            continue
        by_dates = (datetime.date(g0 + y, 3, nr[y + 1]) - datetime.date(g0 + y - 1, 3, nr[y])).days
        if by_dates == 361 + a:
            rr.ok()
        else:
            rr.fail(c.qual, f"Badi year {y}: Naw-Ruz {g0 + y - 1}-03-{nr[y]} to {g0 + y}-03-{nr[y + 1]} is {by_dates} days but the year has 361 + {a} = {361 + a} days by the Ayyam-i-Ha table", ctx.loc(fa))
    return rr


@rule("C01")
def r01_10_year_starts_vs_year_lengths(ctx: Ctx) -> RuleResult:
    """start(y + 1) - start(y) == days_in_year(y): the two functions the day-number -> date and date -> day-number conversions rest
    on must agree year by year, or a run of day numbers has no date / two dates.  Both are evaluated by the abstract interpreter on
    exact years for every calculator instance whose year starts are computable that way (closed forms and folded tables: the
    tabular Islamic variants, Julian, Gregorian, Coptic, Um Al Qura); quick tier: the first and last 3 years and every 997th year
    in between, thorough tier: the first and last 40 years and every 13th year (13 is coprime to every cycle length in use).  (Hebrew is covered by R02.7 + R01.5, Badi by R01.9; the Persian calculators' year-start
    tables are built in __init__ from the same leap predicate that gives the year length.)"""
    from ..absint import Iv, Obj
    from ..calendars import calculator_instances
    from ..oblig import interp

    rr = RuleResult("R01.10", "year starts and year lengths agree (start(y+1) - start(y) == days_in_year(y)) on the years evaluated, per calculator instance", min_instances=10)
    M = ctx.M
    for ci in calculator_instances(ctx):
        c = M.cls(ci.cls)
        fs, fl = M.find_method(c, "_get_start_of_year_in_days"), M.find_method(c, "_get_days_in_year")

        def ev(f, y: int) -> int | None:
            I = interp(ctx)
            I.max_depth = 8
            rets, _ = I.analyse(f, self_obj=Obj(ci.cls, dict(ci.obj.fields)), params={f.value_params[0].arg: Iv(y, y)})
            vals = {int(v.lo) for v, _ in rets if isinstance(v, Iv) and v.const}
            return next(iter(vals)) if len(vals) == 1 and len(rets) >= 1 else None

        if ev(fs, ci.min_year) is None or ev(fs, ci.max_year) is None or ev(fl, ci.min_year) is None:
            rr.undecided.append(f"{ci.label}: year starts / lengths not evaluable on exact years (table built at run time)")
            continue
        lo, hi = ci.min_year, ci.max_year
        years = sorted(set(range(lo, min(lo + 40, hi))) | set(range(max(hi - 40, lo), hi + 1)) | set(range(lo, hi, 13))) if ctx.tier != "quick" else sorted(set(range(lo, min(lo + 3, hi))) | set(range(max(hi - 3, lo), hi + 1)) | set(range(lo, hi, 997)))
        # the year before the first one as well: the week-year rules (and arithmetic at the boundary) ask about it, and the
        # calculators "cope with years outside the normal range"; it counts only where both functions evaluate
        years = [lo - 1] + list(years)
        rr.inst()
        bad = None
        n = 0
        skipped = 0
        for y in years:
            a, b, d = ev(fs, y), ev(fs, y + 1), ev(fl, y)
            rr.states += 3
            n += 1
            if a is None or b is None or d is None:
                skipped += 1  # e.g. inside the Gregorian calculator's precomputed 1900-2100 table: not an exact value for the analysis
                continue
            if b - a != d:
                bad = (y, f"start({y + 1}) - start({y}) = {b - a} but days_in_year({y}) = {d}")
                break
        if bad is None:
            rr.ok({"calculator": ci.label, "years_evaluated": n - skipped, "years_not_evaluable": skipped})
        else:
            rr.fail(ci.label, f"year {bad[0]}: {bad[1]}", ctx.loc(fs))
    return rr


@rule("C01")
def r01_11_trusted_packings(ctx: Ctx) -> RuleResult:
    """`_YearMonthDayCalendar._ctor(year=, month=, day=, ...)` packs a date without looking at it.  Outside the text layer (whose
    packings are decided by R08.6) every such site must justify its day: a literal, a dominating `_validate_*` call on the same
    year / month / day, or a dominating bound `... <= <calculator>.get_days_in_month(year, month)` on the very expression that is
    packed.  "No month is shorter than 28 days" is not a fact of this library (Coptic month 13 has 5-6 days, Badi months 19)."""
    from ..exc import facts_at
    from ..kit import inline_locals

    rr = RuleResult("R01.11", "every trusted year/month/day packing outside the text layer packs a literal day, a validated day, or a day bounded by the month's length", min_instances=4)
    for f in sorted(set(ctx.M.func_of_node.values()), key=lambda x: x.qual):
        if isinstance(f.node, ast.Lambda) or "/text/" in f.mod.rel or "/calendars/" in f.mod.rel or "_compatibility" in f.mod.rel or f.mod.rel.endswith("_year_month_day_calendar.py"):
            continue  # calculators derive the day from a day number (decided by R01.5); the text layer is decided by R08.6
        for c in own_nodes(f.node):
            if not (isinstance(c, ast.Call) and unparse(c.func) == "_YearMonthDayCalendar._ctor"):
                continue
            kw = {k.arg: k.value for k in c.keywords}
            if "day" not in kw:
                continue
            rr.inst()
            day = kw["day"]
            d_txt = unparse(day)
            if isinstance(day, ast.Constant):
                rr.ok({"site": f.qual, "day": "literal"})
                continue
            # dominating validation call in the same function (earlier statement on the way to the packing)
            validated = False
            for n in own_nodes(f.node):
                if isinstance(n, ast.Call) and isinstance(n.func, ast.Attribute) and "validate" in n.func.attr and getattr(n, "lineno", 0) < c.lineno:
                    args = {unparse(a) for a in n.args} | {unparse(k.value) for k in n.keywords}
                    if d_txt in args:
                        validated = True
            if validated:
                rr.ok({"site": f.qual, "day": "validated by a preceding _validate call"})
                continue
            bounded = False
            for a, op, b in facts_at(c):
                if a == d_txt and op in ("<=", "<") and "get_days_in_month" in b:
                    bounded = True
                if op == "<=" and b.endswith(f"<= {d_txt}"):
                    pass
            # chained form  1 <= d <= get_days_in_month(...)
            bounded = bounded or any(b == d_txt and op in (">=", ">") and "get_days_in_month" in a for a, op, b in facts_at(c))
            if bounded:
                rr.ok({"site": f.qual, "day": "bounded by the month length"})
            else:
                rr.fail(f.qual, f"packs day `{d_txt}` without validation or a days-in-month bound: in calendars with short months (Coptic month 13, Badi) a non-existent date is built", ctx.loc(f, c))
    return rr


# ------------------------------------------------------------------------------------------- R01.13 generic conversion vs hooks


@rule("C01")
def r01_13_days_since_epoch_uses_hooks(ctx: Ctx) -> RuleResult:
    """date -> day number: for every calculator, year kind and month, `_get_days_since_epoch((y, m, d))` evaluates to
    start_of_year(y) + days_from_start_of_year_to_start_of_month(y, m) + d - 1, with the year start replaced by a symbolic base and
    the month offset taken from the calculator's own hook (R01.5 decides the hook against the month lengths).  A shortcut in the
    generic code that is right for calendars whose month 1 starts the year is wrong for the Hebrew scriptural numbering."""
    rr = RuleResult("R01.13", "date -> day number is year start + the calculator's own month offset + day - 1 for every calculator, year kind and month (abstract evaluation of _get_days_since_epoch against the month-offset hook)", min_instances=150)
    M = ctx.M
    S = 10_000_000
    done = set()

    def exact(rets) -> int | None:
        vals = set()
        for v, _ in rets:
            if isinstance(v, Iv) and v.lo == v.hi:
                vals.add(int(v.lo))
            elif isinstance(v, Iv) and v.lo == -INF and v.hi == INF and len(rets) > 1:
                continue  # a path through per-year tables filled at construction (Gregorian 1900-2100 fast path; decided by R01.14): the arithmetic paths are compared
            else:
                return None
        return vals.pop() if len(vals) == 1 else None

    for ci in calculator_instances(ctx):
        key = ci.label if ci.cls == "_HebrewYearMonthDayCalculator" else ci.cls
        if key in done:
            continue
        done.add(key)
        cls = M.cls(ci.cls)
        f = M.find_method(cls, "_get_days_since_epoch")
        if f is None:
            raise AnalysisError(f"{ci.cls}._get_days_since_epoch missing")
        pn = [p.arg for p in f.value_params][0]
        for label, stubs0 in year_kinds(ctx, ci.cls):
            stubs = dict(stubs0)
            stubs["*._get_start_of_year_in_days"] = lambda a, k, r: Iv(S, S)
            so = Obj(ci.cls, dict(ci.obj.fields))
            _, r = _call_method(ctx, cls, "_get_months_in_year", so, {"year": SYMBOLIC_YEAR}, stubs)
            miy = _const(r[0][0]) if r else None
            if miy is None:
                rr.inst()
                rr.undecided.append(f"{key}[{label}]: month count not constant")
                continue
            for m in range(1, miy + 1):
                rr.inst()
                _, r2 = _call_method(ctx, cls, "_get_days_from_start_of_year_to_start_of_month", so, {"year": SYMBOLIC_YEAR, "month": Iv(m, m)}, stubs)
                off = exact(r2)
                day = 7
                ymd = Obj("_YearMonthDay", {"_year": SYMBOLIC_YEAR, "_month": Iv(m, m), "_day": Iv(day, day)})
                _, r3 = _call_method(ctx, cls, "_get_days_since_epoch", so, {pn: ymd}, stubs)
                rr.states += 2
                got = exact(r3)
                if off is None or got is None:
                    # month offsets that depend on per-year data (Um Al Qura) or an own implementation not based on the year start (Badi)
                    los = [v.lo for v, _ in r3 if isinstance(v, Iv)]
                    his = [v.hi for v, _ in r3 if isinstance(v, Iv)]
                    olo = [v.lo for v, _ in r2 if isinstance(v, Iv)]
                    ohi = [v.hi for v, _ in r2 if isinstance(v, Iv)]
                    if los and olo and min(los) > -INF and max(his) < INF and (min(los) != S + min(olo) + day - 1 or max(his) != S + max(ohi) + day - 1):
                        rr.fail(f.qual, f"{key}[{label}] month {m} day {day}: day number is year start + [{min(los) - S}, {max(his) - S}], the month-offset hook gives [{min(olo)}, {max(ohi)}] + {day - 1}", ctx.loc(f))
                    else:
                        rr.undecided.append(f"{key}[{label}] month {m}: not a constant under abstract evaluation")
                    continue
                if got == S + off + day - 1:
                    rr.ok()
                else:
                    rr.fail(f.qual, f"{key}[{label}] month {m} day {day}: day number is year start {got - S:+d}, but the calculator's month offset is {off} (+ {day - 1} days): date -> day number disagrees with day number -> date", ctx.loc(f))
    return rr


# ------------------------------------------------------------------------------------------- R01.12 era calculator pairing


@rule("C01")
def r01_12_era_calculator_pairing(ctx: Ctx) -> RuleResult:
    """A calendar's era calculator converts (era, year-of-era) <-> absolute year with the year bounds of the year-month-day
    calculator it was built over.  Every CalendarSystem construction that passes both must pass an era calculator built over the
    SAME year-month-day calculator expression (or both borrowed from the same calendar), otherwise the era API reports years the
    calendar does not have (Julian with ISO's bounds: year-of-era 9999 -> absolute 9999 > max_year 9998)."""
    from ..kit import inline_locals

    rr = RuleResult("R01.12", "every calendar is constructed with an era calculator built over its own year-month-day calculator (or both taken from the same existing calendar)", min_instances=3)
    M = ctx.M
    for f in sorted(set(M.func_of_node.values()), key=lambda x: x.qual):
        if isinstance(f.node, ast.Lambda) or not f.mod.rel.endswith("_calendar_system.py"):
            continue
        for n in own_nodes(f.node):
            if not (isinstance(n, ast.Call) and unparse(n.func).endswith("__ctor")):
                continue
            kw = {k.arg: k.value for k in n.keywords}
            if "year_month_day_calculator" not in kw or "era_calculator" not in kw:
                continue
            rr.inst()
            y = inline_locals(f.node, kw["year_month_day_calculator"])
            e = inline_locals(f.node, kw["era_calculator"])
            ytxt, etxt = unparse(kw["year_month_day_calculator"]), unparse(kw["era_calculator"])
            ok = False
            why = ""
            if isinstance(e, ast.Call) and e.args:
                # built here: _GJEraCalculator(<calc>) / _SingleEraCalculator._ctor(era, <calc>): <calc> is the same local / expression
                inner = [unparse(a) for a in e.args] + [unparse(k.value) for k in e.keywords]
                raw_e = kw["era_calculator"]
                if isinstance(raw_e, ast.Name):
                    for s in own_nodes(f.node):
                        if isinstance(s, ast.Assign) and any(isinstance(t, ast.Name) and t.id == raw_e.id for t in s.targets) and isinstance(s.value, ast.Call):
                            inner = [unparse(a) for a in s.value.args] + [unparse(k.value) for k in s.value.keywords]
                ok = ytxt in inner or unparse(y) in inner
                why = f"era calculator built over {inner}, calendar uses {ytxt}"
            elif isinstance(e, ast.Attribute) and isinstance(y, ast.Attribute):
                # both borrowed: <cal>.__era_calculator with <cal>._year_month_day_calculator
                ok = unparse(e.value) == unparse(y.value)
                why = f"era calculator of `{unparse(e.value)}`, year-month-day calculator of `{unparse(y.value)}`"
            else:
                why = f"era calculator `{etxt}` is not built over `{ytxt}`"
            if ok:
                rr.ok({"calendar": unparse(kw.get("name")) if kw.get("name") is not None else "", "pairing": why})
            else:
                rr.fail(f.qual, f"calendar constructed with mismatched parts: {why}; the era API then uses another calendar's year bounds", ctx.loc(f, n))
    return rr


# ------------------------------------------------------------------------------------------- R01.14 Gregorian 1900-2100 tables


def _gregorian_tables(ctx: Ctx):
    """The two tables _GregorianYearMonthDayCalculator.__init__ fills for 1900-2100, obtained by interpreting its loop with the
    restricted table folder; calls on self (`_calculate_start_of_year_days`, `_get_days_in_month`) are evaluated by the abstract
    interpreter on exact arguments."""
    from ..tablefold import TableFolder, _Unsupported

    if "c01.gregorian_tables" in ctx.cache:
        return ctx.cache["c01.gregorian_tables"]
    M = ctx.M
    c = M.cls("_GregorianYearMonthDayCalculator")
    ci = next(x for x in calculator_instances(ctx) if x.cls == c.name)
    init = M.find_method(c, "__init__")
    loops = [s for s in init.body if isinstance(s, ast.For)]
    if len(loops) != 1:
        raise AnalysisError(f"{init.qual}: expected one table-filling loop, found {len(loops)}")
    tables: dict[str, list] = {}
    memo: dict[tuple, int] = {}

    class Folder(TableFolder):
        def ev(self, e, env):  # noqa: ANN001
            if isinstance(e, ast.Attribute) and isinstance(e.value, ast.Name) and e.value.id in ("self", "cls"):
                nm = mangle(c.name, e.attr)
                if nm in tables:
                    return tables[nm]
                v = M.fold_class_const(c.name, nm)
                if isinstance(v, list):
                    tables[nm] = list(v)
                    return tables[nm]
                if v is not UNKNOWN and v is not None:
                    return v
                if nm in c.assigns:
                    # a table created as list(range(n)) in the class body: n placeholder slots
                    t = super().ev(c.assigns[nm], {})
                    if isinstance(t, list):
                        tables[nm] = list(t)
                        return tables[nm]
                    return t
            return super().ev(e, env)

        def call(self, call, env):  # noqa: ANN001
            fx = call.func
            if isinstance(fx, ast.Attribute) and isinstance(fx.value, ast.Name) and fx.value.id == "self":
                args = tuple(self.ev(a, env) for a in call.args)
                key = (fx.attr, args)
                if key not in memo:
                    g = M.find_method(c, fx.attr)
                    if g is None:
                        raise _Unsupported(fx.attr)
                    params = {p.arg: Iv(a, a) for p, a in zip(g.value_params, args)}
                    _, rets = _call_method(ctx, c, fx.attr, Obj(ci.cls, dict(ci.obj.fields)), params, {})
                    vals = {int(v.lo) for v, _ in rets if isinstance(v, Iv) and v.lo == v.hi}
                    if len(vals) != 1:
                        raise _Unsupported(f"{fx.attr}{args} not exact")
                    memo[key] = vals.pop()
                return memo[key]
            return super().call(call, env)

    tf = Folder(M, c)
    tf.helpers = {}
    try:
        tf.exec_stmt(loops[0], {})
    except _Unsupported as e:
        raise AnalysisError(f"{init.qual}: table-filling loop not interpretable: {e}") from None
    ctx.cache["c01.gregorian_tables"] = (c, ci, tables)
    return ctx.cache["c01.gregorian_tables"]


@rule("C01")
def r01_14_gregorian_fast_tables(ctx: Ctx) -> RuleResult:
    """For 1900-2100 the ISO / Gregorian calculator answers year starts, date -> day number and day number -> date from two tables
    filled in __init__.  The fill loop is interpreted (restricted table folder; the calculator's own arithmetic evaluated exactly),
    the tables are handed to the constant folder, and the three fast paths are then evaluated by the abstract interpreter and
    compared with the arithmetic they replace: year start for every table year, date -> day number for the first / last day of
    every month of sampled years, and day number -> date for the same days (both directions, so the pair is a bijection there)."""
    rr = RuleResult("R01.14", "Gregorian 1900-2100 fast paths (year start, date -> day number, day number -> date) agree with the calculator's arithmetic on the interpreted tables", min_instances=3)
    M = ctx.M
    c, ci, tables = _gregorian_tables(ctx)
    first = M.fold_class_const(c.name, mangle(c.name, "__FIRST_OPTIMIZED_YEAR"))
    last = M.fold_class_const(c.name, mangle(c.name, "__LAST_OPTIMIZED_YEAR"))
    if not (isinstance(first, int) and isinstance(last, int)) or len(tables) != 2:
        raise AnalysisError("Gregorian optimised range / tables not found")
    saved = {}
    for nm, tbl in tables.items():
        saved[nm] = M._fold_memo.get((id(c), nm))
        M._fold_memo[(id(c), nm)] = list(tbl)
    try:
        so = Obj(ci.cls, dict(ci.obj.fields))
        gj = M.cls("_GJYearMonthDayCalculator")

        def exact(rets):
            vals = {int(v.lo) for v, _ in rets if isinstance(v, Iv) and v.lo == v.hi}
            return vals.pop() if len(vals) == 1 and all(isinstance(v, Iv) and v.lo == v.hi for v, _ in rets) else None

        def arithmetic_start(y: int) -> int | None:
            _, r = _call_method(ctx, c, "_calculate_start_of_year_days", so, {"year": Iv(y, y)}, {})
            return exact(r)

        # (a) year starts
        rr.inst()
        bad = None
        for y in range(first, last + 1):
            _, r = _call_method(ctx, c, "_get_start_of_year_in_days", so, {"year": Iv(y, y)}, {})
            a, b = exact(r), arithmetic_start(y)
            rr.states += 2
            if a is None or b is None or a != b:
                bad = bad or (y, a, b)
        if bad is None:
            rr.ok({"year starts": f"{first}..{last}"})
        else:
            rr.fail(f"{c.name}._get_start_of_year_in_days", f"year {bad[0]}: the table gives {bad[1]}, the arithmetic {bad[2]}", f"{c.mod.rel}:{c.node.lineno}")
        # (b) / (c) first and last day of every month of sampled years
        # one year outside the table on each side as well: the fast paths must not be taken there (index 0 of the month table is a placeholder)
        years = sorted({first - 1, first, first + 1, first + 3, first + 4, 1999, 2000, 2001, 2024, last - 1, last, last + 1})
        fwd = M.find_method(c, "_get_days_since_epoch")
        dec = M.find_method(c, "_get_gregorian_year_month_day_calendar_from_days_since_epoch")
        bad_f = bad_d = None
        got_box: list = []
        stubs = {"_YearMonthDayCalendar._ctor": (lambda a, k, r: (got_box.append((k.get("year"), k.get("month"), k.get("day"))), Obj("_YearMonthDayCalendar"))[1])}
        for y in years:
            s0 = arithmetic_start(y)
            for m in range(1, 13):
                _, r1 = _call_method(ctx, c, "_get_days_from_start_of_year_to_start_of_month", so, {"year": Iv(y, y), "month": Iv(m, m)}, {})
                _, r2 = _call_method(ctx, c, "_get_days_in_month", so, {"year": Iv(y, y), "month": Iv(m, m)}, {})
                off, ln = exact(r1), exact(r2)
                for d in (1, ln):
                    if s0 is None or off is None or ln is None:
                        bad_f = bad_f or (y, m, d, "not evaluable", None)
                        continue
                    want = s0 + off + d - 1
                    ymd = Obj("_YearMonthDay", {"_year": Iv(y, y), "_month": Iv(m, m), "_day": Iv(d, d)})
                    _, r3 = _call_method(ctx, c, "_get_days_since_epoch", so, {fwd.value_params[0].arg: ymd}, {})
                    got = exact(r3)
                    rr.states += 1
                    outside = not (first <= y <= last)
                    if got != want and not (outside and got is None):
                        # outside the table the generic path is taken (year cache: not an exact value for the analysis); only a
                        # definite wrong answer counts there
                        bad_f = bad_f or (y, m, d, got, want)
                    got_box.clear()
                    I = interp(ctx)
                    I.max_depth = 6
                    I.stubs = stubs
                    I.analyse(dec, params={dec.value_params[0].arg: Iv(want, want)})
                    rr.states += 1
                    triples = {(int(a.lo), int(b.lo), int(cc.lo)) for a, b, cc in got_box if all(isinstance(x, Iv) and x.lo == x.hi for x in (a, b, cc))}
                    if triples != {(y, m, d)} and not (outside and not triples):
                        bad_d = bad_d or (want, sorted(triples), (y, m, d))
        rr.inst()
        if bad_f is None:
            rr.ok({"date -> day number": f"first / last day of every month of {years}"})
        else:
            rr.fail(fwd.qual, f"{bad_f[0]}-{bad_f[1]:02d}-{bad_f[2]:02d}: the table path gives day number {bad_f[3]}, the arithmetic {bad_f[4]}", ctx.loc(fwd))
        rr.inst()
        if bad_d is None:
            rr.ok({"day number -> date": "same days, decoded back"})
        else:
            rr.fail(dec.qual, f"day number {bad_d[0]} decodes to {bad_d[1]}, it is {bad_d[2]}", ctx.loc(dec))
    finally:
        for nm, old in saved.items():
            if old is None:
                M._fold_memo.pop((id(c), nm), None)
            else:
                M._fold_memo[(id(c), nm)] = old
    return rr


@rule("C01")
def r01_15_eras_are_compared_as_objects(ctx: Ctx) -> RuleResult:
    """Era has no __eq__: eras are interned objects compared by identity, and two DIFFERENT eras share the name "AM" (anno
    martyrum of the Coptic calendar, anno mundi of the Hebrew ones).  A guard that compares `era.name` (or the resource
    identifier) instead of the era accepts the foreign era: the Coptic calendar then answers year-of-era queries for a Hebrew
    era.  Every comparison that involves an Era-typed expression in the calendar layer compares the objects themselves."""
    rr = RuleResult("R01.15", "era guards compare Era objects, never an attribute of them (two distinct eras are both named \"AM\")", min_instances=4)
    M = ctx.M
    era = M.cls("Era", required=True)
    if any(f.name == "__eq__" for f in era.all_defs):
        raise AnalysisError("Era now defines __eq__: R01.15's premise (identity-compared) must be re-read")
    for f in sorted(set(M.func_of_node.values()), key=lambda x: x.qual):
        if isinstance(f.node, ast.Lambda) or not (f.mod.rel.startswith("pyoda_time/calendars/") or f.mod.rel in ("pyoda_time/_calendar_system.py", "pyoda_time/_local_date.py", "pyoda_time/_year_month.py")):
            continue
        typed = {p.arg for p in f.params if p.annotation is not None and "Era" in {x.id for x in ast.walk(p.annotation) if isinstance(x, ast.Name)} | {x.value for x in ast.walk(p.annotation) if isinstance(x, ast.Constant) and isinstance(x.value, str)}}
        fields = set()
        if f.cls is not None:
            for g in f.cls.all_defs:
                if isinstance(g.node, ast.Lambda):
                    continue
                gt = {p.arg for p in g.params if p.annotation is not None and "Era" in unparse(p.annotation).replace("Eras", "")}
                for n in own_nodes(g.node):
                    if isinstance(n, (ast.Assign, ast.AnnAssign)) and getattr(n, "value", None) is not None and isinstance(n.value, ast.Name) and n.value.id in gt:
                        for t in [n.target] if isinstance(n, ast.AnnAssign) else n.targets:
                            if isinstance(t, ast.Attribute) and isinstance(t.value, ast.Name) and t.value.id == g.self_name:
                                fields.add(t.attr)

        def is_era(e) -> bool:
            if isinstance(e, ast.Name):
                return e.id in typed
            if isinstance(e, ast.Attribute) and isinstance(e.value, ast.Name):
                return (e.value.id == f.self_name and e.attr in fields) or e.value.id == "Era"
            return False

        for n in own_nodes(f.node):
            if not isinstance(n, ast.Compare):
                continue
            sides = [n.left, *n.comparators]
            if any(isinstance(s, ast.Constant) and s.value is None for s in sides):
                continue
            direct = [s for s in sides if is_era(s)]
            via_attr = [s for s in sides if isinstance(s, ast.Attribute) and is_era(s.value) and not is_era(s)]
            if via_attr:
                rr.inst()
                rr.fail(f.qual, f"`{unparse(n)[:90]}` compares `{unparse(via_attr[0])}` instead of the era: Era.anno_martyrum (Coptic) and Era.anno_mundi (Hebrew) are distinct eras with the same name \"AM\", so the foreign era passes the guard", ctx.loc(f, n))
            elif direct:
                rr.inst()
                rr.ok({"fn": f.qual, "test": unparse(n)[:60]})
    return rr


@rule("C01")
def r01_16_single_era_year_bounds(ctx: Ctx) -> RuleResult:
    """In a single-era calendar the year of era IS the absolute year, so the era's minimum / maximum year and the range check of
    get_absolute_year are the year bounds of the calendar's own calculator - Um Al Qura starts at 1318, not at 1.  The
    constructor and the three queries are evaluated by the abstract interpreter for a calculator with bounds [1318, 1500] (and
    [-9998, 9999]): the values handed out / checked against must be exactly those bounds."""
    from ..absint import Iv, Obj
    from ..oblig import interp

    rr = RuleResult("R01.16", "single-era calendars report and enforce the year bounds of their own calculator as the bounds of the era (evaluated)", min_instances=6)
    M = ctx.M
    c = M.cls("_SingleEraCalculator", required=True)
    ctor = next((f for f in c.all_defs if f.name == "_ctor"), None)
    if ctor is None:
        raise AnalysisError("_SingleEraCalculator._ctor not found")
    ymd_param = next((p.arg for p in ctor.params if p.annotation is not None and "YearMonthDayCalculator" in unparse(p.annotation)), None)
    era_param = next((p.arg for p in ctor.params if p.annotation is not None and unparse(p.annotation).strip("'\"") == "Era"), None)
    if ymd_param is None or era_param is None:
        raise AnalysisError("_SingleEraCalculator._ctor: calculator / era parameters not found")
    for lo, hi in ((1318, 1500), (-9998, 9999)):
        I = interp(ctx)
        I.max_depth = 3
        era = Obj("Era", {})
        rets, _ = I.analyse(ctor, params={ymd_param: Obj("_YearMonthDayCalculator", {"_min_year": Iv(lo, lo), "_max_year": Iv(hi, hi)}), era_param: era})
        objs = [v for v, _s in rets if isinstance(v, Obj)]
        if len(objs) != 1:
            raise AnalysisError(f"_SingleEraCalculator._ctor not evaluated to one object ({len(rets)} results)")
        so = objs[0]
        for qname, want in (("_get_min_year_of_era", lo), ("_get_max_year_of_era", hi)):
            f = M.find_method(c, qname)
            if f is None:
                raise AnalysisError(f"_SingleEraCalculator.{qname} missing")
            rr.inst()
            I = interp(ctx)
            I.max_depth = 3
            r2, _ = I.analyse(f, self_obj=so, params={p.arg: era for p in f.value_params})
            rr.states += 1
            vals = [v for v, _s in r2]
            if vals and all(isinstance(v, Iv) and v.const and v.lo == want for v in vals):
                rr.ok({"query": qname, "calculator bounds": (lo, hi), "answer": want})
            elif vals and all(isinstance(v, Iv) and v.const for v in vals):
                got = sorted({int(v.lo) for v in vals})
                rr.fail(f.qual, f"for a calendar whose years run {lo}..{hi} the era's {'minimum' if 'min' in qname else 'maximum'} year is reported as {got}: years {min(got[0], want)}..{max(got[0], want) - 1 if got[0] < want else max(got[0], want)} pass the year-of-era guard of the parser and reach a calculator that has no such year", ctx.loc(f))
            else:
                rr.fail(f.qual, f"the answer for a calculator with bounds {lo}..{hi} is not the constant {want} ({[repr(v)[:30] for v in vals]})", ctx.loc(f))
        f = M.find_method(c, "_get_absolute_year")
        if f is None:
            raise AnalysisError("_SingleEraCalculator._get_absolute_year missing")
        rr.inst()
        seen = []

        def on_call(call, callee, bound, st, fn, seen=seen):
            if callee.name == "_check_argument_range":
                seen.append((bound.get("min_inclusive"), bound.get("max_inclusive")))

        I = interp(ctx)
        I.max_depth = 3
        I.on_call = on_call
        ps = {p.arg: (era if p.annotation is not None and "Era" in unparse(p.annotation) else Iv(lo, hi)) for p in f.value_params}
        I.analyse(f, self_obj=so, params=ps)
        ok = [b for b in seen if all(isinstance(x, Iv) and x.const for x in b) and (int(b[0].lo), int(b[1].lo)) == (lo, hi)]
        if ok:
            rr.ok({"query": "_get_absolute_year", "range check": (lo, hi)})
        else:
            rr.fail(f.qual, f"the year of era is not range-checked against the calculator's bounds {lo}..{hi} (checks seen: {[(repr(a), repr(b)) for a, b in seen]})", ctx.loc(f))
    return rr
