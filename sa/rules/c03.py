"""C03 - Elapsed-time values (Duration, Instant, Offset) do exact integer arithmetic (structural clauses)."""
from __future__ import annotations

import ast

from ..core import Ctx, RuleResult, rule
from ..model import UNKNOWN, AnalysisError, mangle, unparse
from ..oblig import decide, global_sweep, select

R031_TARGETS = ["Duration._ctor(", "Duration.__ctor(", "Duration._Duration__", "Instant._ctor(", "_LocalInstant._ctor(", "Duration._minus_small_nanoseconds(", "Offset._Offset__seconds"]
R031_EXPECTED = {
    "Duration._from_nanoseconds=>Duration._ctor(nano_of_day)": "Decimal arithmetic: outside the integer interval domain",
    "Duration.from_hours=>Duration._Duration__days": "lower edge needs the relation 'remainder < 0 implies quotient > MIN_DAYS' (relational)",
    "Duration.from_minutes=>Duration._Duration__days": "same relational edge",
    "Duration.from_seconds=>Duration._Duration__days": "same relational edge",
    "Duration.from_milliseconds=>Duration._Duration__days": "same relational edge",
    "Duration.from_microseconds=>Duration._Duration__days": "same relational edge",
}


@rule("C03")
def r03_1_normal_form(ctx: Ctx) -> RuleResult:
    rr = RuleResult("R03.1", "every Duration/Instant/Offset construction keeps the floor-day + nanosecond-of-day normal form and the day/second range", min_instances=40)
    groups = select(global_sweep(ctx), R031_TARGETS)
    rr.states = ctx.cache.get("sweep_steps", 0)
    decide(rr, groups, "R03.1", R031_EXPECTED)
    return rr


C03_MODULES = ["pyoda_time/_duration.py", "pyoda_time/_instant.py", "pyoda_time/_offset.py", "pyoda_time/_local_instant.py", "pyoda_time/utility/_tick_arithmetic.py"]


@rule("C03")
def r03_3_numeric_discipline(ctx: Ctx) -> RuleResult:
    from ..numeric import check_numeric

    rr = RuleResult("R03.3", "no float arithmetic on unbounded integer quantities; flooring operators only on non-negative operands", min_instances=12)
    check_numeric(ctx, rr, C03_MODULES)
    return rr


@rule("C03")
def r03_5_units(ctx: Ctx) -> RuleResult:
    from ..dims import units_rule

    return units_rule(ctx, "R03.5", "C03", 100)
