"""C03 - Elapsed-time values (Duration, Instant, Offset) do exact integer arithmetic (structural clauses)."""
from __future__ import annotations

import ast

from ..core import Ctx, RuleResult, rule
from ..kit import own_nodes
from ..model import UNKNOWN, AnalysisError, mangle, unparse
from ..oblig import decide, global_sweep, select

R031_TARGETS = ["Duration._ctor(", "Duration.__ctor(", "Duration._Duration__", "Instant._ctor(", "_LocalInstant._ctor(", "Duration._minus_small_nanoseconds(", "Offset._Offset__seconds"]
R031_EXPECTED = {
    "Duration._from_nanoseconds=>Duration._ctor(nano_of_day)": "Decimal arithmetic: outside the integer interval domain",
    "Duration.from_hours=>Duration._Duration__days": "lower edge needs the relation 'remainder < 0 implies quotient > MIN_DAYS' (relational)",
    "Duration.from_minutes=>Duration._Duration__days": "same relational edge",
    "Duration.from_seconds=>Duration._Duration__days": "same relational edge",
    "Duration.from_milliseconds=>Duration._Duration__days": "same relational edge",
    "Duration.from_microseconds=>Duration._Duration__days": "same relational edge",
}


@rule("C03")
def r03_1_normal_form(ctx: Ctx) -> RuleResult:
    rr = RuleResult("R03.1", "every Duration/Instant/Offset construction keeps the floor-day + nanosecond-of-day normal form and the day/second range", min_instances=40)
    groups = select(global_sweep(ctx), R031_TARGETS)
    rr.states = ctx.cache.get("sweep_steps", 0)
    decide(rr, groups, "R03.1", R031_EXPECTED, ctx)
    return rr


C03_MODULES = ["pyoda_time/_duration.py", "pyoda_time/_instant.py", "pyoda_time/_offset.py", "pyoda_time/_local_instant.py", "pyoda_time/utility/_tick_arithmetic.py"]


@rule("C03")
def r03_3_numeric_discipline(ctx: Ctx) -> RuleResult:
    from ..numeric import check_numeric

    rr = RuleResult("R03.3", "no float arithmetic on unbounded integer quantities; flooring operators only on non-negative operands", min_instances=12)
    check_numeric(ctx, rr, C03_MODULES)
    return rr


@rule("C03")
def r03_5_units(ctx: Ctx) -> RuleResult:
    from ..dims import units_rule

    return units_rule(ctx, "R03.5", "C03", 100)


ROUNDING_HELPER_QUALS = ["_csharp_compatibility._towards_zero_division", "_csharp_compatibility._csharp_modulo"]


@rule("C03")
def r03_6_rounding_helpers_exact(ctx: Ctx) -> RuleResult:
    """The helpers every truncating division / remainder of the integer core goes through are themselves exact on integers."""
    from ..kit import own_nodes

    rr = RuleResult("R03.6", "the truncating-division and remainder helpers use integer arithmetic for integer operands (no Decimal / float / true division on that path) and equal the definition on every sign combination (remainder: positive divisors, which is all its call sites use)", min_instances=5)
    M = ctx.M
    for q in ROUNDING_HELPER_QUALS:
        f = M.func(q, required=False)
        if f is None:
            raise AnalysisError(f"rounding helper {q} vanished")
        rr.inst()
        params = [a.arg for a in f.params]
        body = f.body
        int_path = body
        first = body[0] if body else None
        if isinstance(first, ast.If):
            tests = unparse(first.test)
            if all(f"isinstance({p}, int)" in tests for p in params[:2]) and isinstance(first.test, ast.BoolOp) and isinstance(first.test.op, ast.And):
                int_path = first.body  # operands known to be ints here; it must return
                if not (int_path and isinstance(int_path[-1], ast.Return)):
                    rr.fail(f.qual, "the integer branch falls through to the non-integer arithmetic", ctx.loc(f, first))
                    continue
        bad = None
        for s in int_path:
            for n in ast.walk(s):
                if isinstance(n, ast.BinOp) and isinstance(n.op, ast.Div):
                    bad = n
                elif isinstance(n, ast.Call) and unparse(n.func).split(".")[-1] in ("Decimal", "float", "pow", "quantize", "round"):
                    bad = n
                elif isinstance(n, (ast.Import, ast.ImportFrom)) and any("decimal" in (a.name or "") or "decimal" in (getattr(n, "module", "") or "") for a in n.names):
                    bad = n
        if bad is not None:
            rr.fail(f.qual, f"integer operands are divided through non-integer arithmetic (`{unparse(bad)[:60]}`): quotients are inexact beyond the precision of that arithmetic (28 digits for Decimal, 2**53 for float)", ctx.loc(f, bad))
        else:
            rr.ok({"helper": q, "integer_path": " ; ".join(unparse(s)[:60] for s in int_path)[:160]})
    # the callers pass integers: every call site's operands are typed int (float callers use the other branch knowingly)
    # semantics: each helper, analysed by the abstract interpreter on exact operands of every sign combination, equals the
    # mathematical definition (truncating quotient; remainder with the sign of the dividend such that x == q*y + r)
    from ..absint import Iv
    from ..oblig import interp

    def trunc_div(x: int, y: int) -> int:
        q = abs(x) // abs(y)
        return q if (x < 0) == (y < 0) else -q

    spec = {"_towards_zero_division": trunc_div, "_csharp_modulo": lambda x, y: x - y * trunc_div(x, y)}
    for q in ROUNDING_HELPER_QUALS:
        f = M.func(q)
        rr.inst()
        want = spec[q.split(".")[-1]]
        bad = None
        ps = [a.arg for a in f.params]
        for x in (-9, -8, -7, -1, 0, 1, 7, 8, 9, 10**30 + 1, -(10**30) - 1):
            for y in (-4, -3, -2, -1, 1, 2, 3, 4, 10**15):
                if y < 0 and q.endswith("_csharp_modulo"):
                    continue  # the remainder helper is only defined for the positive divisors it is called with (checked below)
                I = interp(ctx)
                rets, _ = I.analyse(f, params={ps[0]: Iv(x, x), ps[1]: Iv(y, y)})
                rr.states += 1
                vals = {int(v.lo) for v, _ in rets if isinstance(v, Iv) and v.const}
                if len(vals) != 1 or vals != {want(x, y)}:
                    bad = bad or (x, y, sorted(vals) or [repr(v) for v, _ in rets][:2], want(x, y))
        if bad is None:
            rr.ok({"helper": q, "operand pairs evaluated": 99})
        else:
            rr.fail(f.qual, f"{q.split('.')[-1]}({bad[0]}, {bad[1]}) evaluates to {bad[2]}, the definition gives {bad[3]}", ctx.loc(f))
    # the remainder helper returns Python's remainder for a non-negative dividend, which differs from C#'s for a negative divisor:
    # every call site must have a divisor that is a positive constant (or the positive units-per-day of a time period field)
    from ..oblig import time_period_field_instances

    tpf_positive = all(isinstance(v, Iv) and v.lo > 0 for _, inst in time_period_field_instances(ctx) for k, v in inst.fields.items() if k.endswith("__units_per_day"))
    sites = 0
    badsite = None
    for g in sorted(set(M.func_of_node.values()), key=lambda x: x.qual):
        if isinstance(g.node, ast.Lambda) or "_compatibility" in g.mod.rel:
            continue
        for c in own_nodes(g.node):
            if isinstance(c, ast.Call) and unparse(c.func).endswith("_csharp_modulo") and len(c.args) == 2:
                sites += 1
                v = M.fold(c.args[1], g.cls, g.mod)
                ok = (isinstance(v, int) and v > 0) or (unparse(c.args[1]).endswith("__units_per_day") and tpf_positive)
                if not ok and isinstance(c.args[1], ast.Name) and g.parent is not None and c.args[1].id in {p_.arg for p_ in g.value_params}:
                    # the divisor is a parameter of a local helper: every call of the helper in the enclosing function decides
                    idx = [p_.arg for p_ in g.value_params].index(c.args[1].id)
                    calls = [x for x in own_nodes(g.parent.node) if isinstance(x, ast.Call) and isinstance(x.func, ast.Name) and x.func.id == g.name]
                    vals = []
                    for x in calls:
                        a = x.args[idx] if idx < len(x.args) else next((k.value for k in x.keywords if k.arg == c.args[1].id), None)
                        vals.append(M.fold(a, g.parent.cls, g.parent.mod) if a is not None else None)
                    ok = bool(calls) and all(isinstance(w, int) and w > 0 for w in vals)
                if not ok:
                    badsite = badsite or (g, c)
    rr.inst()
    if sites < 40:
        raise AnalysisError(f"only {sites} _csharp_modulo call sites found (68 confirmed)")
    if badsite is None:
        rr.ok({"_csharp_modulo call sites": sites, "divisors": "positive constants"})
    else:
        g, c = badsite
        rr.fail(g.qual, f"`{unparse(c)[:70]}`: the divisor is not a positive constant; for a negative divisor the helper does not give C#'s remainder", ctx.loc(g, c))
    return rr


@rule("C03")
def r03_7_unix_time_floors(ctx: Ctx) -> RuleResult:
    """to_unix_time_<unit>() is documented to truncate towards the start of time: for an instant d days + n nanoseconds past the
    epoch (floor form, 0 <= n < day) the result lies in [d * units_per_day, (d + 1) * units_per_day - 1] - also for negative d."""
    from ..absint import Iv, Obj
    from ..oblig import interp as mk

    rr = RuleResult("R03.7", "Instant.to_unix_time_seconds / _milliseconds / _ticks round towards the start of time: for d days + n ns (floor form) the result stays inside day d's window of units, for negative d as well", min_instances=6)
    M = ctx.M
    NPD = M.fold_class_const("PyodaConstants", "NANOSECONDS_PER_DAY")
    for nm, const in (("to_unix_time_seconds", "SECONDS_PER_DAY"), ("to_unix_time_milliseconds", "MILLISECONDS_PER_DAY"), ("to_unix_time_ticks", "TICKS_PER_DAY")):
        f = M.func(f"Instant.{nm}", required=False)
        upd = M.fold_class_const("PyodaConstants", const)
        if f is None or not isinstance(upd, int) or not isinstance(NPD, int):
            raise AnalysisError(f"Instant.{nm} / PyodaConstants.{const} missing")
        for d in (-5, 3):
            rr.inst()
            rr.states += 1
            I = mk(ctx)
            I.max_depth = 6
            dur = Obj("Duration", {mangle("Duration", "__days"): Iv(d, d), mangle("Duration", "__nano_of_day"): Iv(1, NPD - 1), "$exact": Iv(1, 1)})
            so = Obj("Instant", {mangle("Instant", "__duration"): dur})
            rets, _ = I.analyse(f, self_obj=so)
            vals = [v for v, _ in rets]
            lo, hi = d * upd, (d + 1) * upd - 1
            ok = bool(vals) and all(isinstance(v, Iv) and v.within(lo, hi) for v in vals)
            if ok:
                rr.ok({"fn": f.qual, "days": d, "result": repr(vals[0]), "window": [lo, hi]})
            else:
                rr.fail(f.qual, f"for {d} days + n ns (0 < n < one day) the result is {vals}, outside day {d}'s window [{lo}, {hi}]: the value is not truncated towards the start of time (instants before 1970 round the wrong way)", f.loc)
    return rr


# shared with C11: the sign with which an offset enters instant <-> local conversions (Instant._plus/_safe_plus,
# _LocalInstant._minus/_safe_minus, Duration._plus/_minus_small_nanoseconds are C03 arithmetic); home id R11.4
# (cross-registration moved to sa/rules/shared.py: SHARED)

# (cross-registration moved to sa/rules/shared.py: SHARED)


@rule("C03")
def r03_9_untrusted_guard(ctx: Ctx) -> RuleResult:
    """`_from_untrusted_duration` is the one place where arithmetic results are range-checked before they become an Instant (every
    operator and plus_* goes through it).  The check must constrain the quantity that is stored - the floor-day count of the
    duration handed to the private constructor - by both bounds; testing a rounded view of it (e.g. the towards-zero `days`)
    lets values of the first day below the minimum through."""
    from ..exc import facts_at
    from ..kit import inline_locals, own_nodes

    rr = RuleResult("R03.9", "untrusted durations are range-checked on the stored floor-day count (both bounds) before the trusted Instant constructor", min_instances=1)
    M = ctx.M
    dur = M.cls("Duration")
    for f in sorted(set(M.func_of_node.values()), key=lambda x: x.qual):
        if f.name != "_from_untrusted_duration" or isinstance(f.node, ast.Lambda):
            continue
        for c in own_nodes(f.node):
            if not (isinstance(c, ast.Call) and unparse(c.func).endswith("__ctor") and any(k.arg == "duration" for k in c.keywords)):
                continue
            rr.inst()
            d = unparse(next(k.value for k in c.keywords if k.arg == "duration"))
            facts = set()
            for (a, op, b) in facts_at(c):
                try:
                    a2 = unparse(inline_locals(f.node, ast.parse(a, mode="eval").body))
                except SyntaxError:
                    a2 = a
                facts.add((a2, op, b))
            lower = [a for (a, op, b) in facts if op == ">=" and b.endswith("_MIN_DAYS")]
            upper = [a for (a, op, b) in facts if op == "<=" and b.endswith("_MAX_DAYS")]

            def stored(expr: str) -> bool:
                if not expr.startswith(d + "."):
                    return False
                g = M.find_method(dur, expr[len(d) + 1:])
                if g is None or g.kind != "property":
                    return False
                rets = [n.value for n in own_nodes(g.node) if isinstance(n, ast.Return) and n.value is not None]
                return len(rets) == 1 and isinstance(rets[0], ast.Attribute) and mangle("Duration", rets[0].attr) == mangle("Duration", "__days")

            if any(stored(a) for a in lower) and any(stored(a) for a in upper):
                rr.ok({"fn": f.qual, "checked": sorted(set(lower + upper))})
            else:
                rr.fail(f.qual, f"the trusted constructor receives `{d}` but the range test constrains {sorted(set(lower + upper)) or 'nothing'} - not the stored floor-day count of `{d}` on both sides", ctx.loc(f, c))
    return rr


@rule("C03")
def r03_10_wraps(ctx: Ctx) -> RuleResult:
    from ..numeric import check_wraps

    rr = RuleResult("R03.10", "C#-style wrap-around helpers are only applied to quantities proved inside the wrapped type's range (where they are the identity) or in reviewed decoders", min_instances=8)
    check_wraps(ctx, rr)
    return rr


TRUSTED_REVIEWED = {
    "_LocalInstant._minus_zero_offset": "re-labels the local instant's own duration, which every _LocalInstant constructor already bounds to the same day range (LocalDate day numbers / the checked _ctor); used for the zone-mapping first guess (R11.8)",
}


@rule("C03")
def r03_11_trusted_instants(ctx: Ctx) -> RuleResult:
    """`Instant._from_trusted_duration` performs no validation: whoever calls it must have bounded the duration's floor-day count
    to the Instant range.  Each call site is analysed in its caller with unconstrained parameters; the interval of the duration's
    day field at the call (after the caller's own range checks) must lie inside [MIN_DAYS, MAX_DAYS].  The floor adjustment of the
    from_<unit> factories costs the interval domain one day at the lower edge (the relation 'negative remainder implies quotient
    above the minimum' is not expressible), so the lower bound is checked with one day of slack - a guard that uses the bounds of
    a different unit is off by a factor of 1000 or more."""
    from ..absint import Iv, Obj
    from ..oblig import interp

    rr = RuleResult("R03.11", "every call of the unvalidated Instant constructor is preceded by a range check that bounds the duration to the Instant range", min_instances=4)
    M = ctx.M
    ins = M.cls("Instant")
    MIN = M.fold_class_const("Instant", "_MIN_DAYS")
    MAX = M.fold_class_const("Instant", "_MAX_DAYS")
    if not (isinstance(MIN, int) and isinstance(MAX, int)):
        raise AnalysisError("Instant._MIN_DAYS / _MAX_DAYS not foldable")
    target = M.find_method(ins, "_from_trusted_duration")
    if target is None:
        raise AnalysisError("Instant._from_trusted_duration missing")
    from ..kit import own_nodes

    for f in sorted(set(M.func_of_node.values()), key=lambda x: x.qual):
        if isinstance(f.node, ast.Lambda) or f is target:
            continue
        sites = [c for c in own_nodes(f.node) if isinstance(c, ast.Call) and unparse(c.func).endswith("_from_trusted_duration")]
        if not sites:
            continue
        I = interp(ctx)
        got: dict[int, list] = {}

        def on_call(c, callee, bound, st, fn, _got=got, _f=f):  # type: ignore[no-untyped-def]
            if callee is target and fn is _f:
                _got.setdefault(id(c), []).append(bound.get("duration"))

        I.on_call = on_call
        I.analyse(f)
        rr.states += I.steps
        for c in sites:
            rr.inst()
            vals = got.get(id(c), [])
            bad = None
            for v in vals:
                d = None
                if isinstance(v, Obj):
                    d = v.fields.get("_floor_days") or v.fields.get(mangle("Duration", "__days"))
                if not (isinstance(d, Iv) and d.lo >= MIN - 1 and d.hi <= MAX):
                    bad = repr(d) if d is not None else repr(v)
            if f.qual in TRUSTED_REVIEWED:
                rr.ok({"caller": f.qual, "why": TRUSTED_REVIEWED[f.qual]})
            elif not vals:
                rr.fail(f.qual, f"`{unparse(c)[:70]}` not reached by the analysis", ctx.loc(f, c))
            elif bad:
                rr.fail(f.qual, f"`{unparse(c)[:70]}` hands the unvalidated constructor a duration whose day count is only known to be in {bad}, not inside [{MIN}, {MAX}]", ctx.loc(f, c))
            else:
                rr.ok({"caller": f.qual, "site": unparse(c)[:60]})
    return rr


# ------------------------------------------------------------------------------------------- R03.13 scaling on the exact total

SCALING_METHODS = {"__mul__", "__rmul__", "multiply", "__truediv__", "__floordiv__", "divide", "__neg__", "negate", "__abs__", "__pos__"}


@rule("C03")
def r03_13_scaling_uses_the_exact_total(ctx: Ctx) -> RuleResult:
    """Scaling a Duration (x k, / k, negation) is exact and raises only when the *result* is out of range.  Each range-checked
    factory (from_days, from_nanoseconds ...) validates what it is given, so a result assembled as `from_days(days * k) +
    from_nanoseconds(nanos * k)` is validated piecewise: for a small negative duration (floor days -1, nanoseconds just below a day)
    times a large k each piece is out of range although the product is tiny.  In the scaling operators no validated factory result
    may be combined further with + / -: the factory is applied to the total."""
    import re

    from ..core import anchor_scope

    rr = RuleResult("R03.13", "scaling operators of the elapsed-time types apply their range-checked factory to the exact total, never to partial products that are then added", min_instances=4)
    M = ctx.M
    files = anchor_scope(ctx, "C03")
    for f in sorted(set(M.func_of_node.values()), key=lambda x: x.qual):
        if isinstance(f.node, ast.Lambda) or f.mod.rel not in files or f.cls is None or f.name not in SCALING_METHODS:
            continue
        rr.inst()
        bad = None
        for n in own_nodes(f.node):
            if isinstance(n, ast.BinOp) and isinstance(n.op, (ast.Add, ast.Sub)):
                for side in (n.left, n.right):
                    if isinstance(side, ast.Call) and isinstance(side.func, ast.Attribute) and re.match(r"_?from_", side.func.attr) and re.search(r"(Duration|Instant|Offset|self|cls)$", unparse(side.func.value)):
                        bad = n
        if bad is None:
            rr.ok({"operator": f.qual})
        else:
            rr.fail(f.qual, f"`{unparse(bad)[:100]}` adds separately range-checked parts: a part can be out of range although the exact result is representable (or the reverse)", ctx.loc(f, bad))
    return rr


# ------------------------------------------------------------------------------------------- R03.14 tick <-> (day, tick of day)


@rule("C03")
def r03_14_tick_arithmetic(ctx: Ctx) -> RuleResult:
    """_TickArithmetic splits a tick count into (floor day, tick of day in [0, ticks per day)) and joins it again; both directions
    are evaluated by the abstract interpreter on exact integers - around zero, at exact (negative) multiples of a day, at the
    64-bit edges and far beyond them - and compared with floor division.  A negative exact multiple must give tick-of-day 0, not
    a whole day (a pre-1970 midnight written as raw ticks in the zone file would read back as a different instant)."""
    from ..absint import Iv
    from ..oblig import interp

    rr = RuleResult("R03.14", "tick <-> (floor day, tick of day) conversions equal floor division / its inverse on every probed value, including negative exact multiples of a day and values beyond 64 bits", min_instances=3)
    M = ctx.M
    tpd = M.fold_class_const("PyodaConstants", "TICKS_PER_DAY")
    if not isinstance(tpd, int):
        raise AnalysisError("PyodaConstants.TICKS_PER_DAY not foldable")
    probes = [0, 1, -1, tpd - 1, tpd, tpd + 1, -tpd + 1, -tpd, -tpd - 1, -2 * tpd, 7 * tpd + 12345, -7 * tpd - 12345, 2**63 - 1, -(2**63), -(2**63) - 1, 2**63, (10**20) * tpd, -(10**20) * tpd, -(10**20) * tpd - 1]
    f = M.func("_TickArithmetic.ticks_to_days_and_tick_of_day")
    rr.inst()
    bad = None
    for t in probes:
        I = interp(ctx)
        rets, _ = I.analyse(f, params={f.value_params[0].arg: Iv(t, t)})
        rr.states += 1
        got = set()
        for v, _x in rets:
            items = getattr(v, "items", None)
            if items is not None and len(items) == 2 and all(isinstance(i, Iv) and i.lo == i.hi for i in items):
                got.add((int(items[0].lo), int(items[1].lo)))
            else:
                got.add(("?", repr(v)))
        if got != {divmod(t, tpd)}:
            bad = bad or (t, sorted(got, key=str), divmod(t, tpd))
    if bad is None:
        rr.ok({"function": f.qual, "probes": len(probes)})
    else:
        rr.fail(f.qual, f"{bad[0]} ticks splits into {bad[1]}; floor division gives {bad[2]} (tick of day must lie in [0, {tpd}))", ctx.loc(f))
    for q in ("_TickArithmetic.days_and_tick_of_day_to_ticks", "_TickArithmetic.bounded_days_and_tick_of_day_to_ticks"):
        g = M.func(q)
        rr.inst()
        bad = None
        for t in probes:
            d, tod = divmod(t, tpd)
            I = interp(ctx)
            rets, _ = I.analyse(g, params={g.value_params[0].arg: Iv(d, d), g.value_params[1].arg: Iv(tod, tod)})
            rr.states += 1
            got = {int(v.lo) if isinstance(v, Iv) and v.lo == v.hi else repr(v) for v, _x in rets}
            if got != {t}:
                bad = bad or (d, tod, sorted(got, key=str), t)
        if bad is None:
            rr.ok({"function": q, "probes": len(probes)})
        else:
            rr.fail(g.qual, f"({bad[0]} days, {bad[1]} ticks) joins to {bad[2]}, not {bad[3]}", ctx.loc(g))
    return rr


# ------------------------------------------------------------------------------------------- R03.15 truncated views of a Duration


@rule("C03")
def r03_15_duration_truncated_views(ctx: Ctx) -> RuleResult:
    """A Duration is stored as (floor days, nanosecond of that day in [0, one day)).  Its public `days` / `nanosecond_of_day` are the
    truncated-toward-zero decomposition of the same total.  The two properties are evaluated by the abstract interpreter on
    exact field values (zero, positive, negative with and without a time part, the last nanosecond of a day) and must satisfy
    days * NPD + nanosecond_of_day == floor_days * NPD + nano_of_day, |nanosecond_of_day| < NPD and no mixed signs; the derived
    components (hours ... subsecond nanoseconds, total_* where integral) are then bounded by construction."""
    from ..absint import Iv, Obj
    from ..oblig import interp

    rr = RuleResult("R03.15", "Duration.days / nanosecond_of_day are the truncated-toward-zero decomposition of the stored floor representation on every probed value (sum preserved, |nanosecond_of_day| < one day, no mixed signs)", min_instances=8)
    M = ctx.M
    c = M.cls("Duration")
    npd = M.fold_class_const("PyodaConstants", "NANOSECONDS_PER_DAY")
    fd, fn = M.find_method(c, "days"), M.find_method(c, "nanosecond_of_day")
    if fd is None or fn is None or not isinstance(npd, int):
        raise AnalysisError("Duration.days / nanosecond_of_day / NANOSECONDS_PER_DAY not found")
    for d, n in ((0, 0), (0, 5), (3, 0), (3, npd - 1), (-1, 0), (-1, 5), (-1, npd - 1), (-4, 0), (-4, 12345), (-(2**24), 0)):
        rr.inst()
        so = Obj("Duration", {mangle("Duration", "__days"): Iv(d, d), mangle("Duration", "__nano_of_day"): Iv(n, n)})
        vals = []
        for g in (fd, fn):
            I = interp(ctx)
            rets, _ = I.analyse(g, self_obj=so, params={})
            rr.states += 1
            got = {int(v.lo) for v, _x in rets if isinstance(v, Iv) and v.lo == v.hi}
            vals.append(got.pop() if len(got) == 1 and len(rets) >= 1 and all(isinstance(v, Iv) and v.lo == v.hi for v, _x in rets) else None)
        td, tn = vals
        total = d * npd + n
        if td is None or tn is None:
            rr.fail(fd.qual, f"floor representation ({d} days, {n} ns): the views are not constants under abstract evaluation (not decided)", ctx.loc(fd))
        elif td * npd + tn == total and abs(tn) < npd and ((total >= 0 and td >= 0 and tn >= 0) or (total < 0 and td <= 0 and tn <= 0)):
            rr.ok({"floor": (d, n), "truncated": (td, tn)})
        else:
            rr.fail(fn.qual if td == (d if d >= 0 or n == 0 else d + 1) else fd.qual, f"floor representation ({d} days, {n} ns) = {total} ns in total, but days = {td} and nanosecond_of_day = {tn} (sum {td * npd + tn}; |nanosecond_of_day| must be < {npd} with the sign of the total)", ctx.loc(fn))
    return rr


# ------------------------------------------------------------------------------------------- R03.16 unit factories split exactly


@rule("C03")
def r03_16_unit_factories_split_exactly(ctx: Ctx) -> RuleResult:
    """Duration.from_hours / minutes / seconds / milliseconds / ticks / nanoseconds (integer path) store (floor days, nanosecond of
    day): the abstract interpreter evaluates each factory on exact arguments - zero, small and large, positive and negative, exact
    and inexact multiples of a day - and the stored pair must satisfy days * NPD + nano == amount * unit with 0 <= nano < NPD.
    Truncating the day count while taking a floor remainder (or the reverse) is off by a whole day for negative amounts only."""
    from ..absint import Iv, Obj
    from ..oblig import interp

    rr = RuleResult("R03.16", "integer unit factories of Duration store an exact (floor days, nanosecond-of-day) split of amount x unit for every probed amount, negative ones included", min_instances=5)
    M = ctx.M
    c = M.cls("Duration")
    npd = M.fold_class_const("PyodaConstants", "NANOSECONDS_PER_DAY")
    units = {"from_days": npd, "from_hours": "NANOSECONDS_PER_HOUR", "from_minutes": "NANOSECONDS_PER_MINUTE", "from_seconds": "NANOSECONDS_PER_SECOND",
             "from_milliseconds": "NANOSECONDS_PER_MILLISECOND", "from_ticks": "NANOSECONDS_PER_TICK", "from_nanoseconds": 1}
    for name, u in units.items():
        f = M.find_meta_method(c, name) or M.find_method(c, name)
        unit = M.fold_class_const("PyodaConstants", u) if isinstance(u, str) else u
        if f is None or not isinstance(unit, int):
            continue
        rr.inst()
        bad = None
        per_day = npd // unit
        for amount in (0, 1, -1, 5, -5, per_day, -per_day, per_day + 1, -per_day - 1, -per_day + 1, 3 * per_day + 7, -3 * per_day - 7, -2 * per_day):
            I = interp(ctx)
            I.max_depth = 6
            rets, _ = I.analyse(f, params={f.value_params[0].arg: Iv(amount, amount)})
            rr.states += 1
            pairs = set()
            for v, _x in rets:
                fl = getattr(v, "fields", None)
                if fl is None:
                    pairs.add(("?", repr(v)[:40]))
                    continue
                d = next((x for k, x in fl.items() if k.endswith("__days")), None)
                n = next((x for k, x in fl.items() if k.endswith("__nano_of_day")), None)
                if isinstance(d, Iv) and isinstance(n, Iv) and d.lo == d.hi and n.lo == n.hi:
                    pairs.add((int(d.lo), int(n.lo)))
                else:
                    pairs.add(("?", f"{d}/{n}"))
            want = divmod(amount * unit, npd)
            if pairs != {want}:
                bad = bad or (amount, sorted(pairs, key=str), want)
        if bad is None:
            rr.ok({"factory": f.qual, "unit_ns": unit})
        else:
            rr.fail(f.qual, f"{name}({bad[0]}) stores (days, nanosecond of day) = {bad[1]}; the exact floor split of {bad[0]} x {unit} ns is {bad[2]}", ctx.loc(f))
    return rr


@rule("C03")
def r03_17_subtraction_is_not_addition_of_the_negation(ctx: Ctx) -> RuleResult:
    """The day range of Duration is asymmetric ([-2^30, 2^30 - 1]: `_MIN_DAYS = ~_MAX_DAYS`), so `min_value` has no negation.
    A subtraction that computes `a + (-b)` raises for b == min_value although `a - b` is representable (`min_value - min_value`
    is zero).  In every subtracting method of a class whose folded range constants are asymmetric, an operand of that class is
    never negated (unary minus, `.__neg__()`, `negate(...)`)."""
    rr = RuleResult("R03.17", "subtraction of range-limited values is computed directly, never as addition of the negated operand (the range is asymmetric: min_value has no negation)", min_instances=3)
    M = ctx.M
    n_cls = 0
    for cname in ("Duration",):
        c = M.cls(cname, required=True)
        lo = M.fold(ast.parse(f"{cname}._MIN_DAYS", mode="eval").body, c, c.mod)
        hi = M.fold(ast.parse(f"{cname}._MAX_DAYS", mode="eval").body, c, c.mod)
        if not (isinstance(lo, int) and isinstance(hi, int)):
            raise AnalysisError(f"{cname}: range constants not folded")
        if lo == -hi:
            continue  # symmetric: negation is total
        n_cls += 1
        users = [c] + [M.cls(x) for x in ("Instant", "_LocalInstant") if M.cls(x) is not None]
        for k in users:
            for f in sorted(k.all_defs, key=lambda g: g.qual):
                if isinstance(f.node, ast.Lambda) or not (f.name in ("__sub__", "__rsub__", "minus", "subtract", "__isub__") or f.name.startswith("_minus")):
                    continue
                typed = {p.arg for p in f.params if p.annotation is not None and unparse(p.annotation).strip("'\"") in (cname, "Self") and p.arg != f.self_name}
                if not typed:
                    continue
                rr.inst()
                bad = None
                for n in own_nodes(f.node):
                    if isinstance(n, ast.UnaryOp) and isinstance(n.op, ast.USub) and isinstance(n.operand, ast.Name) and n.operand.id in typed:
                        bad = n
                    elif isinstance(n, ast.Call) and isinstance(n.func, ast.Attribute) and n.func.attr in ("__neg__", "negate") and (
                        (isinstance(n.func.value, ast.Name) and n.func.value.id in typed) or any(isinstance(a, ast.Name) and a.id in typed for a in n.args)
                    ):
                        bad = n
                if bad is None:
                    rr.ok({"fn": f.qual, "operands": sorted(typed)})
                else:
                    rr.fail(f.qual, f"`{unparse(bad)}`: the {cname} range is [{lo}, {hi}] days, so negating min_value raises; x - {cname}.min_value must not fail when the difference is in range (e.g. min_value - min_value == zero)", ctx.loc(f, bad))
    if n_cls == 0:
        raise AnalysisError("Duration range is symmetric: R03.17 has nothing to decide (re-read the class)")
    return rr


@rule("C03")
def r03_18_float_views_divide_the_exact_total(ctx: Ctx) -> RuleResult:
    """The float-valued unit conversions (total_seconds, total_days...) of a type stored as floor days + nanosecond of day: for a
    negative value the two parts have opposite signs (-1 ns is day -1 + 86_399_999_999_999 ns), so adding the scaled parts in
    floating point cancels catastrophically - `from_nanoseconds(-1).total_seconds` is -1.004e-09.  The exact route is one
    correctly rounded division of the exact integer total (Python's int / int).  In every float-returning accessor of the
    elapsed-time types no float quotient is an operand of an addition or subtraction."""
    rr = RuleResult("R03.18", "float unit conversions are one division of the exact integer total: no float quotient is added to a scaled part (catastrophic cancellation for negative values)", min_instances=6)
    M = ctx.M
    for cname in ("Duration", "Instant", "Offset"):
        c = M.cls(cname, required=True)
        for f in sorted(c.all_defs, key=lambda g: g.qual):
            if isinstance(f.node, ast.Lambda) or f.node.returns is None or unparse(f.node.returns).strip("'\"") != "float":
                continue
            rr.inst()
            bad = None
            for n in own_nodes(f.node):
                if isinstance(n, ast.BinOp) and isinstance(n.op, (ast.Add, ast.Sub)):
                    for side in (n.left, n.right):
                        if any(isinstance(x, ast.BinOp) and isinstance(x.op, ast.Div) for x in ast.walk(side)):
                            bad = n
            if bad is None:
                rr.ok({"accessor": f.qual})
            else:
                rr.fail(f.qual, f"`{unparse(bad)[:110]}` adds a float quotient to the scaled day part: for a value just below zero the parts are -1 day and almost +1 day, and the sum keeps only the rounding error of the quotient (-1 ns gives -1.004e-09 s); divide the exact integer total once", ctx.loc(f, bad))
    return rr


@rule("C03")
def r03_19_total_unit_getter_of_the_duration_patterns(ctx: Ctx) -> RuleResult:
    """The total-unit fields of the Duration patterns (`H` total hours, `M` total minutes, `S` total seconds, the round-trip
    patterns) write |duration| in whole units, computed from the floor-day split.  For negative values the floor day overshoots
    by one EXCEPT for whole days (nanosecond of day 0): the getter is evaluated by the abstract interpreter on exact durations of
    both signs, whole days included, and must return |total nanoseconds| // unit."""
    from ..absint import Iv, Obj
    from ..oblig import interp

    rr = RuleResult("R03.19", "the total-unit getter of the Duration patterns returns |total| // unit for durations of both signs, whole negative days included (evaluated)", min_instances=3)
    M = ctx.M
    c = M.cls("_DurationPatternParser", required=True)
    g = next((x for x in c.all_defs if not isinstance(x.node, ast.Lambda) and x.name.endswith("get_positive_nanosecond_units")), None)
    if g is None or len(g.value_params) != 3:
        raise AnalysisError("_DurationPatternParser.__get_positive_nanosecond_units(duration, nanoseconds_per_unit, units_per_day) not found")
    npd = M.fold_class_const("PyodaConstants", "NANOSECONDS_PER_DAY")
    pd, pu, pn = (p.arg for p in g.value_params)
    for unit_ns in (3_600_000_000_000, 60_000_000_000, 1_000_000_000):
        rr.inst()
        bad = None
        und = None
        for total in (0, 1, -1, unit_ns, -unit_ns, unit_ns + 1, -unit_ns - 1, npd, -npd, 2 * npd, -2 * npd, npd - 1, -npd + 1, -npd - 1, 3 * npd + 5 * unit_ns + 7, -3 * npd - 5 * unit_ns - 7, -(1 << 30) * npd):
            d, n = divmod(total, npd)
            I = interp(ctx)
            I.max_depth = 5
            dur = Obj("Duration", {mangle("Duration", "__days"): Iv(d, d), mangle("Duration", "__nano_of_day"): Iv(n, n)})
            rets, _ = I.analyse(g, params={pd: dur, pu: Iv(unit_ns, unit_ns), pn: Iv(npd // unit_ns, npd // unit_ns)})
            rr.states += 1
            vals = [v for v, _s in rets]
            if vals and all(isinstance(v, Iv) and v.const for v in vals) and len({int(v.lo) for v in vals}) == 1:
                got = int(vals[0].lo)
                if got != abs(total) // unit_ns:
                    bad = bad or (total, got)
            else:
                und = und if und is not None else total
        if bad is not None:
            rr.fail(g.qual, f"a duration of {bad[0]} ns gives {bad[1]} units of {unit_ns} ns, not {abs(bad[0]) // unit_ns}: the text written for it (and the value parsed back) is another duration", ctx.loc(g))
        elif und is not None:
            rr.undecided.append(f"{g.qual}: not evaluated exactly for {und} ns")
            rr.ok()
        else:
            rr.ok({"unit_ns": unit_ns, "durations evaluated": 17})
    return rr
