"""C13 - Results do not depend on call history or on concurrent use (cache-validity and publication discipline)."""
from __future__ import annotations

import ast

from ..calendars import calculator_instances
from ..core import Ctx, RuleResult, rule
from ..kit import inside, lock_regions, own_nodes, stores_in
from ..locks import check_lockset, check_reentrancy
from ..model import UNKNOWN, AnalysisError, mangle, unparse


def _k(ctx: Ctx, cls: str, name: str) -> int:
    v = ctx.M.fold_class_const(cls, mangle(cls, name))
    if v is UNKNOWN or not isinstance(v, int):
        raise AnalysisError(f"{cls}.{name} not foldable")
    return v


@rule("C13")
def r13_1_year_cache_keys(ctx: Ctx) -> RuleResult:
    rr = RuleResult("R13.1", "year-start cache: (index, validator) determines the year over every calculator's span; invalid marker is unreachable; each use validates the slot for the key it indexed with", min_instances=22)
    M = ctx.M
    ib, vb = _k(ctx, "_YearStartCacheEntry", "__CACHE_INDEX_BITS"), _k(ctx, "_YearStartCacheEntry", "__ENTRY_VALIDATION_BITS")
    imask, vmask = _k(ctx, "_YearStartCacheEntry", "__CACHE_INDEX_MASK"), _k(ctx, "_YearStartCacheEntry", "__ENTRY_VALIDATION_MASK")
    inv_year = M.fold_class_const("_YearStartCacheEntry", "_INVALID_ENTRY_YEAR")
    rr.inst()
    probs = []
    if imask != (1 << ib) - 1:
        probs.append(f"index mask {imask} != 2^{ib}-1")
    if vmask != (1 << vb) - 1:
        probs.append(f"validation mask {vmask} != 2^{vb}-1")
    # decoders use the same constants
    c = M.cls("_YearStartCacheEntry")
    gv, gi = M.find_method(c, mangle(c.name, "__get_validator")), M.find_method(c, "_get_cache_index")
    if gv is None or gi is None:
        raise AnalysisError("_YearStartCacheEntry helpers missing")
    # (index, validator) must tell apart every pair of years a calculator can ask about: decided by evaluating the two helpers'
    # return expressions (tiny integer evaluator, class constants folded) for every year of the widest span - whatever their form
    from ..kit import eval_int_expr

    def ret_expr(g):
        rets = [n.value for n in own_nodes(g.node) if isinstance(n, ast.Return) and n.value is not None]
        body = [st for st in g.body if not (isinstance(st, ast.Expr) and isinstance(st.value, ast.Constant))]
        return rets[0] if len(rets) == 1 and len(body) == 1 else None

    ev_, ei_ = ret_expr(gv), ret_expr(gi)
    insts = calculator_instances(ctx)
    lo_all, hi_all = min(ci.min_year for ci in insts) - 1, max(ci.max_year for ci in insts) + 1
    if ev_ is None or ei_ is None:
        probs.append("validator / index helper is not a single return expression (not evaluated)")
    else:
        fold = lambda x: M.fold(x, c, c.mod)  # noqa: E731
        seen: dict[tuple[int, int], list[int]] = {}
        pv, pi = gv.value_params[0].arg, gi.value_params[0].arg
        for y in range(lo_all, hi_all + 1):
            v, i = eval_int_expr(ev_, {pv: y}, fold), eval_int_expr(ei_, {pi: y}, fold)
            if v is None or i is None:
                probs.append(f"helper expression not evaluable for year {y}: {unparse(ev_)} / {unparse(ei_)}")
                break
            if not (0 <= v <= vmask and 0 <= i <= imask):
                probs.append(f"year {y}: validator {v} / index {i} outside their {vb}- and {ib}-bit fields")
                break
            seen.setdefault((i, v), []).append(y)
        else:
            for (i, v), ys in seen.items():
                if len(ys) < 2:
                    continue
                for ci in insts:
                    inside_span = [y for y in ys if ci.min_year - 1 <= y <= ci.max_year + 1]
                    if len(inside_span) >= 2:
                        probs.append(f"years {inside_span[0]} and {inside_span[1]} of {ci.label} share cache index {i} and validator {v}: an entry cached for one is trusted for the other")
                        break
                if probs:
                    break
        rr.states += hi_all - lo_all + 1
    if probs:
        rr.fail(c.qual, "; ".join(probs), c.mod.rel)
    else:
        rr.ok({"index_bits": ib, "validation_bits": vb, "invalid_year": inv_year})
    span_bits = ib + vb
    inv_validator = (inv_year >> ib) & vmask
    for ci in calculator_instances(ctx):
        rr.inst()
        lo, hi = ci.min_year - 1, ci.max_year + 1
        validators = {(y >> ib) & vmask for y in (lo, hi)} | {(y >> ib) & vmask for y in range(lo, hi + 1, 1 << ib)}
        if hi - lo + 1 > (1 << span_bits):
            rr.fail(ci.label, f"year span [{lo}, {hi}] is wider than 2^{span_bits}: two years share (index, validator)", "")
        elif inv_validator in validators or lo <= inv_year <= hi:
            rr.fail(ci.label, f"the invalid-entry marker (year {inv_year}, validator {inv_validator}) collides with a real year of [{lo}, {hi}]", "")
        else:
            rr.ok({"calculator": ci.label, "span": [lo, hi], "validators": len(validators)})
    # users: index key == validation key == stored key, slot read once
    users = [M.func("_YearMonthDayCalculator._get_start_of_year_in_days"), M.func("_HebrewScripturalCalculator.__get_or_populate_cache"), M.func("_HebrewScripturalCalculator.__compute_cache_entry")]
    for f in users:
        rr.inst()
        idx_keys, val_keys, new_keys, slot_reads, slot_writes = [], [], [], 0, 0
        for n in own_nodes(f.node):
            if isinstance(n, ast.Call):
                u = unparse(n.func)
                if u.endswith("_get_cache_index") and n.args:
                    idx_keys.append(unparse(n.args[0]))
                elif u.endswith("_is_valid_for_year") and n.args:
                    val_keys.append(unparse(n.args[0]))
                elif u == "_YearStartCacheEntry" and n.args:
                    new_keys.append(unparse(n.args[0]))
            if isinstance(n, ast.Subscript) and ("year_cache" in unparse(n.value).lower()):
                if isinstance(n.ctx, ast.Load):
                    slot_reads += 1
                else:
                    slot_writes += 1
        keys = set(idx_keys) | set(val_keys) | set(new_keys)
        if not idx_keys or not val_keys:
            rr.fail(f.qual, "cache use not recognised (no index/validation pair)", ctx.loc(f))
        elif len(keys) != 1:
            rr.fail(f.qual, f"the slot is indexed with {sorted(set(idx_keys))} but validated for {sorted(set(val_keys))}" + (f" and filled for {sorted(set(new_keys))}" if new_keys else "") + ": a stale entry of a colliding year is trusted", ctx.loc(f))
        elif slot_reads != 1:
            rr.fail(f.qual, f"the shared slot is read {slot_reads} times (must be read once into a local and only the local used)", ctx.loc(f))
        else:
            rr.ok({"user": f.qual, "key": sorted(keys)[0], "slot_reads": slot_reads, "slot_writes": slot_writes})
    return rr


@rule("C13")
def r13_2_zone_interval_cache(ctx: Ctx) -> RuleResult:
    rr = RuleResult("R13.2", "zone-interval cache: node trusted only for the exact period; node covers the whole period (loop to the period end); lookup walks the chain to the containing interval", min_instances=5)
    M = ctx.M
    f = M.func("_CachingZoneIntervalMap.__HashArrayCache.get_zone_interval")
    SHIFT = M.fold(ast.parse("_PERIOD_SHIFT", mode="eval").body, None, f.mod)
    if not isinstance(SHIFT, int):
        raise AnalysisError("_PERIOD_SHIFT not foldable")
    rr.inst()
    # the lookup may be split over private helpers of the same class: look at get_zone_interval together with the
    # same-object methods it (transitively) calls
    from ..locks import reach_same_object

    parts = [h for h, _ in reach_same_object(ctx, f).values() if not isinstance(h.node, ast.Lambda)]
    nodes = [n for h in parts for n in ast.walk(h.node)]
    probs = []
    shifted = {t.id for n in nodes if isinstance(n, ast.Assign) and isinstance(n.value, ast.BinOp) and isinstance(n.value.op, ast.RShift) and unparse(n.value.right) == "_PERIOD_SHIFT" and unparse(n.value.left).endswith("_days_since_epoch") for t in n.targets if isinstance(t, ast.Name)}
    if not shifted:
        probs.append("period is not days_since_epoch >> _PERIOD_SHIFT")
    # names carrying the exact period: the shifted variable, and helper parameters bound to it at a self-call
    exact = set(shifted)
    for h in parts:
        for n in ast.walk(h.node):
            if isinstance(n, ast.Call) and isinstance(n.func, ast.Attribute) and isinstance(n.func.value, ast.Name) and n.func.value.id == (h.self_name or "self"):
                callee = next((k for k in parts if k.cls is h.cls and mangle(h.cls.name, n.func.attr) in (k.name, mangle(k.cls.name, k.name))), None) if h.cls else None
                if callee is not None:
                    for a, p in zip(n.args, callee.value_params):
                        if isinstance(a, ast.Name) and a.id in exact:
                            exact.add(p.arg)
    # the node is trusted exactly on the paths that do not (re)populate the slot: there the facts must include
    # `<node>._period == <exact period>` - however the test is spelt (negated, De Morgan, hit-first or miss-first)
    from ..exc import atoms

    def has_eq(facts) -> bool:
        for a, op, b in facts:
            if op == "==":
                for x, y in ((a, b), (b, a)):
                    if x.endswith("._period") and y in exact:
                        return True
        return False

    cmp_ok = False
    for n in nodes:
        if isinstance(n, ast.If):
            fills = any(isinstance(x, ast.Assign) and any(isinstance(t, ast.Subscript) and "cache" in unparse(t.value).lower() for t in x.targets) for b in n.body for x in ast.walk(b))
            fills_else = any(isinstance(x, ast.Assign) and any(isinstance(t, ast.Subscript) and "cache" in unparse(t.value).lower() for t in x.targets) for b in n.orelse for x in ast.walk(b))
            if fills and has_eq(atoms(n.test, False)):
                cmp_ok = True
            if (fills_else or (not fills and any(isinstance(x, ast.Return) for b in n.body for x in ast.walk(b)))) and has_eq(atoms(n.test, True)):
                cmp_ok = True
    if not cmp_ok:
        probs.append("the cached node is not compared with the exact (unmasked) period")
    reads = sum(1 for n in nodes if isinstance(n, ast.Subscript) and isinstance(n.ctx, ast.Load) and "instant_cache" in unparse(n.value))
    if reads != 1:
        probs.append(f"the shared slot is read {reads} times")
    if probs:
        rr.fail(f.qual, "; ".join(probs), ctx.loc(f))
    else:
        rr.ok({"fn": f.qual, "period_check": "exact", "slot_reads": 1, "functions": [h.qual for h in parts]})
    g = M.func("_CachingZoneIntervalMap.__HashArrayCache._HashCacheNode._create_node")
    from ..absint import State
    from ..oblig import interp

    I = interp(ctx)
    # bound of the chain-building loop relative to the period start, as linear forms
    rr.inst()
    loops = [n for n in own_nodes(g.node) if isinstance(n, ast.While)]
    ifs_extending = [n for n in own_nodes(g.node) if isinstance(n, ast.If) and "get_zone_interval" in unparse(n)]
    if len(loops) != 1 or ifs_extending:
        rr.fail(g.qual, "the node chain is not extended by a single loop that runs until the interval reaches the end of the period (a period with several transitions would be cut short)", ctx.loc(g))
    else:
        w = loops[0]
        t = w.test
        good = isinstance(t, ast.Compare) and len(t.ops) == 1 and isinstance(t.ops[0], ast.Lt) and unparse(t.left).endswith("_raw_end._days_since_epoch") and not any(isinstance(x, ast.Break) for x in ast.walk(w))
        if not good:
            rr.fail(g.qual, f"loop condition `{unparse(t)}` is not `interval._raw_end._days_since_epoch < <start of next period>`", ctx.loc(g, w))
        else:
            bound = unparse(t.comparators[0])
            # evaluate  bound - days  symbolically
            defs = {n.targets[0].id: n.value for n in own_nodes(g.node) if isinstance(n, ast.Assign) and isinstance(n.targets[0], ast.Name)}
            st = State({"period": __import__("sa.absint", fromlist=["TOPINT"]).TOPINT})
            lin_days = I.lin(I.term(defs.get("days"), st, g)) if "days" in defs else None
            # substitute: term of bound with `days` kept symbolic
            st2 = State({"days": __import__("sa.absint", fromlist=["TOPINT"]).TOPINT})
            lb = I.lin(I.term(defs.get(bound, t.comparators[0]), st2, g))
            want = 1 << SHIFT
            shift_ok = "days" in defs and unparse(defs["days"]).replace(" ", "") in ("period<<_PERIOD_SHIFT",)
            if lb is None or lb[1] != {("v", "days"): 1} or lb[0] != want or not shift_ok:
                rr.fail(g.qual, f"the loop bound `{bound}` is {lb} relative to the period start; a period is {want} days (days = period << {SHIFT}): intervals near the period end are dropped or overrun", ctx.loc(g, w))
            else:
                rr.ok({"fn": g.qual, "loop_until": f"days + {want}"})
    # lookup: a period can hold several intervals, chained newest-first through `_previous`; the lookup has to walk the chain
    # *until* the interval starts at or before the instant (or the chain ends) - a loop, whose exit condition gives exactly that
    rr.inst()
    walk = None
    for h in parts:
        for n in ast.walk(h.node):
            if isinstance(n, ast.Return) and n.value is not None and unparse(n.value).endswith("._interval"):
                blk = getattr(getattr(n, "_parent", None), "body", [])
                if n in blk and blk.index(n) > 0:
                    walk = (h, blk[blk.index(n) - 1], n)
    if walk is None:
        rr.fail(f.qual, "the lookup does not return `<node>._interval` after a chain walk", ctx.loc(f))
    else:
        h, prev, ret = walk
        ok_loop = isinstance(prev, ast.While) and "_previous" in unparse(prev.test) and "_raw_start" in unparse(prev.test) and not any(isinstance(x, ast.Break) for x in ast.walk(prev))
        if ok_loop:
            from ..exc import atoms as _atoms

            # on exit the test is false: either no previous node, or raw_start <= instant
            t = prev.test
            conj = t.values if isinstance(t, ast.BoolOp) and isinstance(t.op, ast.And) else [t]
            has_cmp = any(any(op in (">",) and "_raw_start" in a for a, op, b_ in _atoms(v, True)) or any(op in ("<",) and "_raw_start" in b_ for a, op, b_ in _atoms(v, True)) for v in conj)
            ok_loop = has_cmp
        if ok_loop:
            rr.ok({"fn": h.qual, "walk": unparse(prev.test)[:80]})
        else:
            rr.fail(h.qual, f"the chain of intervals inside a period is not walked by a loop up to the interval containing the instant (`{unparse(prev)[:70]}`): with two transitions in one 32-day period the newer interval is returned for an instant before it", ctx.loc(h, prev))
    # node immutability: fields written only in the private constructor
    nc = M.cls("_CachingZoneIntervalMap.__HashArrayCache._HashCacheNode")
    rr.inst()
    bad = [s for h in nc.all_defs for s in stores_in(h) if s.target.startswith("self.") and h.name.strip("_") != "ctor"]
    if bad:
        rr.fail(nc.qual, f"cache node is mutated after construction: {bad[0].target} in {bad[0].fn.qual}", ctx.loc(bad[0].fn, bad[0].node))
    else:
        rr.ok({"node": nc.qual, "immutable": True})
    # the cached zone wraps the map built over its own zone
    h = M.func("_CachedDateTimeZone.get_zone_interval")
    rr.inst()
    if "self.__map.get_zone_interval(instant)" in unparse(h.node).replace("_CachedDateTimeZone", ""):
        rr.ok({"fn": h.qual, "delegates": "self.__map.get_zone_interval(instant)"})
    else:
        rr.fail(h.qual, "does not delegate to its own caching map with the same instant", ctx.loc(h))
    return rr


@rule("C13")
def r13_3_cache_lockset(ctx: Ctx) -> RuleResult:
    rr = RuleResult("R13.3", "_Cache: every access to the dictionary / key list is under its lock; no re-entrant acquisition", min_instances=8)
    c = ctx.M.cls("_Cache")
    check_lockset(ctx, c, mangle("_Cache", "__lock"), {mangle("_Cache", "__dictionary"), mangle("_Cache", "__key_list")}, rr)
    check_reentrancy(ctx, c, rr)
    return rr


def _double_checked(f) -> str | None:
    """unlocked test -> lock -> re-test -> store.  Returns None when the idiom is followed, else a reason."""
    body = f.body
    outer = [s for s in body if isinstance(s, ast.If)]
    if not outer:
        return "no unlocked fast-path test"
    o = outer[0]
    withs = [s for s in o.body if isinstance(s, ast.With)]
    if not withs:
        return "the store is not under a lock"
    inner = [s for s in withs[0].body if isinstance(s, ast.If)]
    if not inner:
        return "no re-test under the lock (two racing threads would both create)"
    if unparse(inner[0].test) != unparse(o.test):
        return f"the locked re-test `{unparse(inner[0].test)}` differs from the unlocked test `{unparse(o.test)}`"
    if not any(isinstance(x, (ast.Assign, ast.AnnAssign)) for x in ast.walk(inner[0])):
        return "no store inside the locked re-test"
    return None


@rule("C13")
def r13_4_publication(ctx: Ctx) -> RuleResult:
    rr = RuleResult("R13.4", "lazy singletons use double-checked locking; identity-bearing registries publish under a lock", min_instances=5)
    M = ctx.M
    for q in ("_DateTimeZoneMeta.utc", "__DateTimeZoneProvidersMeta.tzdb", "__SystemClockMeta.instance"):
        f = M.func(q)
        rr.inst()
        why = _double_checked(f)
        if why is None:
            rr.ok({"singleton": q, "idiom": "double-checked locking"})
        else:
            rr.fail(q, why, ctx.loc(f))
    # registries whose stored object is also handed back to the caller: the loser of a race must not leak a second identity
    for q, fld in (("DateTimeZoneCache.__get_zone_from_source_or_none", "time_zone_map"), ("CalendarSystem.__ctor", "CALENDAR_BY_ORDINAL")):
        f = M.func(q)
        rr.inst()
        regs = lock_regions(f)
        stores = [n for n in own_nodes(f.node) if isinstance(n, ast.Assign) and isinstance(n.targets[0], ast.Subscript) and fld in unparse(n.targets[0].value)]
        atomic = [n for n in own_nodes(f.node) if isinstance(n, ast.Call) and isinstance(n.func, ast.Attribute) and n.func.attr == "setdefault" and fld in unparse(n.func.value)]
        if atomic and not stores:
            # atomic publication: the registered object (result of setdefault) must be what callers receive
            a = atomic[0]
            par = getattr(a, "_parent", None)
            if isinstance(par, ast.Return):
                rr.ok({"registry": q, "publication": "dict.setdefault (atomic), registered instance returned"})
            else:
                rr.fail(q, f"`{unparse(a)[:80]}` publishes atomically but its result (the registered instance) is not what is returned", ctx.loc(f, a))
            continue
        if not stores:
            raise AnalysisError(f"{q}: registry store into {fld} not found")
        st = stores[0]
        stored = unparse(st.value)
        returned = any(isinstance(n, ast.Return) and n.value is not None and unparse(n.value) == stored for n in own_nodes(f.node))
        locked = any(inside(st, r.node) for r in regs)
        # the emptiness test that decides to create must be inside the *same* locked region as the store (check-then-act
        # split over two regions lets two callers both see "absent" and both create)
        gets = [n for n in own_nodes(f.node) if isinstance(n, ast.Call) and isinstance(n.func, ast.Attribute) and n.func.attr == "get" and fld in unparse(n.func.value)]
        tests_locked = any(inside(st, r.node) and all(inside(g, r.node) for g in gets) for r in regs)
        if returned and not (locked and tests_locked):
            rr.fail(q, f"check-then-act on the shared registry `{fld}` without a lock: two racing callers each create `{stored}` and the loser's object is returned although another one is registered (lookups stop returning one identity)", ctx.loc(f, st))
        else:
            rr.ok({"registry": q, "locked": locked})
    return rr


@rule("C13")
def r13_5_lazy_slots(ctx: Ctx) -> RuleResult:
    from ..memo import lazy_slots

    rr = RuleResult("R13.5", "lazily filled slots: the slot tested for None is the slot that is filled (no lazy getter overwrites a sibling's slot)", min_instances=60)
    for ls in lazy_slots(ctx.M):
        rr.inst()
        if ls.problem:
            rr.fail(ls.fn.qual, ls.problem, ctx.loc(ls.fn, ls.node))
        else:
            rr.ok({"getter": ls.fn.qual, "slot": ls.slot})
    return rr


@rule("C13")
def r13_6_memo_keys(ctx: Ctx) -> RuleResult:
    from ..memo import memo_tables

    rr = RuleResult("R13.6", "memo tables: the key read is the key filled, and it mentions every data parameter the stored value depends on", min_instances=12)
    for mt in memo_tables(ctx.M):
        rr.inst(nontrivial=mt.table != "functools.cache")
        if mt.problem:
            rr.fail(mt.fn.qual, mt.problem, ctx.loc(mt.fn, mt.node))
        else:
            rr.ok({"memo": mt.fn.qual, "table": mt.table, "key": mt.store_key, "value depends on": sorted(mt.deps)})
    return rr


@rule("C13")
def r13_7_mutable_keys(ctx: Ctx) -> RuleResult:
    """A process-wide cache keyed by an object that can still be modified (a culture that is not read-only) returns data computed
    from the key's earlier state: the answer then depends on whether the key was used before it was changed.  Every insertion into
    a `_Cache` (or a memo table) whose key type offers `is_read_only` must be dominated by that test."""
    from ..exc import facts_at
    from ..memo import memo_tables

    rr = RuleResult("R13.7", "shared caches are only filled for keys that can no longer change (key types with `is_read_only` are tested before insertion)", min_instances=1)
    M, R = ctx.M, ctx.R
    sites: list[tuple] = []
    for f in set(M.func_of_node.values()):
        if isinstance(f.node, ast.Lambda) or "_compatibility" in f.mod.rel:
            continue
        for c in own_nodes(f.node):
            if isinstance(c, ast.Call) and isinstance(c.func, ast.Attribute) and c.func.attr == "get_or_add" and c.args:
                tg, how = R.callees(c, f, count=False)
                if any(t.cls is not None and t.cls.name == "_Cache" for t in tg) or "CACHE" in unparse(c.func.value).upper():
                    sites.append((f, c, c.args[0]))
    for mt in memo_tables(M):
        if mt.table != "functools.cache" and "_compatibility" not in mt.fn.mod.rel and isinstance(mt.node, ast.Assign):
            tgt = next((t for t in mt.node.targets if isinstance(t, ast.Subscript)), None)
            if tgt is not None:
                sites.append((mt.fn, mt.node, tgt.slice))
    for f, node, key in sorted(sites, key=lambda x: (x[0].qual, getattr(x[1], "lineno", 0))):
        rr.inst()
        sc = R.scope(f)
        try:
            t = R.type_of(key, sc)
        except Exception:  # noqa: BLE001
            t = None
        ts = t[1] if isinstance(t, tuple) and t[0] == "union" else [t]
        mutable = [x for x in ts if isinstance(x, str) and M.cls(x, required=False) is not None and M.find_method(M.cls(x), "is_read_only") is not None]
        if not mutable:
            rr.ok({"fn": f.qual, "key": unparse(key)[:50], "key type": [x for x in ts if isinstance(x, str)] or "immutable / not a repo class"})
            continue
        k = unparse(key)
        if (f"{k}.is_read_only", "truthy", "") in facts_at(node):
            rr.ok({"fn": f.qual, "key": k, "guard": f"{k}.is_read_only"})
        else:
            rr.fail(f.qual, f"inserts into a shared cache under key `{k}` ({'/'.join(mutable)}) without first excluding keys that are not read-only: a culture modified after its first use keeps getting the stale entry", ctx.loc(f, node))
    return rr


@rule("C13")
def r13_8_lazy_fills_read_no_settable_state(ctx: Ctx) -> RuleResult:
    """A lazily filled slot is computed once and served forever.  That is only history-independent if what it is computed from
    cannot change: a fill expression that reads a property for which the package defines a *setter* (mutable configuration such
    as the default culture of new threads) freezes whatever the setting was when the first caller happened to ask."""
    from ..memo import lazy_fills, settable_properties

    rr = RuleResult("R13.8", "lazily filled slots are computed from state that has no setter (nothing settable of another object is frozen into a cache)", min_instances=60)
    settable = settable_properties(ctx.M)
    rr.notes.append(f"properties with setters: {sorted(settable)}")
    for f, node, slot, vals in lazy_fills(ctx.M):
        rr.inst()
        hit = None
        for v in vals:
            for a in ast.walk(v):
                if isinstance(a, ast.Attribute) and a.attr in settable and isinstance(a.ctx, ast.Load):
                    # a settable property of the *same object* that owns the slot is that object's own business (its setter
                    # resets the dependent slots); state of another object / of the class is what gets frozen
                    owner = slot.split(".")[0].replace("getattr(", "")
                    if isinstance(a.value, ast.Name) and a.value.id == owner and not slot.startswith("getattr("):
                        continue
                    hit = a
        if hit is not None:
            rr.fail(f.qual, f"the lazily cached `{slot}` is computed from `{unparse(hit)}`, a settable property: the first reader's value is kept although the setting can change afterwards", ctx.loc(f, node))
        else:
            rr.ok()
    return rr


@rule("C13")
def r13_9_instance_caches_are_private(ctx: Ctx) -> RuleResult:
    """A mutable cache held in an instance field (a field whose elements some method assigns: `self.f[k] = v`) is valid for that
    instance's behaviour only.  Its constructor must create it fresh: a cache fetched from a class-level registry (`REG.get(key)`,
    `REG.setdefault(key, ...)`, `REG[key]`) is shared by every instance that maps to the same key, and entries written through one
    instance are trusted by another whose computation differs in something the key leaves out."""
    rr = RuleResult("R13.9", "mutable caches stored in instance fields are created fresh by the constructor, never handed out from a class-level registry", min_instances=3)
    M = ctx.M
    for c in sorted(M.all_classes(), key=lambda x: x.qual):
        if "_compatibility" in c.mod.rel:
            continue
        mutated: set[str] = set()
        for f in c.all_defs:
            if isinstance(f.node, ast.Lambda) or f.self_name is None:
                continue
            for n in own_nodes(f.node):
                if isinstance(n, ast.Assign):
                    for t in n.targets:
                        if isinstance(t, ast.Subscript) and isinstance(t.value, ast.Attribute) and isinstance(t.value.value, ast.Name) and t.value.value.id == f.self_name:
                            mutated.add(mangle(c.name, t.value.attr))
        if not mutated:
            continue
        for f in c.all_defs:
            if isinstance(f.node, ast.Lambda) or f.name not in ("__init__", "_ctor") and not f.name.endswith("__ctor"):
                continue
            selfs = {f.self_name} if f.self_name else set()
            selfs |= {n.targets[0].id for n in own_nodes(f.node) if isinstance(n, ast.Assign) and isinstance(n.targets[0], ast.Name) and isinstance(n.value, ast.Call) and "__new__" in unparse(n.value.func)}
            for n in own_nodes(f.node):
                tg = n.targets if isinstance(n, ast.Assign) else [n.target] if isinstance(n, ast.AnnAssign) and n.value is not None else []
                for t in tg:
                    if isinstance(t, ast.Attribute) and isinstance(t.value, ast.Name) and t.value.id in selfs and mangle(c.name, t.attr) in mutated:
                        rr.inst()
                        from ..kit import inline_locals

                        srcs = [n.value]
                        if isinstance(n.value, ast.Name):
                            # every value the local was given (walrus / setdefault chains)
                            for m in own_nodes(f.node):
                                if isinstance(m, ast.NamedExpr) and m.target.id == n.value.id:
                                    srcs.append(m.value)
                                if isinstance(m, (ast.Assign, ast.AnnAssign)) and getattr(m, "value", None) is not None and any(isinstance(x, ast.Name) and x.id == n.value.id for x in (m.targets if isinstance(m, ast.Assign) else [m.target])):
                                    srcs.append(m.value)
                        shared = None
                        for v in srcs:
                            for x in ast.walk(v):
                                if isinstance(x, ast.Call) and isinstance(x.func, ast.Attribute) and x.func.attr in ("get", "setdefault") and isinstance(x.func.value, ast.Attribute) and isinstance(x.func.value.value, ast.Name) and x.func.value.value.id in selfs | {"cls", c.name} and x.func.value.attr.lstrip("_").isupper():
                                    shared = x
                                if isinstance(x, ast.Subscript) and isinstance(x.value, ast.Attribute) and x.value.attr.lstrip("_").replace(c.name + "__", "").isupper() and isinstance(x.ctx, ast.Load):
                                    shared = shared or x
                        if shared is not None:
                            rr.fail(f.qual, f"the instance cache `{unparse(t)}` is taken from the class-level registry `{unparse(shared)[:60]}`: instances that share the registry key share (and trust) each other's entries", ctx.loc(f, n))
                        else:
                            rr.ok({"class": c.qual, "cache": t.attr})
    return rr


# ------------------------------------------------------------------------------------------- R13.10 cache slot keys


@rule("C13")
def r13_10_cache_slot_is_validated_for_its_own_key(ctx: Ctx) -> RuleResult:
    """Direct-mapped year caches: a slot is found with `_get_cache_index(K)`, and what is in it belongs to year K only if
    `entry._is_valid_for_year(K)` says so; a fresh entry is stored as `_YearStartCacheEntry(K, ...)`.  All three K must be the same
    expression within a function, otherwise a value computed for one year is used (or stored) for another - visible only when
    two years that share a slot are touched in a particular order."""
    rr = RuleResult("R13.10", "year-cache slots are looked up, validated and refilled with the same key expression (index(K), is_valid_for_year(K), Entry(K, ...))", min_instances=4)
    M = ctx.M
    for f in sorted(set(M.func_of_node.values()), key=lambda x: x.qual):
        if isinstance(f.node, ast.Lambda):
            continue
        idx_key: dict[str, str] = {}
        entry_idx: dict[str, str] = {}
        nodes = list(own_nodes(f.node))
        for n in nodes:
            if isinstance(n, (ast.Assign, ast.AnnAssign)) and n.value is not None:
                tg = n.targets[0] if isinstance(n, ast.Assign) else n.target
                if isinstance(tg, ast.Name) and isinstance(n.value, ast.Call) and isinstance(n.value.func, ast.Attribute) and n.value.func.attr == "_get_cache_index" and n.value.args:
                    idx_key[tg.id] = unparse(n.value.args[0])
        if not idx_key:
            continue
        for n in nodes:
            if isinstance(n, (ast.Assign, ast.AnnAssign)) and n.value is not None:
                tg = n.targets[0] if isinstance(n, ast.Assign) else n.target
                if isinstance(tg, ast.Name) and isinstance(n.value, ast.Subscript) and isinstance(n.value.slice, ast.Name) and n.value.slice.id in idx_key:
                    entry_idx.setdefault(tg.id, n.value.slice.id)
        for n in nodes:
            # validation
            if isinstance(n, ast.Call) and isinstance(n.func, ast.Attribute) and n.func.attr == "_is_valid_for_year" and n.args and isinstance(n.func.value, ast.Name) and n.func.value.id in entry_idx:
                rr.inst()
                k1 = idx_key[entry_idx[n.func.value.id]]
                k2 = unparse(n.args[0])
                if k1 == k2:
                    rr.ok({"function": f.qual, "key": k1})
                else:
                    rr.fail(f.qual, f"the slot was looked up for `{k1}` but is validated for `{k2}`: an entry that belongs to `{k2}` is taken for `{k1}`'s", ctx.loc(f, n))
            # refill
            if isinstance(n, ast.Assign) and isinstance(n.targets[0], ast.Subscript) and isinstance(n.targets[0].slice, ast.Name) and n.targets[0].slice.id in idx_key:
                v = n.value
                if isinstance(v, ast.Name):
                    d = next((s.value for s in nodes if isinstance(s, (ast.Assign, ast.AnnAssign)) and s.value is not None and isinstance((s.targets[0] if isinstance(s, ast.Assign) else s.target), ast.Name) and (s.targets[0] if isinstance(s, ast.Assign) else s.target).id == v.id and isinstance(s.value, ast.Call) and "CacheEntry" in unparse(s.value.func)), None)
                    v = d if d is not None else v
                if isinstance(v, ast.Call) and "CacheEntry" in unparse(v.func) and v.args:
                    rr.inst()
                    k1 = idx_key[n.targets[0].slice.id]
                    k3 = unparse(v.args[0])
                    if k1 == k3:
                        rr.ok({"function": f.qual, "stored for": k3})
                    else:
                        rr.fail(f.qual, f"the slot of `{k1}` is refilled with an entry made for `{k3}`", ctx.loc(f, n))
    return rr


# ------------------------------------------------------------------------------------------- R13.11 derived caches and setters


# settable properties whose setter is an acknowledged stub: (class, property) -> reason
DERIVED_CACHE_REVIEWED = {
    ("DateTimeFormatInfo", "calendar"): "compatibility layer: the calendar setter is marked TODO in the source ('a bunch of other stuff happens here' in .NET: every per-calendar cache is re-read); the per-calendar culture data comes from ICU, which only exists for the invariant culture here (identical for every calendar id), so no difference is observable and the layer is not claimed",
}


@rule("C13")
def r13_11_setters_invalidate_derived_caches(ctx: Ctx) -> RuleResult:
    """A lazily filled slot whose fill expression reads settable properties of the same object is a cache of a *derived* value:
    `full_date_time_pattern = long_date_pattern + " " + long_time_pattern`.  Each of those setters must reset the slot (directly
    or through the same-object handler it calls), otherwise what a getter returns after a set depends on whether it was ever
    called before the set - the answer depends on call history."""
    rr = RuleResult("R13.11", "every lazily filled slot derived from settable properties of the same object is reset by each of those properties' setters", min_instances=2)
    M = ctx.M
    for lst in M.classes.values():
        for c in lst:
            if not c.mod.rel.startswith("pyoda_time/") or not c.setters:
                continue
            for g in c.methods.values():
                if isinstance(g.node, ast.Lambda) or g.kind != "property":
                    continue
                # if self.__S is None: self.__S = EXPR
                for n in own_nodes(g.node):
                    if not (isinstance(n, ast.If) and isinstance(n.test, ast.Compare) and len(n.test.ops) == 1 and isinstance(n.test.ops[0], ast.Is) and isinstance(n.test.left, ast.Attribute) and isinstance(n.test.comparators[0], ast.Constant) and n.test.comparators[0].value is None):
                        continue
                    slot = n.test.left.attr
                    fills = [s for s in n.body if isinstance(s, ast.Assign) and any(isinstance(t, ast.Attribute) and t.attr == slot for t in s.targets)]
                    if not fills:
                        continue
                    reads = {x.attr for x in ast.walk(fills[0].value) if isinstance(x, ast.Attribute) and isinstance(x.value, ast.Name) and x.value.id == "self" and x.attr in c.setters and x.attr != g.name}
                    for p in sorted(reads):
                        rr.inst()
                        if (c.name, p) in DERIVED_CACHE_REVIEWED:
                            rr.ok({"slot": f"{c.name}.{slot}", "derived from": p, "reviewed": DERIVED_CACHE_REVIEWED[(c.name, p)][:80]})
                            continue
                        setter = c.setters[p]
                        # the setter and the same-object methods it calls (two levels)
                        work, seen = [setter], set()
                        resets = False
                        while work:
                            h = work.pop()
                            if id(h) in seen or isinstance(h.node, ast.Lambda):
                                continue
                            seen.add(id(h))
                            for x in own_nodes(h.node):
                                if isinstance(x, ast.Assign) and isinstance(x.value, ast.Constant) and x.value.value is None and any(isinstance(t, ast.Attribute) and t.attr == slot for t in x.targets):
                                    resets = True
                                if isinstance(x, ast.Call) and isinstance(x.func, ast.Attribute) and isinstance(x.func.value, ast.Name) and x.func.value.id == "self" and len(seen) < 6:
                                    k = M.find_method(c, mangle(c.name, x.func.attr)) or M.find_method(c, x.func.attr)
                                    if k is not None:
                                        work.append(k)
                        if resets:
                            rr.ok({"slot": f"{c.name}.{slot}", "derived from": p})
                        else:
                            rr.fail(setter.qual, f"`{slot}` caches a value derived from `{p}` ({unparse(fills[0].value)[:60]}) but setting `{p}` does not reset it: a value read before the set is returned afterwards", ctx.loc(setter))
    return rr


# ------------------------------------------------------------------------------------------- R13.12 packed cache words


@rule("C13")
def r13_12_packed_cache_words_are_unpacked(ctx: Ctx) -> RuleResult:
    """The Hebrew year cache stores one word per year: (elapsed days << SHIFT) | flag bits.  A value taken from that cache - through
    __get_or_populate_cache / __compute_cache_entry or directly from an entry's _start_of_year_days - is a packed word and may only
    be shifted, masked, stored back into the cache or returned from one of the packed-word functions.  Using it as a day count
    (which only happens on the path where the neighbouring year is already cached, i.e. depends on the order in which years were
    first touched) gives a year length that is off by orders of magnitude and hence wrong month-length flags."""
    rr = RuleResult("R13.12", "packed (days << SHIFT | flags) cache words of the Hebrew calculator are only shifted, masked, stored or passed on as packed words", min_instances=4)
    M = ctx.M
    c = M.cls("_HebrewScripturalCalculator")
    packed_funcs = {"__get_or_populate_cache", "__compute_cache_entry"}
    # a function produces a packed word if it returns (x << SHIFT) | ... or the result of another packed function
    for g in c.all_defs:
        if isinstance(g.node, ast.Lambda):
            continue
        for n in own_nodes(g.node):
            if isinstance(n, ast.Return) and n.value is not None and any(isinstance(x, ast.BinOp) and isinstance(x.op, ast.LShift) and "SHIFT" in unparse(x.right) for x in ast.walk(n.value)):
                packed_funcs.add(g.name.replace("_HebrewScripturalCalculator", ""))
    packed_funcs = {p if p.startswith("__") else p for p in packed_funcs}

    def is_source(e: ast.AST, packed_locals: set[str]) -> bool:
        if isinstance(e, ast.Attribute) and e.attr == "_start_of_year_days":
            return True
        if isinstance(e, ast.Call) and isinstance(e.func, ast.Attribute) and any(e.func.attr.endswith(p) for p in packed_funcs):
            return True
        return isinstance(e, ast.Name) and isinstance(e.ctx, ast.Load) and e.id in packed_locals

    for g in sorted(c.all_defs, key=lambda x: x.qual):
        if isinstance(g.node, ast.Lambda):
            continue
        gname = g.name.replace("_HebrewScripturalCalculator", "")
        packed_locals: set[str] = set()
        for _ in range(2):
            for n in own_nodes(g.node):
                if isinstance(n, (ast.Assign, ast.AnnAssign)) and n.value is not None:
                    t = n.targets[0] if isinstance(n, ast.Assign) else n.target
                    if isinstance(t, ast.Name) and is_source(n.value, packed_locals):
                        packed_locals.add(t.id)
        for n in own_nodes(g.node):
            if not is_source(n, packed_locals) or isinstance(getattr(n, "ctx", None), ast.Store):
                continue
            par = getattr(n, "_parent", None)
            if isinstance(par, ast.Attribute):
                continue  # receiver of a further attribute access
            if isinstance(par, ast.Call) and par.func is n:
                continue
            rr.inst()
            ok = False
            why = ""
            if isinstance(par, ast.BinOp) and isinstance(par.op, (ast.RShift, ast.BitAnd)) and par.left is n:
                ok, why = True, "shifted / masked"
            elif isinstance(par, ast.Return) and any(gname.endswith(p) for p in packed_funcs):
                ok, why = True, "returned by a packed-word function"
            elif isinstance(par, (ast.Assign, ast.AnnAssign)) and isinstance((par.targets[0] if isinstance(par, ast.Assign) else par.target), ast.Name):
                ok, why = True, "kept in a local (its uses are checked)"
            elif isinstance(par, ast.Call) and "CacheEntry" in unparse(par.func):
                ok, why = True, "stored into the cache"
            if ok:
                rr.ok({"function": g.qual, "word": unparse(n)[:50], "use": why})
            else:
                rr.fail(g.qual, f"`{unparse(par)[:90] if par is not None else unparse(n)}` uses the packed cache word `{unparse(n)[:50]}` as a plain number (it is (days << SHIFT) | flags): reached only when that year is already cached", ctx.loc(g, n))
    return rr


# ------------------------------------------------------------------------------------------- R13.13 parse buckets are per parse


@rule("C13")
def r13_13_bucket_providers_build_fresh_buckets(ctx: Ctx) -> RuleResult:
    """A parse bucket collects the fields of ONE parse; the stepped pattern asks its bucket provider for a new one at the start of
    every parse.  The provider must construct the bucket in its own body (its return value is a constructor call): a provider that
    hands out an object built once per pattern leaks the fields parsed from one text (e.g. a fraction of a second) into the next
    text that does not mention them, and makes the shared pattern objects unsafe under concurrent parses."""
    rr = RuleResult("R13.13", "every bucket provider handed to a stepped pattern builder constructs a fresh bucket on each call", min_instances=5)
    M = ctx.M
    init = M.find_method(M.cls("_SteppedPatternBuilder"), "__init__")
    from ..kit import bind_args

    for f in sorted(set(M.func_of_node.values()), key=lambda x: x.qual):
        if isinstance(f.node, ast.Lambda) or not f.mod.rel.startswith("pyoda_time/text/"):
            continue
        for n in own_nodes(f.node):
            if not (isinstance(n, ast.Call) and unparse(n.func).split("[")[0].endswith("_SteppedPatternBuilder")):
                continue
            b = bind_args(n, init) if init is not None else {}
            prov = b.get("bucket_provider") or (n.args[1] if len(n.args) > 1 else None)
            if prov is None:
                continue
            rr.inst()
            rets: list[ast.expr] = []
            if isinstance(prov, ast.Lambda):
                rets = [prov.body]
            elif isinstance(prov, ast.Name) and prov.id in f.nested:
                g = f.nested[prov.id]
                rets = [r.value for r in own_nodes(g.node) if isinstance(r, ast.Return) and r.value is not None]
            elif isinstance(prov, ast.Name):
                # a provider defined in an enclosing function
                p = f.parent
                while p is not None and prov.id not in p.nested:
                    p = p.parent
                if p is not None:
                    rets = [r.value for r in own_nodes(p.nested[prov.id].node) if isinstance(r, ast.Return) and r.value is not None]
            last = unparse(prov).split(".")[-1]
            if not rets and isinstance(prov, (ast.Name, ast.Attribute)) and M.classes.get(last):
                rr.ok({"builder in": f.qual, "provider": f"the class {last} itself (calling it constructs a bucket)"})
                continue
            if not rets:
                rr.fail(f.qual, f"bucket provider `{unparse(prov)[:60]}` not resolved to a local function or lambda (not decided)", ctx.loc(f, n))
            elif all(isinstance(r, ast.Call) for r in rets):
                # the constructor that is called must itself build a new object: a memoised factory hands out the same bucket
                cached = None
                for r in rets:
                    tg, how = ctx.R.callees(r, f, count=False)
                    for t in (tg if how == "resolved" else []):
                        if any("cache" in d for d in t.decorators):
                            cached = t
                if cached is not None:
                    rr.fail(f.qual, f"the bucket provider calls {cached.qual}, which is memoised ({sorted(cached.decorators)}): every parse with the same template gets the same bucket object", ctx.loc(cached))
                else:
                    rr.ok({"builder in": f.qual, "provider returns": unparse(rets[0])[:60]})
            else:
                bad = next(r for r in rets if not isinstance(r, ast.Call))
                rr.fail(f.qual, f"the bucket provider returns `{unparse(bad)[:60]}`, an object created outside the provider: every parse of the pattern shares it, so fields left by one text are seen by the next", ctx.loc(f, n))
    return rr


# ------------------------------------------------------------------------------------------- R13.14 guard field is published last


def _guarded_group_inits(ctx: Ctx):
    """Functions of the shape `if <obj>.G is not None: return` (fast path, no lock) ... `with <lock>:` re-test, then several attribute
    stores on the same object: yields (function, guard attribute, ordered stores inside the locked block)."""
    for f in sorted(set(ctx.M.func_of_node.values()), key=lambda x: x.qual):
        if isinstance(f.node, ast.Lambda) or not f.mod.rel.startswith("pyoda_time/"):
            continue
        body = f.body
        fast = None
        for s in body:
            if isinstance(s, ast.If) and len(s.body) == 1 and isinstance(s.body[0], ast.Return) and isinstance(s.test, ast.Compare) and len(s.test.ops) == 1 and isinstance(s.test.ops[0], ast.IsNot) \
                    and isinstance(s.test.left, ast.Attribute) and isinstance(s.test.comparators[0], ast.Constant) and s.test.comparators[0].value is None:
                fast = s.test.left
                break
            if isinstance(s, (ast.With,)):
                break
        if fast is None:
            continue
        for s in body:
            if isinstance(s, ast.With):
                stores = []
                for n in ast.walk(s):
                    if isinstance(n, (ast.Assign, ast.AnnAssign)):
                        for t in (n.targets if isinstance(n, ast.Assign) else [n.target]):
                            if isinstance(t, ast.Attribute) and unparse(t.value) == unparse(fast.value):
                                stores.append((t.attr, n))
                if stores:
                    yield f, fast.attr, sorted(stores, key=lambda x: (x[1].lineno, x[1].col_offset))


@rule("C13")
def r13_14_guard_field_is_published_last(ctx: Ctx) -> RuleResult:
    """Double-checked initialisation of a GROUP of fields: the field tested on the lock-free fast path tells readers that the whole
    group is ready, so it must be the last one stored inside the locked block.  If it is stored first, a second thread passes the
    fast-path test while the first is still computing the other fields and reads a field that is still None (or does not exist
    yet): the result depends on the interleaving."""
    rr = RuleResult("R13.14", "double-checked group initialisation stores the field tested on the lock-free fast path after every other field of the group", min_instances=2)
    for f, guard, stores in _guarded_group_inits(ctx):
        rr.inst()
        attrs = [a for a, _ in stores]
        if guard not in attrs:
            rr.fail(f.qual, f"the fast path tests `{guard}` but the locked block never stores it", ctx.loc(f))
        elif attrs[-1] == guard and attrs.count(guard) == 1:
            rr.ok({"function": f.qual, "guard": guard, "group": attrs})
        else:
            later = [a for a in attrs[attrs.index(guard) + 1:] if a != guard]
            rr.fail(f.qual, f"`{guard}` (tested without the lock) is stored before {later}: a concurrent reader that sees it set uses fields that are not initialised yet", ctx.loc(f, stores[attrs.index(guard)][1]))
    return rr


# ------------------------------------------------------------------------------------------- R13.15 built objects do not alias the builder


@rule("C13")
def r13_15_built_objects_do_not_alias_builder_state(ctx: Ctx) -> RuleResult:
    """A builder keeps growing its lists through add(); what build() returns must not share them.  Whenever a class hands one of
    the collections it mutates in other methods to a constructor of a repo class, the receiving constructor must store a copy
    (list(...) / tuple(...) / .copy() / [*...]) or the argument must be copied at the call - otherwise a later add() on the builder
    changes the behaviour of a pattern that was already built and possibly shared (its answers then depend on what happened to
    the builder afterwards)."""
    rr = RuleResult("R13.15", "objects constructed from a collection that their creator keeps mutating store a copy of it", min_instances=2)
    M = ctx.M
    mut_ops = ("append", "extend", "insert", "add", "update", "pop", "remove", "clear", "setdefault")
    for lst in M.classes.values():
        for c in lst:
            if not c.mod.rel.startswith("pyoda_time/") or "_compatibility" in c.mod.rel:
                continue
            mutated: set[str] = set()
            for g in c.methods.values():
                if isinstance(g.node, ast.Lambda) or g.name in ("__init__", "_ctor", "__new__"):
                    continue
                for n in own_nodes(g.node):
                    if isinstance(n, ast.Call) and isinstance(n.func, ast.Attribute) and n.func.attr in mut_ops and isinstance(n.func.value, ast.Attribute) and isinstance(n.func.value.value, ast.Name) and n.func.value.value.id == "self":
                        mutated.add(n.func.value.attr)
            if not mutated:
                continue
            for g in c.methods.values():
                if isinstance(g.node, ast.Lambda):
                    continue
                for n in own_nodes(g.node):
                    if not isinstance(n, ast.Call):
                        continue
                    tg, how = ctx.R.callees(n, g, count=False)
                    ctor = next((t for t in tg if t.name in ("__init__", "_ctor") or t.name.endswith("__ctor")), None) if how == "resolved" else None
                    if ctor is None:
                        continue
                    from ..kit import bind_args

                    for pname, a in bind_args(n, ctor).items():
                        if not (isinstance(a, ast.Attribute) and isinstance(a.value, ast.Name) and a.value.id == "self" and a.attr in mutated):
                            continue
                        rr.inst()
                        stores = [s for s in own_nodes(ctor.node) if isinstance(s, (ast.Assign, ast.AnnAssign)) and s.value is not None and any(isinstance(x, ast.Name) and x.id == pname for x in ast.walk(s.value))]
                        copied = bool(stores) and all(not (isinstance(s.value, ast.Name)) for s in stores) and all(
                            (isinstance(s.value, ast.Call) and (unparse(s.value.func) in ("list", "tuple", "dict", "set", "frozenset", "sorted") or unparse(s.value.func).endswith(".copy"))) or isinstance(s.value, (ast.List, ast.Tuple, ast.ListComp, ast.IfExp))
                            for s in stores)
                        if copied:
                            rr.ok({"creator": g.qual, "collection": a.attr, "receiver": ctor.qual})
                        else:
                            rr.fail(ctor.qual, f"stores the `{pname}` it is given as it is, and {g.qual} passes its own `{a.attr}`, which {c.name} keeps mutating: the built object changes when the builder is used again", ctx.loc(ctor))
    return rr


# ------------------------------------------------------------------------------------------- R13.16 identity-bearing objects are created atomically


# classes without __eq__ whose instances are never compared or used as keys: a second instance is indistinguishable
IDENTITY_IRRELEVANT = {
    "_PatternBclSupport": "stateless formatting helper (a default format string and a function); nothing compares, stores in a set or keys on it",
}


@rule("C13")
def r13_16_identity_singletons_are_atomic(ctx: Ctx) -> RuleResult:
    """functools.cache memoises without a lock: two threads that miss at the same time both run the function and get different
    results.  That is harmless for value objects (equal by value) and wrong for objects that are compared by IDENTITY: a class
    without __eq__ whose instances are created through a memoised factory is a set of singletons, and the loser of the race keeps
    an object that is `!=` to the registered one (an Era held by a calendar then fails `era != self.__era`: "Only supported era is
    AP; requested era was AP").  Every memoised function that constructs an instance of a class without __eq__ is reported."""
    rr = RuleResult("R13.16", "objects compared by identity (classes without __eq__) are never created through the non-atomic functools.cache / lru_cache", min_instances=5)
    M = ctx.M
    for f in sorted(set(M.func_of_node.values()), key=lambda x: x.qual):
        if isinstance(f.node, ast.Lambda) or not any("cache" in d for d in f.decorators) or not f.mod.rel.startswith("pyoda_time/") or "_compatibility" in f.mod.rel:
            continue
        rr.inst()
        made = None
        for n in own_nodes(f.node):
            if isinstance(n, ast.Call):
                t = unparse(n.func)
                if t in ("super().__new__", "object.__new__") and f.cls is not None:
                    made = f.cls
                elif isinstance(n.func, ast.Name) and M.classes.get(n.func.id):
                    made = made or M.classes[n.func.id][0]
        if made is None:
            rr.ok({"memoised": f.qual, "constructs": "no repo object"})
            continue
        has_eq = any("__eq__" in k.methods for k in M.mro(made) if k.mod.rel.startswith("pyoda_time/"))
        if made.name in IDENTITY_IRRELEVANT:
            rr.ok({"memoised": f.qual, "constructs": made.name, "reviewed": IDENTITY_IRRELEVANT[made.name]})
        elif has_eq:
            rr.ok({"memoised": f.qual, "constructs": made.name, "equality": "by value"})
        else:
            rr.fail(f.qual, f"{made.name} has no __eq__ (its instances are compared by identity) and is created through `{sorted(d for d in f.decorators if 'cache' in d)[0]}`, which is not atomic: two threads can obtain two different `{made.name}` objects for the same arguments", ctx.loc(f))
    return rr


# ------------------------------------------------------------------------------------------- R13.17 fill, then publish


@rule("C13")
def r13_17_containers_are_filled_before_they_are_published(ctx: Ctx) -> RuleResult:
    """A table that other threads reach through a class attribute (or through an attribute of an already shared object) must be
    complete when it becomes visible: storing the empty list first and appending afterwards lets a concurrent reader index a
    half-built table (IndexError, or a silently wrong entry).  For every store of a container (a literal, list()/dict()/set(), or a
    local that holds one) into a `cls.` attribute - or a `self.` attribute outside constructors - no later statement of the same
    function may grow that container."""
    rr = RuleResult("R13.17", "containers stored in class attributes (or in attributes of live objects) are complete when stored: nothing is appended to them afterwards in the same function", min_instances=3)
    M = ctx.M
    grow = ("append", "extend", "add", "update", "insert", "setdefault")
    for f in sorted(set(M.func_of_node.values()), key=lambda x: x.qual):
        if isinstance(f.node, ast.Lambda) or "_compatibility" in f.mod.rel or not f.mod.rel.startswith("pyoda_time/"):
            continue
        ctor = f.name in ("__init__", "_ctor", "__new__") or f.name.endswith("__ctor")
        for pn in own_nodes(f.node):
            if not isinstance(pn, (ast.Assign, ast.AnnAssign)) or pn.value is None:
                continue
            tg = [t for t in (pn.targets if isinstance(pn, ast.Assign) else [pn.target]) if isinstance(t, ast.Attribute) and isinstance(t.value, ast.Name) and (t.value.id == "cls" or (t.value.id == "self" and not ctor))]
            if not tg:
                continue
            v = pn.value
            local_container = isinstance(v, ast.Name) and any(isinstance(d, (ast.Assign, ast.AnnAssign)) and d.value is not None and isinstance(d.value, (ast.List, ast.Dict, ast.Set, ast.ListComp, ast.DictComp)) | (isinstance(d.value, ast.Call) and unparse(d.value.func) in ("list", "dict", "set"))
                                                             and any(isinstance(t, ast.Name) and t.id == v.id for t in (d.targets if isinstance(d, ast.Assign) else [d.target])) for d in own_nodes(f.node))
            rr.inst()
            if not (local_container or isinstance(v, (ast.List, ast.Dict, ast.Set)) or (isinstance(v, ast.Call) and unparse(v.func) in ("list", "dict", "set"))):
                rr.ok()  # the stored value is built elsewhere (a call, a scalar): complete when it arrives
                continue
            names = {unparse(tg[0])} | ({v.id} if isinstance(v, ast.Name) else set())
            later = None
            for n in own_nodes(f.node):
                if getattr(n, "lineno", 0) <= pn.lineno:
                    continue
                if isinstance(n, ast.Call) and isinstance(n.func, ast.Attribute) and n.func.attr in grow and unparse(n.func.value) in names:
                    later = n
                if isinstance(n, (ast.Assign, ast.AugAssign)):
                    for t in (n.targets if isinstance(n, ast.Assign) else [n.target]):
                        if isinstance(t, ast.Subscript) and unparse(t.value) in names:
                            later = n
            if later is None:
                rr.ok({"function": f.qual, "published": unparse(tg[0])})
            else:
                rr.fail(f.qual, f"`{unparse(pn)[:60]}` makes the container visible and `{unparse(later)[:60]}` fills it afterwards: a concurrent reader sees a partly built table", ctx.loc(f, pn))
    return rr


@rule("C13")
def r13_18_clones_are_deep(ctx: Ctx) -> RuleResult:
    """`clone()` exists so that a read-only shared object (the invariant culture) can be copied and the copy changed.  The copy must
    not share mutable sub-objects with the original (a culture owns a DateTimeFormatInfo and a NumberFormatInfo): every `clone`
    method in the package returns `copy.deepcopy(self)` (or a constructor call given copies); a shallow `copy.copy(self)` lets a
    change made to the clone show through the read-only original and through every pattern created with it."""
    rr = RuleResult("R13.18", "clone() methods copy deeply: no clone shares mutable sub-objects with the object it was made from", min_instances=2)
    M = ctx.M
    for f in sorted(set(M.func_of_node.values()), key=lambda x: x.qual):
        if isinstance(f.node, ast.Lambda) or f.name != "clone" or f.cls is None or not f.mod.rel.startswith("pyoda_time/"):
            continue
        rr.inst()
        calls = [unparse(n.func) for n in own_nodes(f.node) if isinstance(n, ast.Call)]
        shallow = [t for t in calls if t in ("copy.copy", "copy") or t.endswith(".__copy__")]
        holds_objects = any(isinstance(n, (ast.Assign, ast.AnnAssign)) and n.value is not None and isinstance(n.value, ast.Call) and M.classes.get(unparse(n.value.func).split(".")[-1].split("[")[0]) for g in f.cls.methods.values() if not isinstance(g.node, ast.Lambda) for n in own_nodes(g.node))
        if shallow and (holds_objects or "copy.deepcopy" not in calls):
            rr.fail(f.qual, f"clone() is built on `{shallow[0]}(self)`: the clone shares the original's mutable sub-objects, so changing the clone changes the (possibly read-only, shared) original", ctx.loc(f))
        else:
            rr.ok({"clone": f.qual, "via": [t for t in calls if "copy" in t][:2]})
    return rr


@rule("C13")
def r13_19_patterns_are_not_written_after_construction(ctx: Ctx) -> RuleResult:
    """Pattern objects are shared (the standard patterns are process-wide singletons) and documented as thread-safe: `format` and
    `parse` may be running in several threads at once.  A scratch object kept on the pattern and reused by `format` (a
    StringBuilder reset with `length = 0`) makes two concurrent calls write into one buffer.  In every class of the text layer that
    implements both `format` and `parse`, no method other than the constructor stores to `self`, stores to an attribute of an object
    reached from `self`, or calls a mutator on it - directly or through a local alias."""
    MUT = ("append", "extend", "insert", "clear", "pop", "remove", "update", "setdefault", "add", "sort", "reverse", "append_format_integer")
    rr = RuleResult("R13.19", "pattern objects (format + parse implementations) are never written after construction: no stored scratch buffer is reused by format / parse", min_instances=8)
    M = ctx.M
    for c in sorted(M.all_classes(), key=lambda k: k.name):
        if "/text/" not in c.mod.rel:
            continue
        names = {f.name for f in c.all_defs if not isinstance(f.node, ast.Lambda)}
        if not ({"format", "parse"} <= names):
            continue
        for f in sorted(c.all_defs, key=lambda g: g.qual):
            if isinstance(f.node, ast.Lambda) or f.cls is not c or f.name in ("__init__", "_ctor", "__new__", "__init_subclass__") or f.kind in ("classmethod", "staticmethod") or f.self_name is None:
                continue
            rr.inst()
            sn = f.self_name
            alias = set()
            for n in own_nodes(f.node):
                if isinstance(n, (ast.Assign, ast.AnnAssign)) and getattr(n, "value", None) is not None and isinstance(n.value, ast.Attribute) and isinstance(n.value.value, ast.Name) and n.value.value.id == sn:
                    for t in [n.target] if isinstance(n, ast.AnnAssign) else n.targets:
                        if isinstance(t, ast.Name):
                            alias.add(t.id)

            def rooted(e) -> bool:
                while isinstance(e, (ast.Attribute, ast.Subscript)):
                    e = e.value
                return isinstance(e, ast.Name) and (e.id == sn or e.id in alias)

            bad = None
            for n in own_nodes(f.node):
                tg = []
                if isinstance(n, ast.Assign):
                    tg = n.targets
                elif isinstance(n, (ast.AugAssign, ast.AnnAssign)):
                    tg = [n.target]
                for t in tg:
                    if isinstance(t, (ast.Attribute, ast.Subscript)) and rooted(t):
                        bad = bad or (n, f"stores to `{unparse(t)}`")
                if isinstance(n, ast.Call) and isinstance(n.func, ast.Attribute) and n.func.attr in MUT and rooted(n.func.value) and not (isinstance(n.func.value, ast.Name) and n.func.value.id == sn):
                    bad = bad or (n, f"calls `{unparse(n.func)}` on state kept in the pattern")
            if bad is None:
                rr.ok({"method": f.qual})
            else:
                rr.fail(f.qual, f"{bad[1]}: the pattern object is shared between threads, so two concurrent calls work on the same scratch state (one call's text ends up in the other's result)", ctx.loc(f, bad[0]))
    return rr


@rule("C13")
def r13_20_cache_slots_are_read_once(ctx: Ctx) -> RuleResult:
    """A direct-mapped cache shared between threads (year starts, zone-interval nodes): the slot is read ONCE into a local, the
    local is validated for the key, and the answer comes from that local (or from the entry just built).  Reading the slot a second
    time after the validation - `if not cache[i].valid(key): cache[i] = new;  return cache[i].value` - returns whatever another
    thread stored there in between: the start of a year 1024 years away."""
    rr = RuleResult("R13.20", "a shared direct-mapped cache slot is read once per lookup: the validated local (or the entry just built) supplies the answer, never a second read of the slot", min_instances=2)
    M = ctx.M
    for f in sorted(set(M.func_of_node.values()), key=lambda x: x.qual):
        if isinstance(f.node, ast.Lambda) or f.cls is None or f.self_name is None or "_compatibility" in f.mod.rel:
            continue
        loads: dict[str, list] = {}
        stores: dict[str, int] = {}
        for n in own_nodes(f.node):
            if isinstance(n, ast.Subscript) and isinstance(n.value, ast.Attribute) and isinstance(n.value.value, ast.Name) and n.value.value.id == f.self_name and "cache" in n.value.attr.lower():
                if isinstance(n.ctx, ast.Load):
                    loads.setdefault(n.value.attr, []).append(n)
                elif isinstance(n.ctx, ast.Store):
                    stores[n.value.attr] = stores.get(n.value.attr, 0) + 1
        for attr, ls in sorted(loads.items()):
            if not stores.get(attr):
                continue  # read-only table in this function
            rr.inst()
            if len(ls) == 1:
                rr.ok({"fn": f.qual, "cache": attr})
            else:
                rr.fail(f.qual, f"`{unparse(ls[1])}` reads the shared slot again (the slot is read {len(ls)} times and written in this lookup): between the validation and this read another thread can store the entry of a colliding key, whose value is then returned for this key", ctx.loc(f, ls[1]))
    return rr
