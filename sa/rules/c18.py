"""C18 - Interval and DateInterval behave as the sets of instants or days they denote (structural clauses)."""
from __future__ import annotations

import ast
import itertools

from ..absint import ConstV, Iv, LinV, NoneV, Obj
from ..core import Ctx, RuleResult, rule
from ..model import AnalysisError, mangle, unparse
from ..order import build, calendar_compare_stub, date_ranks, local_date_model, run, weak_orderings

DI = "DateInterval"


def interval_obj(s: Obj, e: Obj) -> Obj:
    return Obj(DI, {mangle(DI, "__start"): s, mangle(DI, "__end"): e, "$exact": Iv(1, 1)})


def positions(ranks: tuple[int, ...], wide: tuple[bool, ...]) -> dict[int, LinV]:
    """Position of each rank on an abstract day line: consecutive ranks are 1 apart, or 2+h apart (h >= 0) where wide."""
    pos = {0: LinV(0)}
    for j in range(1, max(ranks) + 1):
        step = LinV(2, {f"h{j}": 1}) if wide[j - 1] else LinV(1)
        pos[j] = pos[j - 1].add(step)
    return pos


@rule("C18")
def r18_1_date_interval_sets(ctx: Ctx) -> RuleResult:
    rr = RuleResult("R18.1", "DateInterval membership / containment / intersection / union equal the set operations on every ordering of the end points (incl. gap 1 vs >= 2)", min_instances=7)
    M = ctx.M
    c = M.cls(DI)
    f_contains, f_and, f_or = M.find_method(c, "__contains__"), M.find_method(c, "__and__"), M.find_method(c, "__or__")
    if not (f_contains and f_and and f_or):
        raise AnalysisError("DateInterval set operations missing")
    for packed_reversed in (False, True):
        cfg = "packed order reversed (e.g. Hebrew scriptural)" if packed_reversed else "packed order = calendar order"
        # ---- date in interval
        rr.inst()
        bad = None
        n = 0
        for rk in weak_orderings(3):
            s, e, d = rk
            if s > e:
                continue
            names = {"s": s, "e": e, "d": d}
            ranks = date_ranks(names, packed_reversed)
            objs = {k: local_date_model(k) for k in names}
            out = run(ctx, f_contains, interval_obj(objs["s"], objs["e"]), {"item": objs["d"]}, ranks, {"CalendarSystem._compare": calendar_compare_stub(ranks)})
            n += 1
            want = s <= d <= e
            if out.definite_bool is None or out.definite_bool != want:
                bad = f"ordering start={s} end={e} date={d}: evaluates to {out.definite_bool if out.definite_bool is not None else (out.escaped or out.values)[:1]}, set membership is {want}"
                break
        rr.states += n
        if bad:
            rr.fail(f_contains.qual, f"[{cfg}] {bad}", ctx.loc(f_contains))
        else:
            rr.ok({"op": "date in interval", "orderings": n, "config": cfg})
        # ---- interval in interval, intersection
        for op, fn in (("contains(interval)", f_contains), ("intersection", f_and)):
            rr.inst()
            bad = None
            n = 0
            for rk in weak_orderings(4):
                s1, e1, s2, e2 = rk
                if s1 > e1 or s2 > e2:
                    continue
                names = {"s1": s1, "e1": e1, "s2": s2, "e2": e2}
                ranks = date_ranks(names, packed_reversed)
                objs = {k: local_date_model(k) for k in names}
                a, b = interval_obj(objs["s1"], objs["e1"]), interval_obj(objs["s2"], objs["e2"])
                pname = fn.value_params[0].arg
                out = run(ctx, fn, a, {pname: b}, ranks, {"CalendarSystem._compare": calendar_compare_stub(ranks)})
                n += 1
                if op.startswith("contains"):
                    want = s1 <= s2 and e2 <= e1
                    if out.definite_bool is None or out.definite_bool != want:
                        bad = f"ordering {names}: evaluates to {out.definite_bool if out.definite_bool is not None else (out.escaped or out.values)[:1]}, containment is {want}"
                        break
                else:
                    lo, hi = max(s1, s2), min(e1, e2)
                    if out.escaped or not out.values:
                        bad = f"ordering {names}: not decided ({(out.escaped or ['no returning path'])[0]})"
                        break
                    for v in out.values:
                        if lo > hi:
                            good = isinstance(v, NoneV)
                        else:
                            good = isinstance(v, Obj) and v.tname == DI
                            if good:
                                vs, ve = v.fields.get(mangle(DI, "__start")), v.fields.get(mangle(DI, "__end"))
                                rs = [k for k, o in objs.items() if o == vs]
                                re_ = [k for k, o in objs.items() if o == ve]
                                good = bool(rs) and bool(re_) and names[rs[0]] == lo and names[re_[0]] == hi
                        if not good:
                            bad = f"ordering {names}: returns {v}, the intersection is {'empty' if lo > hi else f'[rank {lo}, rank {hi}]'}"
                            break
                    if bad:
                        break
            rr.states += n
            if bad:
                rr.fail(fn.qual, f"[{cfg}] {bad}", ctx.loc(fn))
            else:
                rr.ok({"op": op, "orderings": n, "config": cfg})
    # ---- union: defined exactly when overlapping or adjacent (needs distances: abstract line with gaps 1 or >= 2)
    rr.inst()
    bad = None
    n = 0
    for rk in weak_orderings(4):
        s1, e1, s2, e2 = rk
        if s1 > e1 or s2 > e2:
            continue
        m = max(rk)
        for wide in itertools.product((False, True), repeat=m):
            pos = positions(rk, wide)
            names = {"s1": s1, "e1": e1, "s2": s2, "e2": e2}
            ranks = date_ranks(names)
            objs = {k: local_date_model(k, pos=pos[r]) for k, r in names.items()}
            a, b = interval_obj(objs["s1"], objs["e1"]), interval_obj(objs["s2"], objs["e2"])
            out = run(ctx, f_or, a, {f_or.value_params[0].arg: b}, ranks, {"CalendarSystem._compare": calendar_compare_stub(ranks)})
            n += 1
            gap = pos[max(s1, s2)].add(pos[min(e1, e2)], -1)  # first day of the later interval minus last day of the earlier
            lo, hi = gap.sign_range()
            defined = hi <= 1
            if not defined and not lo >= 2:
                continue  # cannot happen: gap classes are 1 or >= 2
            if out.escaped or not out.values:
                bad = f"ordering {names} gaps {wide}: not decided ({(out.escaped or ['no returning path'])[0]})"
                break
            for v in out.values:
                if defined:
                    good = isinstance(v, Obj) and v.tname == DI
                    if good:
                        vs, ve = v.fields.get(mangle(DI, "__start")), v.fields.get(mangle(DI, "__end"))
                        rs = [k for k, o in objs.items() if o == vs]
                        re_ = [k for k, o in objs.items() if o == ve]
                        good = bool(rs) and bool(re_) and names[rs[0]] == min(s1, s2) and names[re_[0]] == max(e1, e2)
                else:
                    good = isinstance(v, NoneV)
                if not good:
                    bad = f"ordering {names} with distance between the sets {gap}: returns {v}; the union {'is the hull' if defined else 'is not an interval (None)'}"
                    break
            if bad:
                break
        if bad:
            break
    rr.states += n
    if bad:
        rr.fail(f_or.qual, bad, ctx.loc(f_or))
    else:
        rr.ok({"op": "union", "cases": n})
    return rr


@rule("C18")
def r18_2_construction_and_refusal(ctx: Ctx) -> RuleResult:
    rr = RuleResult("R18.2-3", "construction rejects end < start and mixed calendars; set operations refuse mixed calendars; unbounded ends refuse to yield a bound or a duration", min_instances=10)
    M = ctx.M
    c = M.cls(DI)
    init = M.find_method(c, "__init__")
    for label, (rs, re_, cs, ce, must_raise) in {
        "end before start": (1, 0, 0, 0, True), "same day": (0, 0, 0, 0, False), "ordered": (0, 1, 0, 0, False), "mixed calendars": (0, 1, 0, 1, True)}.items():
        rr.inst()
        ranks = date_ranks({"s": rs, "e": re_})
        s, e = local_date_model("s", cs), local_date_model("e", ce)
        out = run(ctx, init, Obj(DI, {"$exact": Iv(1, 1)}), {"start": s, "end": e}, ranks, {"CalendarSystem._compare": calendar_compare_stub(ranks)})
        rr.states += 1
        raised = not out.values
        if raised == must_raise:
            rr.ok({"ctor": label, "raises": raised})
        else:
            rr.fail(init.qual, f"{label}: construction {'succeeds' if must_raise else 'raises'}", ctx.loc(init))
    for name in ("__contains__", "__and__", "__or__"):
        f = M.find_method(c, name)
        rr.inst()
        names = {"s1": 0, "e1": 1, "s2": 0, "e2": 1}
        ranks = date_ranks(names)
        a = interval_obj(local_date_model("s1", 0), local_date_model("e1", 0))
        b = interval_obj(local_date_model("s2", 1), local_date_model("e2", 1))
        out = run(ctx, f, a, {f.value_params[0].arg: b}, ranks, {"CalendarSystem._compare": calendar_compare_stub(ranks)})
        rr.states += 1
        if out.values:
            rr.fail(f.qual, f"operands in different calendars: a path returns {out.values[0]} instead of raising", ctx.loc(f))
        else:
            rr.ok({"op": f.qual, "mixed_calendars": "raises"})
    # date in interval of another calendar
    f = M.find_method(c, "__contains__")
    rr.inst()
    ranks = date_ranks({"s": 0, "e": 2, "d": 1})
    out = run(ctx, f, interval_obj(local_date_model("s", 0), local_date_model("e", 0)), {"item": local_date_model("d", 1)}, ranks, {"CalendarSystem._compare": calendar_compare_stub(ranks)})
    if out.values:
        rr.fail(f.qual, f"date of another calendar: a path returns {out.values[0]} instead of raising", ctx.loc(f))
    else:
        rr.ok({"op": "date in interval", "mixed_calendars": "raises"})
    # Interval: bounds, has_*, duration
    ic = M.cls("Interval")
    S, E = mangle("Interval", "__start"), mangle("Interval", "__end")
    from ..terms import Store, TermEval, show, sym

    def body_term(name: str):
        f = M.find_method(ic, name)
        if f is None:
            raise AnalysisError(f"Interval.{name} missing")
        outs = TermEval(M, ctx.R, f, inline_depth=0).run(Store({"self." + S: sym("START"), "self." + E: sym("END")}))
        return f, outs

    for name, fld in (("start", "START"), ("end", "END")):
        f, outs = body_term(name)
        rr.inst()
        # must check validity of that very bound before returning it
        checked = False
        for n in ast.walk(f.node):
            if isinstance(n, ast.Call) and unparse(n.func).endswith("_check_state") and n.args and unparse(n.args[0]) == f"self.__{name}._is_valid":
                checked = True
        ret_ok = len(outs) == 1 and outs[0][0] == sym(fld)
        if checked and ret_ok:
            rr.ok({"accessor": f.qual, "guard": f"_check_state(self.__{name}._is_valid)"})
        else:
            rr.fail(f.qual, f"must return the {name} bound only after _check_state(self.__{name}._is_valid); found guard={checked}, returns {[show(o[0]) for o in outs]}", ctx.loc(f))
    for name, fld in (("has_start", "START"), ("has_end", "END")):
        f, outs = body_term(name)
        rr.inst()
        if len(outs) == 1 and outs[0][0] == ("attr", sym(fld), "_is_valid"):
            rr.ok({"accessor": f.qual, "reads": f"{fld}._is_valid"})
        else:
            rr.fail(f.qual, f"must report the validity of the {fld.lower()} bound; returns {[show(o[0]) for o in outs]}", ctx.loc(f))
    f = M.find_method(ic, "duration")
    rr.inst()
    ok = False
    for n in ast.walk(f.node):
        if isinstance(n, ast.Return) and isinstance(n.value, ast.BinOp) and isinstance(n.value.op, ast.Sub) and unparse(n.value.left) == "self.end" and unparse(n.value.right) == "self.start":
            ok = True
    if ok:
        rr.ok({"accessor": f.qual, "expr": "self.end - self.start (both guarded accessors)"})
    else:
        rr.fail(f.qual, "duration must be computed from the guarded accessors self.end - self.start (an unbounded end must refuse)", ctx.loc(f))
    return rr


@rule("C18")
def r18_1b_interval_membership(ctx: Ctx) -> RuleResult:
    rr = RuleResult("R18.1b", "Interval membership is half-open [start, end) on every ordering; construction rejects end < start", min_instances=2)
    M = ctx.M
    ic = M.cls("Interval")
    f = M.find_method(ic, "__contains__")
    S, E = mangle("Interval", "__start"), mangle("Interval", "__end")
    rr.inst()
    bad = None
    n = 0
    for rk in weak_orderings(3):
        s, e, i = rk
        if s > e:
            continue
        ms, me, mi = build("Instant", "s"), build("Instant", "e"), build("Instant", "i")
        ranks = {}
        for mdl, r in ((ms, s), (me, e), (mi, i)):
            ranks[mdl.keys[0][0]] = r  # days component carries the order
            ranks[mdl.keys[1][0]] = 0
        out = run(ctx, f, Obj("Interval", {S: ms.obj, E: me.obj}), {"instant": mi.obj}, ranks)
        n += 1
        want = s <= i < e
        if out.definite_bool is None or out.definite_bool != want:
            bad = f"ordering start={s} end={e} instant={i}: evaluates to {out.definite_bool if out.definite_bool is not None else (out.escaped or out.values)[:1]}, half-open membership is {want}"
            break
    rr.states += n
    if bad:
        rr.fail(f.qual, bad, ctx.loc(f))
    else:
        rr.ok({"op": "instant in interval", "orderings": n})
    init = M.find_method(ic, "__init__")
    rr.inst()
    res = []
    for s, e in ((0, 1), (0, 0), (1, 0)):
        ms, me = build("Instant", "s"), build("Instant", "e")
        ranks = {ms.keys[0][0]: s, ms.keys[1][0]: 0, me.keys[0][0]: e, me.keys[1][0]: 0}
        out = run(ctx, init, Obj("Interval", {"$exact": Iv(1, 1)}), {"start": ms.obj, "end": me.obj}, ranks)
        res.append(bool(out.values))
    if res == [True, True, False]:
        rr.ok({"ctor": "rejects end < start only"})
    else:
        rr.fail(init.qual, f"construction outcomes for (start<end, start==end, start>end) are {res}, expected [ok, ok, raise]", ctx.loc(init))
    return rr


@rule("C18")
def r18_7_year_kinds(ctx: Ctx) -> RuleResult:
    """YearMonth.to_date_interval and the interval constructors derive month lengths and end dates from a year: it must be the
    absolute year (home of the analysis: sa/yearkinds.py)."""
    from ..yearkinds import check_year_kinds

    rr = RuleResult("R18.7", "absolute years and years-of-era are never interchanged when interval end points are derived", min_instances=30)
    check_year_kinds(ctx, rr)
    return rr


@rule("C18")
def r18_cfp_calendar_free_productions(ctx: Ctx) -> RuleResult:
    from ..retention import check_calendar_free_productions

    rr = RuleResult("R18.cfp", "no calendar-bearing result is assembled from calendar-free pieces (day number, instant, local instant) while a calendar-bearing value is in hand", min_instances=100)
    check_calendar_free_productions(ctx, rr)
    return rr


# functions of the interval files from which an explicit `raise OverflowError` is reachable today, each reviewed: they perform
# open-ended date / instant arithmetic whose result may legitimately fall outside the calendar or the Instant range
OVERFLOW_REVIEWED = {
    "DateInterval.__iter__": "steps with plus_days; by construction it stops at `end`, the reachable raise is the generic guard of date addition",
    "DateInterval.__repr__": "formats through the text layer (which converts via instants)",
    "Interval.__repr__": "formats through the text layer",
    "Interval.duration": "end - start of two arbitrary instants",
    "Period.__date_components_between": "adds trial periods to the start date (documented to raise when the calendar is left)",
    "Period.between": "same (public entry)",
    "YearMonth.plus_months": "open-ended month arithmetic (documented)",
}


@rule("C18")
def r18_9_total_functions_do_not_overflow(ctx: Ctx) -> RuleResult:
    """Set operations, membership, length, equality and the YearMonth -> DateInterval conversion always have an answer inside the
    calendar, so nothing on their way may perform open-ended date arithmetic: no explicit `raise OverflowError` is reachable from
    them (exception-effect analysis over the resolved call graph).  The functions that do reach one today are listed with the
    reason; any other function of the interval files that starts to reach it computes through an intermediate value that can fall
    off the end of the calendar (e.g. `start.plus_months(1).plus_days(-1)` for the last month)."""
    from ..core import anchor_files
    from ..exc import ExcAnalysis, ExcConfig

    rr = RuleResult("R18.9", "interval / year-month operations that always have an answer reach no `raise OverflowError` (no intermediate value outside the calendar)", min_instances=80)
    A = ExcAnalysis(ctx, ExcConfig())
    files = anchor_files("C18")
    seen_reviewed = set()
    for f in sorted(set(ctx.M.func_of_node.values()), key=lambda x: x.qual):
        if f.mod.rel not in files or isinstance(f.node, ast.Lambda) or f.cls is None or f.parent is not None:
            continue
        rr.inst()
        esc = A.escapes(f)
        it = esc.values() if isinstance(esc, dict) else esc
        ov = sorted({(e.fn, e.what) for e in it if e.exc == "OverflowError" and e.kind == "raise"})
        if not ov:
            rr.ok()
        elif f.qual in OVERFLOW_REVIEWED:
            seen_reviewed.add(f.qual)
            rr.ok({"fn": f.qual, "reviewed": OVERFLOW_REVIEWED[f.qual]})
        else:
            rr.fail(f.qual, f"can now raise OverflowError (from {ov[0][0]}): it computes through a value that may lie outside the calendar although its own result never does", ctx.loc(f))
    rr.states += A.calls_seen
    return rr
