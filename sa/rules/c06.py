"""C06 - Zones behave exactly as the bundled tz database bytes say (wiring clauses only)."""
from __future__ import annotations

import ast

from ..core import Ctx, RuleResult, anchor_files, rule
from ..kit import own_nodes
from ..model import UNKNOWN, AnalysisError, mangle, unparse
from ..terms import Store, TermEval, show, sym


@rule("C06")
def r06_1_field_handlers(ctx: Ctx) -> RuleResult:
    rr = RuleResult("R06.1", "every stream field id has at most one handler, each handler fills the builder slot the data class requires, single-field and string-pool preconditions are checked", min_instances=12)
    M = ctx.M
    sd = M.cls("_TzdbStreamData")
    bld = M.cls("_TzdbStreamData._Builder")
    fid = M.cls("_TzdbStreamFieldId")
    tbl = sd.assigns.get(mangle(sd.name, "__FIELD_HANDLERS"))
    if not isinstance(tbl, ast.Dict):
        raise AnalysisError("__FIELD_HANDLERS is not a dict literal")
    members = {k for k, v in fid.assigns.items() if isinstance(M.fold(v, fid, fid.mod), int)}
    handled = {}
    for k, v in zip(tbl.keys, tbl.values):
        rr.inst()
        name = unparse(k).split(".")[-1]
        target = None
        if isinstance(v, ast.Lambda) and isinstance(v.body, ast.Call) and isinstance(v.body.func, ast.Attribute):
            target = v.body.func.attr
            args_ok = [unparse(a) for a in v.body.args] == [v.args.args[1].arg] and unparse(v.body.func.value) == v.args.args[0].arg
        else:
            args_ok = False
        h = M.find_method(bld, target) if target else None
        if name not in members:
            rr.fail(sd.qual, f"handler table key {unparse(k)} is not a member of _TzdbStreamFieldId", sd.mod.rel)
        elif h is None or not args_ok:
            rr.fail(sd.qual, f"field {name} is not routed to an existing builder handler with (builder, field)", sd.mod.rel)
        elif name in handled:
            rr.fail(sd.qual, f"field {name} has two handlers", sd.mod.rel)
        else:
            handled[name] = h
            rr.ok({"field": name, "handler": h.qual})
    # required builder slots (the data class rejects None for them) must be assigned by some handler
    init = M.find_method(sd, "__init__")
    required = set()
    for n in own_nodes(init.node):
        if isinstance(n, ast.Call) and unparse(n.func).endswith("_check_not_null") and n.args and isinstance(n.args[0], ast.Attribute) and unparse(n.args[0].value) == "builder":
            required.add(n.args[0].attr)
    assigned_by = {}
    for name, h in handled.items():
        for n in own_nodes(h.node):
            if isinstance(n, (ast.Assign, ast.AnnAssign)):
                t = n.targets[0] if isinstance(n, ast.Assign) else n.target
                if isinstance(t, ast.Attribute) and unparse(t.value) == "self":
                    assigned_by.setdefault(t.attr, []).append(name)
                if isinstance(t, ast.Subscript) and isinstance(t.value, ast.Attribute) and unparse(t.value.value) == "self":
                    assigned_by.setdefault(t.value.attr, []).append(name)
    for slot in sorted(required):
        rr.inst()
        if slot in assigned_by:
            rr.ok({"required_slot": slot, "filled_by": assigned_by[slot]})
        else:
            rr.fail(sd.qual, f"the data class requires builder.{slot} but no field handler assigns it", ctx.loc(init))
    # single-field handlers check for duplicates; pool users check presence before reading with the pool
    for name, h in handled.items():
        txt = unparse(h.node).replace("_Builder", "")
        uses_pool = "self._string_pool)" in txt and "_handle_string_pool_field" not in h.name
        single = name != "TIME_ZONE"
        rr.inst()
        probs = []
        first_calls = [unparse(s.value.func).split(".")[-1] for s in h.body[:2] if isinstance(s, ast.Expr) and isinstance(s.value, ast.Call)]
        if single and "__check_single_field" not in " ".join(first_calls):
            probs.append("does not reject a repeated field first")
        if uses_pool and name in ("TIME_ZONE", "ZONE_LOCATIONS", "ZONE_1970_LOCATIONS") and "__check_string_pool_presence" not in " ".join(first_calls):
            probs.append("reads with the string pool without checking that the pool field came first")
        if name == "TIME_ZONE" and "raise InvalidPyodaDataError" not in txt:
            probs.append("does not reject a second definition of the same zone id")
        if probs:
            rr.fail(h.qual, "; ".join(probs), ctx.loc(h))
        else:
            rr.ok({"handler": h.qual, "guards": first_calls})
    return rr


@rule("C06")
def r06_2_ids_and_aliases(ctx: Ctx) -> RuleResult:
    rr = RuleResult("R06.2", "id list = sorted canonical ids + aliases; an alias is served from its canonical zone's data under the alias id on every path; fixed-offset ids fall back to the fixed zone", min_instances=6)
    M = ctx.M
    f = M.func("DateTimeZoneCache.__init__")
    rr.inst()
    txt = unparse(f.node).replace("_DateTimeZoneCache", "")
    if "self.__ids: Iterable[str] = sorted(provider_ids)" in txt or "self.__ids = sorted(provider_ids)" in txt:
        rr.ok({"ids": "sorted(source.get_ids())"})
    else:
        rr.fail(f.qual, "the provider's id list is not the sorted list of the source's ids", ctx.loc(f))
    g = M.func("TzdbDateTimeZoneSource.get_ids")
    rr.inst()
    if unparse(g.body[-1]) == "return self.canonical_id_map.keys()":
        rr.ok({"get_ids": "keys of the canonical-id map (canonical ids + aliases)"})
    else:
        rr.fail(g.qual, f"get_ids must be the keys of the canonical-id map; found `{unparse(g.body[-1])}`", ctx.loc(g))
    init = M.func("_TzdbStreamData.__init__")
    rr.inst()
    itxt = unparse(init.node)
    if "for zone_id in self._TzdbStreamData__zone_fields" in itxt.replace("self.__zone_fields", "self._TzdbStreamData__zone_fields") and "mutable_id_map[zone_id] = zone_id" in itxt:
        rr.ok({"id_map": "every zone field id maps to itself"})
    else:
        rr.fail(init.qual, "canonical zone ids are not added to the id map", ctx.loc(init))
    h = M.func("TzdbDateTimeZoneSource.for_id")
    rr.inst()
    outs = TermEval(M, ctx.R, h, inline_depth=0).run(Store({"id_": sym("ID")}))
    good = False
    for ret, _ in outs:
        if ret is not None and ret[0] == "call" and ret[1].endswith("create_zone") and len(ret[2]) == 2:
            a0, a1 = ret[2]
            if a0 == sym("ID") and a1[0] == "call" and "get" in a1[1]:
                recv = str(a1[1]).rsplit(".", 1)[0]
                # the map may have been read into a local first
                local_defs = [unparse(n.value) for n in own_nodes(h.node) if isinstance(n, ast.Assign) and len(n.targets) == 1 and isinstance(n.targets[0], ast.Name) and n.targets[0].id == recv]
                if "canonical_id_map" in show(a1) or (len(local_defs) == 1 and local_defs[0].endswith("canonical_id_map")):
                    good = True
    if good:
        rr.ok({"for_id": "create_zone(id_, canonical_id_map.get(id_))"})
    else:
        rr.fail(h.qual, f"for_id must call create_zone(<requested id>, <its canonical id>); found {[show(o[0])[:100] for o in outs]}", ctx.loc(h))
    cz = M.func("_TzdbStreamData.create_zone")
    rr.inst()
    outs = TermEval(M, ctx.R, cz, inline_depth=0).run(Store({"id_": sym("ID"), "canonical_id": sym("CANON")}))
    rets = [r for r, _ in outs if r is not None]
    no_id = [r for r in rets if "ID" not in show(r)]
    data_key_ok = "self.__zone_fields[canonical_id]" in unparse(cz.node).replace("_TzdbStreamData", "")
    if rets and not no_id and data_key_ok:
        rr.ok({"create_zone": "every returned zone is built with the requested id from the canonical zone's field", "paths": len(rets)})
    else:
        rr.fail(cz.qual, ("a returning path yields a zone that does not depend on the requested id (an alias would be served under another id): " + show(no_id[0])[:100]) if no_id else "zone data is not keyed by the canonical id", ctx.loc(cz))
    for q in ("DateTimeZoneCache.get_zone_or_none", "DateTimeZoneCache.__getitem__"):
        k = M.func(q)
        rr.inst()
        if "_FixedDateTimeZone._get_fixed_zone_or_null(zone_id)" in unparse(k.node):
            rr.ok({"fn": q, "fallback": "fixed-offset id parser"})
        else:
            rr.fail(q, "unknown ids are not offered to the fixed-offset zone parser", ctx.loc(k))
    return rr


@rule("C06")
def r06_3_zone_type_dispatch(ctx: Ctx) -> RuleResult:
    rr = RuleResult("R06.3", "create_zone routes FIXED to the fixed-zone reader and PRECALCULATED to the precalculated reader wrapped by the caching zone; every type member has an arm", min_instances=2)
    M = ctx.M
    cz = M.func("_TzdbStreamData.create_zone")
    tcls = M.cls("_DateTimeZoneWriter._DateTimeZoneType")
    members = {k for k, v in tcls.assigns.items() if isinstance(M.fold(v, tcls, tcls.mod), int)}
    # arms of the dispatch in either form: `match type_: case T.X:` or `if type_ == T.X:` (facts holding at each return)
    from ..exc import facts_at

    arms = {}
    for r in own_nodes(cz.node):
        if not isinstance(r, ast.Return) or r.value is None:
            continue
        member = None
        cur = getattr(r, "_parent", None)
        while cur is not None and not isinstance(cur, ast.FunctionDef):
            if isinstance(cur, ast.match_case) and isinstance(cur.pattern, ast.MatchValue):
                member = unparse(cur.pattern.value).split(".")[-1]
                break
            cur = getattr(cur, "_parent", None)
        if member is None:
            for (l, op, rhs) in facts_at(r):
                if op == "==" and rhs.split(".")[-1] in members and "DateTimeZoneType" in rhs:
                    member = rhs.split(".")[-1]
        if member is not None:
            arms[member] = unparse(r)
    want = {"FIXED": "return _FixedDateTimeZone.read(reader, id_)", "PRECALCULATED": "return _CachedDateTimeZone._for_zone(_PrecalculatedDateTimeZone._read(reader, id_))"}
    for mname in sorted(members):
        rr.inst()
        if arms.get(mname) == want.get(mname):
            rr.ok({"type": mname, "arm": arms[mname]})
        else:
            rr.fail(cz.qual, f"zone type {mname}: expected `{want.get(mname)}`, found `{arms.get(mname)}`", ctx.loc(cz))
    return rr


@rule("C06")
def r06_4_reader_discipline(ctx: Ctx) -> RuleResult:
    from ..codec import check_optional_int_truthiness, check_sequences

    rr = RuleResult("R06.4", "reader side: optional buffered byte tested with `is None`; composite readers mirror their writers", min_instances=8)
    check_optional_int_truthiness(ctx, rr, anchor_files("C06"))
    check_sequences(ctx, rr)
    return rr


@rule("C06")
def r06_5_recurrence_years(ctx: Ctx) -> RuleResult:
    from .c04 import r04_6_lookup_shape

    r = r04_6_lookup_shape(ctx)
    r.rule = "R06.5"
    for f in r.findings:
        f.rule = "R06.5"
    return r


@rule("C06")
def r06_6_decoders_restore_every_field(ctx: Ctx) -> RuleResult:
    """Zones are what the bytes say only if every stored field of a rule comes back: shared with C14 (R14.2)."""
    from .c14 import r14_2_decoders_restore_every_field

    r = r14_2_decoders_restore_every_field(ctx)
    r.rule = "R06.6"
    for f in r.findings:
        f.rule = "R06.6"
    return r


# shared with C04: every recurrence query made by the alternating map is used by the decision that follows (home id R04.8)
# (cross-registration moved to sa/rules/shared.py: SHARED)

# (cross-registration moved to sa/rules/shared.py: SHARED)


@rule("C06")
def r06_7_memo_keys(ctx: Ctx) -> RuleResult:
    """Zones handed out by the source / provider / cache layers are memoised in places; a memo keyed on less than the request
    (e.g. the canonical id only) returns a zone carrying another id."""
    from ..memo import memo_tables

    rr = RuleResult("R06.7", "zone lookups: every memo table in the zone layer is keyed on the whole request (or validates a hit against it)", min_instances=2)
    for mt in memo_tables(ctx.M):
        if "/time_zones/" not in mt.fn.mod.rel and "_date_time_zone" not in mt.fn.mod.rel:
            continue
        rr.inst()
        if mt.problem:
            rr.fail(mt.fn.qual, mt.problem, ctx.loc(mt.fn, mt.node))
        else:
            rr.ok({"memo": mt.fn.qual, "table": mt.table, "key": mt.store_key[:80]})
    return rr


# shared with C02: zone rules anchored on 29 February must use the calendar's leap predicate (home id R02.5)
# (cross-registration moved to sa/rules/shared.py: SHARED)

# (cross-registration moved to sa/rules/shared.py: SHARED)


@rule("C06")
def r06_8_fixed_zone_ids(ctx: Ctx) -> RuleResult:
    """A fixed-offset zone has one canonical id per offset ("UTC", "UTC+05", "UTC+05:30" ...), which the constructor derives from
    the offset when no id is given; only the decoder of zone data (`read`) may supply an explicit id (tz data names fixed zones
    such as "Etc/GMT+5").  Any other construction with an explicit id - e.g. the spelling a user asked for - gives two unequal
    zones for one offset and breaks `for_offset(...)`/`utc` identity."""
    from ..kit import bind_args

    rr = RuleResult("R06.8", "fixed zones are constructed with an explicit id only by the zone-data decoder; every other site lets the constructor derive the canonical id from the offset", min_instances=4)
    M = ctx.M
    c = M.cls("_FixedDateTimeZone")
    init = M.find_method(c, "__init__")
    for f in sorted(set(M.func_of_node.values()), key=lambda x: x.qual):
        if isinstance(f.node, ast.Lambda):
            continue
        for n in own_nodes(f.node):
            if not isinstance(n, ast.Call):
                continue
            fn = unparse(n.func)
            if not (fn == "_FixedDateTimeZone" or (fn == "cls" and f.cls is c)):
                continue
            rr.inst()
            b = bind_args(n, init)
            if "id_" in b and not (isinstance(b["id_"], ast.Constant) and b["id_"].value is None):
                if f.cls is c and f.name == "read":
                    rr.ok({"site": f.qual, "id": "read from zone data"})
                else:
                    rr.fail(f.qual, f"`{unparse(n)[:70]}` gives the fixed zone the explicit id `{unparse(b['id_'])}`: only the zone-data decoder may do that, everything else must get the canonical id derived from the offset", ctx.loc(f, n))
            else:
                rr.ok({"site": f.qual, "id": "derived from the offset"})
    return rr


@rule("C06")
def r06_9_optional_collection_guards(ctx: Ctx) -> RuleResult:
    """`if X: for v in Y: ...` where the `if` exists only to skip an optional collection: X must be Y.  Guarding the loop over one
    optional section of the zone data with the presence of *another* section iterates over None (TypeError) for files that have
    one section but not the other."""
    rr = RuleResult("R06.9", "an `if` that only guards a loop over an optional collection tests that same collection", min_instances=2)
    for f in sorted(set(ctx.M.func_of_node.values()), key=lambda x: x.qual):
        if isinstance(f.node, ast.Lambda) or "_compatibility" in f.mod.rel:
            continue
        for n in own_nodes(f.node):
            if isinstance(n, ast.If) and len(n.body) == 1 and isinstance(n.body[0], ast.For) and not n.orelse:
                t = n.test
                if isinstance(t, ast.Compare) and len(t.ops) == 1 and isinstance(t.ops[0], ast.IsNot):
                    t = t.left
                if not isinstance(t, (ast.Name, ast.Attribute)):
                    continue
                rr.inst()
                it = n.body[0].iter
                if unparse(t) == unparse(it) or unparse(t) in unparse(it):
                    rr.ok({"fn": f.qual, "collection": unparse(t)})
                else:
                    rr.fail(f.qual, f"the loop over `{unparse(it)}` is guarded by `{unparse(n.test)}`, a different collection: when only one of the two is present the loop runs over a missing section (or is skipped although there is data)", ctx.loc(f, n))
    return rr


@rule("C06")
def r06_10_decoded_fields_are_used(ctx: Ctx) -> RuleResult:
    """Every field that a zone-data type stores from its decoder must take part in what the zone *does* (transitions, offsets,
    names, lookups): a method other than the encoder, the equality / hash / repr methods and the field's own accessor reads it.
    A field that is only carried from `read` to `write` and `__eq__` has been cut out of the behaviour - the bytes say one thing
    (e.g. "the Saturday at or before the 30th") and the zone does another."""
    from ..codec import codec_pairs
    from ..codecpaths import ctor_param_fields, norm_name

    rr = RuleResult("R06.10", "every decoded field of the zone-data types is read by some behaviour-bearing method (not only by write / equality / its own accessor)", min_instances=12)
    M = ctx.M
    PASSIVE = ("_write", "write", "__eq__", "__ne__", "__hash__", "__repr__", "__str__", "equals", "_read", "read", "__init__", "_ctor")
    BEHAVIOURAL = ("_ZoneYearOffset", "_ZoneRecurrence", "_StandardDaylightAlternatingMap", "_PrecalculatedDateTimeZone", "_FixedDateTimeZone")
    for c, w, r in codec_pairs(ctx):
        if c.name not in BEHAVIOURAL:
            continue  # location / mapping records are public data: their fields are the API
        ctor = next((g for g in c.all_defs if g.name in ("_ctor", "__init__") or g.name.endswith("__ctor")), None)
        if ctor is None:
            continue
        fields = sorted({fld for flds in ctor_param_fields(ctx, ctor).values() for fld in flds})
        # accessor properties of each field
        accessors: dict[str, set[str]] = {fld: {fld} for fld in fields}
        for g in c.all_defs:
            if g.kind == "property" and not isinstance(g.node, ast.Lambda):
                rets = [n.value for n in own_nodes(g.node) if isinstance(n, ast.Return) and n.value is not None]
                if len(rets) == 1 and isinstance(rets[0], ast.Attribute) and norm_name(rets[0].attr) in accessors:
                    accessors[norm_name(rets[0].attr)].add(g.name)
        # readers anywhere in the package (the field or its accessor on any object: names are specific enough)
        for fld in fields:
            rr.inst()
            names = accessors[fld]
            used_by = None
            for g in set(M.func_of_node.values()):
                if isinstance(g.node, ast.Lambda) or "_compatibility" in g.mod.rel:
                    continue
                if g.cls is c and (g.name in PASSIVE or g.name.endswith("__ctor") or (g.kind == "property" and g.name in names)):
                    continue
                for n in own_nodes(g.node):
                    if isinstance(n, ast.Attribute) and isinstance(n.ctx, ast.Load) and (norm_name(n.attr) == fld or n.attr in names):
                        # inside the class any such read counts; outside it the name must be one of the class's accessors
                        if g.cls is c or n.attr in names:
                            used_by = g
                            break
                if used_by:
                    break
            if used_by is not None:
                rr.ok({"class": c.name, "field": fld, "read by": used_by.qual})
            else:
                rr.fail(c.qual, f"field `{fld}` is restored by the decoder and written by the encoder but no behaviour-bearing method reads it: that part of the zone data no longer influences what the zone does", ctx.loc(ctor))
    return rr


# ------------------------------------------------------------------------------------------- R06.11 fixed-zone table lookup


@rule("C06")
def r06_11_fixed_zone_table(ctx: Ctx) -> RuleResult:
    """DateTimeZone.for_offset answers from a table of half-hour zones UTC-12 .. UTC+15 and builds a fresh fixed zone for every
    other offset.  The table may only be used for offsets that are ON the half-hour grid and INSIDE the table: the function is
    followed with the offset's seconds set to boundary values (the expressions evaluated by the abstract interpreter on exact
    integers); it must reach the table exactly for multiples of 1800 s in [-43200, 54000] - a negative index would wrap around
    to the other end of the table (UTC-13 -> UTC+14:30), an off-grid offset would be truncated to its neighbour."""
    from ..absint import Iv, State
    from ..oblig import interp

    rr = RuleResult("R06.11", "for_offset uses the fixed-zone table exactly for offsets on the half-hour grid inside UTC-12 .. UTC+15 (function followed at boundary values)", min_instances=10)
    M = ctx.M
    f = M.func("DateTimeZone.for_offset")
    pname = f.value_params[0].arg

    def follow(seconds: int) -> str:
        env: dict[str, Iv] = {}
        I = interp(ctx)

        def ev(e: ast.expr):
            return I.ev(e, State(dict(env)), f, 0)

        def walk(stmts: list[ast.stmt]) -> str | None:
            for s in stmts:
                if isinstance(s, (ast.Assign, ast.AnnAssign)) and s.value is not None:
                    t = s.targets[0] if isinstance(s, ast.Assign) else s.target
                    if isinstance(t, ast.Name):
                        if unparse(s.value) == f"{pname}.seconds":
                            env[t.id] = Iv(seconds, seconds)
                        else:
                            v = ev(s.value)
                            if isinstance(v, Iv) and v.lo == v.hi:
                                env[t.id] = v
                            else:
                                env.pop(t.id, None)
                    continue
                if isinstance(s, ast.If):
                    v = ev(s.test)
                    if isinstance(v, Iv) and v.lo == v.hi:
                        r = walk(s.body if v.lo else s.orelse)
                        if r is not None:
                            return r
                        continue
                    if any(isinstance(x, ast.Return) for b in (s.body, s.orelse) for y in b for x in ast.walk(y)):
                        raise AnalysisError(f"{f.qual}: test `{unparse(s.test)[:60]}` not decided at {seconds} s")
                    continue
                if isinstance(s, ast.Return):
                    return "table" if isinstance(s.value, ast.Subscript) else "fresh" if isinstance(s.value, ast.Call) else "other"
                if isinstance(s, (ast.Expr, ast.Import, ast.ImportFrom, ast.Pass)):
                    continue
                raise AnalysisError(f"{f.qual}: statement {type(s).__name__} not followed")
            return None

        return walk(f.body) or "falls through"

    boundary = (-64800, -46800, -45000, -43201, -43200, -41400, -1800, -1, 0, 1, 1799, 1800, 20700, 52200, 54000, 54001, 55800, 64800)
    # thorough: EVERY offset of the type's range, second by second (129 601 values)
    every = boundary if ctx.tier == "quick" else tuple(boundary) + tuple(x for x in range(-64800, 64801) if x not in boundary)
    for seconds in every:
        rr.inst()
        want = "table" if seconds % 1800 == 0 and -43200 <= seconds <= 54000 else "fresh"
        got = follow(seconds)
        rr.states += 1
        if got == want:
            rr.ok({"seconds": seconds, "answer from": got} if seconds in boundary else None)
        else:
            rr.fail(f.qual, f"an offset of {seconds} s is answered from the {got} path; it must be the {want} one ({'on' if seconds % 1800 == 0 else 'off'} the half-hour grid, {'inside' if -43200 <= seconds <= 54000 else 'outside'} UTC-12 .. UTC+15)", ctx.loc(f))
    return rr
