"""C12 - Value types are immutable values with consistent equality, hashing and ordering (structural clauses)."""
from __future__ import annotations

import ast

from ..core import Ctx, RuleResult, rule
from ..model import AnalysisError, mangle, unparse
from ..order import check_total_order

SIX = ["__eq__", "__ne__", "__lt__", "__le__", "__gt__", "__ge__"]
ORDERED_TYPES = {
    "LocalTime": SIX + ["compare_to"],
    "Offset": SIX + ["compare_to", "equals"],
    "Duration": SIX + ["compare_to", "equals"],
    "Instant": SIX + ["compare_to", "equals"],
    "_LocalInstant": ["__eq__", "__ne__", "__lt__", "__le__", "__gt__", "__ge__"],
    "_YearMonthDay": SIX + ["compare_to", "equals"],
    "AnnualDate": SIX + ["compare_to", "equals"],
    "LocalDate": SIX + ["compare_to", "equals"],
    "YearMonth": SIX + ["compare_to", "equals"],
    "LocalDateTime": SIX + ["compare_to", "equals"],
}


@rule("C12")
def r12_1_total_order(ctx: Ctx) -> RuleResult:
    rr = RuleResult("R12.1", "ordering operators, compare_to, equals, min and max agree with one total order on every ordering of the key", min_instances=70)
    for t, methods in ORDERED_TYPES.items():
        c = ctx.M.cls(t)
        ms = [m for m in methods if ctx.M.find_method(c, m) is not None or m in SIX]
        check_total_order(ctx, rr, t, ms)
    return rr


# ------------------------------------------------------------------------------------------- eq / hash field rules

VALUE_TYPES = ["Duration", "Instant", "Offset", "LocalDate", "LocalTime", "LocalDateTime", "YearMonth", "AnnualDate", "OffsetDate", "OffsetTime",
               "OffsetDateTime", "ZonedDateTime", "Interval", "DateInterval", "Period", "_YearMonthDay", "_YearMonthDayCalendar", "ZoneInterval",
               "_FixedDateTimeZone", "_LocalInstant", "MapZone", "Country"]

# stored fields that __eq__ legitimately does not compare directly (one line of reason each)
EQ_EXEMPT = {
    ("ZoneInterval", "_ZoneInterval__local_start"): "derived in __init__ from raw_start and wall_offset, both compared",
    ("ZoneInterval", "_ZoneInterval__local_end"): "derived in __init__ from raw_end and wall_offset, both compared",
    ("OffsetTime", "_OffsetTime__nanoseconds_and_offset"): "packed field; time_of_day and offset together decode all of it (layout rule R11.3)",
    ("_FixedDateTimeZone", "_FixedDateTimeZone__interval"): "derived in __init__ from id/offset/name, all compared",
    ("_FixedDateTimeZone", "_DateTimeZone__is_fixed"): "constant True for this class",
    ("_FixedDateTimeZone", "_DateTimeZone__min_offset"): "equals offset for a fixed zone (same constructor argument)",
    ("_FixedDateTimeZone", "_DateTimeZone__max_offset"): "equals offset for a fixed zone (same constructor argument)",
}
CTORS = ("__init__", "_ctor", "__ctor", "__new__")


def stored_fields(ctx: Ctx, c) -> set[str]:
    from ..kit import stores_in

    out: set[str] = set()
    for k in ctx.M.mro(c):
        for f in k.all_defs:
            if f.name.lstrip("_").rstrip("_") in ("init", "ctor", "new") or f.name in CTORS:
                for s in stores_in(f):
                    parts = s.target.split(".")
                    if len(parts) == 2 and parts[0] in ("self",) and s.kind == "attr":
                        out.add(parts[1])
    return out


def resolve_key(ctx: Ctx, c, name: str, pure: bool, depth: int = 0) -> set[str] | None:
    """Map a compared/hashed attribute of class c to stored fields.
    pure=True: only identity accessors (`return self.F`) are followed; pure=False: any property is mapped to the root fields it reads."""
    M = ctx.M
    fields = stored_fields(ctx, c)
    mn = mangle(c.name, name)
    for k in M.mro(c):
        mk = mangle(k.name, name)
        if mk in fields:
            return {mk}
    if mn in fields:
        return {mn}
    f = M.find_method(c, mn)
    if f is None or f.kind != "property" or depth > 4:
        return None
    body = f.body
    if pure:
        if len(body) == 1 and isinstance(body[0], ast.Return) and isinstance(body[0].value, ast.Attribute) and isinstance(body[0].value.value, ast.Name) and body[0].value.value.id == "self":
            return resolve_key(ctx, f.cls, body[0].value.attr, True, depth + 1)
        return None
    roots: set[str] = set()
    for n in ast.walk(f.node):
        if isinstance(n, ast.Attribute) and isinstance(n.value, ast.Name) and n.value.id == "self":
            r = resolve_key(ctx, f.cls, n.attr, False, depth + 1)
            if r:
                roots |= r
    return roots or None


def eq_conjuncts(f) -> list[ast.expr] | None:
    """Conjuncts of the final `return a and b and ...` of __eq__ (after the isinstance / identity guards)."""
    from ..kit import own_nodes as _own

    # the return that carries the comparison: `return NotImplemented` / `return False` / `return True` exits are guards,
    # wherever they stand (isinstance test first or last)
    rets = [s for s in _own(f.node) if isinstance(s, ast.Return) and s.value is not None
            and not (isinstance(s.value, ast.Name) and s.value.id == "NotImplemented") and not (isinstance(s.value, ast.Constant) and isinstance(s.value.value, bool))]
    if len(rets) != 1:
        return None
    v = rets[0].value
    out = list(v.values) if isinstance(v, ast.BoolOp) and isinstance(v.op, ast.And) else ([v] if v is not None else [])
    # `if not <c>: return False` / `if <a> != <b>: return False` before the final return are conjuncts too
    pre: list[ast.expr] = []
    for s in f.body:
        if isinstance(s, ast.If) and not s.orelse and len(s.body) == 1 and isinstance(s.body[0], ast.Return) and isinstance(s.body[0].value, ast.Constant) and s.body[0].value.value is False:
            t = s.test
            if isinstance(t, ast.UnaryOp) and isinstance(t.op, ast.Not):
                inner = t.operand
                pre.extend(inner.values if isinstance(inner, ast.BoolOp) and isinstance(inner.op, ast.And) else [inner])
            elif isinstance(t, ast.Compare) and len(t.ops) == 1 and isinstance(t.ops[0], ast.NotEq):
                pre.append(ast.copy_location(ast.Compare(left=t.left, ops=[ast.Eq()], comparators=t.comparators), t))
            elif isinstance(t, ast.BoolOp) and isinstance(t.op, ast.Or) and all(isinstance(x, ast.Compare) and len(x.ops) == 1 and isinstance(x.ops[0], ast.NotEq) for x in t.values):
                pre.extend(ast.copy_location(ast.Compare(left=x.left, ops=[ast.Eq()], comparators=x.comparators), x) for x in t.values)
    return (pre + out) or None


@rule("C12")
def r12_2_3_eq_hash_fields(ctx: Ctx) -> RuleResult:
    rr = RuleResult("R12.2-3", "__eq__ compares every stored component directly; __hash__ reads only compared components", min_instances=30)
    M = ctx.M
    for tname in VALUE_TYPES:
        c = M.cls(tname)
        feq = M.find_method(c, "__eq__")
        if feq is None:
            raise AnalysisError(f"{tname}.__eq__ missing")
        owner = feq.cls
        rr.inst()
        conj = eq_conjuncts(feq)
        if conj is None:
            rr.fail(feq.qual, "__eq__ is not a conjunction of component comparisons after its type guard", ctx.loc(feq))
            continue
        oname = feq.value_params[0].arg
        covered: set[str] = set()
        compared_names: set[str] = set()
        ok = True
        for cj in conj:
            good = False
            if isinstance(cj, ast.Compare) and len(cj.ops) == 1 and isinstance(cj.ops[0], ast.Eq):
                a, b = cj.left, cj.comparators[0]
                if isinstance(a, ast.Attribute) and isinstance(b, ast.Attribute) and isinstance(a.value, ast.Name) and isinstance(b.value, ast.Name) and {a.value.id, b.value.id} == {"self", oname} and a.attr == b.attr:
                    r = resolve_key(ctx, owner, a.attr, True)
                    compared_names.add(mangle(owner.name, a.attr))
                    if r:
                        covered |= r
                    good = True
            if not good:
                ok = False
                rr.fail(feq.qual, f"conjunct `{unparse(cj)[:90]}` does not compare the same component of self and {oname} directly (projection or mismatched operands)", ctx.loc(feq, cj))
        if not ok:
            continue
        fields = stored_fields(ctx, owner)
        missing = sorted(f for f in fields if f not in covered and (tname, f) not in EQ_EXEMPT and (owner.name, f) not in EQ_EXEMPT)
        # derived comparisons (properties that are functions of a field) cover that field only if exempted above
        if missing:
            rr.fail(feq.qual, f"stored component(s) {missing} are not compared by __eq__", ctx.loc(feq))
        else:
            rr.ok({"type": tname, "compared": sorted(compared_names), "stored": sorted(fields)})
        # hash
        fh = M.find_method(c, "__hash__")
        if fh is None or fh.cls is not owner and not M.is_subclass(owner, fh.cls.name):
            rr.notes.append(f"{tname}: defines __eq__ without __hash__ (unhashable; allowed)")
            continue
        rr.inst()
        bad = []
        partial: list[str] = []
        covered_any: set[str] = set(covered)
        for nm in compared_names:
            r = resolve_key(ctx, owner, nm, False)
            if r:
                covered_any |= r
        for n in ast.walk(fh.node):
            if isinstance(n, ast.Attribute) and isinstance(n.value, ast.Name) and n.value.id == "self":
                mn = mangle(owner.name, n.attr)
                if mn in compared_names:
                    continue
                r = resolve_key(ctx, owner, n.attr, False)
                if r is None or not r <= covered_any:
                    bad.append(n.attr)
                # totality: __eq__ compares the stored fields, so every value __eq__ accepts must hash - an accessor that raises for
                # some stored states (Interval.start of an interval without a start) makes equal values unhashable
                acc = M.find_method(owner, mn) or M.find_method(owner, n.attr)
                if acc is not None and acc.kind == "property" and any(isinstance(x, ast.Raise) or (isinstance(x, ast.Call) and unparse(x.func).split(".")[-1] in ("_check_state", "_check_argument", "_check_not_null")) for x in ast.walk(acc.node)):
                    partial.append(n.attr)
        if partial:
            rr.fail(fh.qual, f"__hash__ reads {sorted(set(partial))} through accessor(s) that raise for some stored states, while __eq__ compares the stored fields: values that are equal cannot be hashed (an Interval without a start)", ctx.loc(fh))
        elif bad:
            rr.fail(fh.qual, f"__hash__ reads {sorted(set(bad))}, which __eq__ does not compare (equal values may hash differently)", ctx.loc(fh))
        else:
            rr.ok({"type": tname, "hash_reads_subset_of_eq": True})
    return rr


# ------------------------------------------------------------------------------------------- refusal rules (order domain)


@rule("C12")
def r12_4_refusal(ctx: Ctx) -> RuleResult:
    """Ordering values of different calendars raises on every path; rich comparisons against a non-instance return
    NotImplemented (Python then raises TypeError for ordering) and compare_to raises."""
    from ..absint import ConstV, Iv
    from ..order import build, run, ranks_for

    from ..order import calendar_compare_stub

    rr = RuleResult("R12.4", "cross-calendar ordering raises; ordering against unrelated types is refused", min_instances=60)
    M = ctx.M
    ORD = ["__lt__", "__le__", "__gt__", "__ge__", "compare_to"]
    for t in ("LocalDate", "YearMonth", "LocalDateTime"):
        c = M.cls(t)
        a, b = build(t, "a", cal=0), build(t, "b", cal=1)
        n = len(a.keys)
        for name in ORD + ["max", "min"]:
            f = M.find_method(c, name)
            if f is None:
                if name in ("max", "min"):
                    continue
                raise AnalysisError(f"{t}.{name} missing")
            rr.inst()
            leaks = []
            for rel in [(0,) * n, (-1,) + (0,) * (n - 1), (1,) + (0,) * (n - 1)]:
                ps = [p.arg for p in f.value_params]
                rk = ranks_for(a, b, rel)
                stubs = {"CalendarSystem._compare": calendar_compare_stub(rk)}
                if name in ("max", "min"):
                    out = run(ctx, f, None, {ps[0]: a.obj, ps[1]: b.obj}, rk, stubs)
                else:
                    out = run(ctx, f, a.obj, {ps[0]: b.obj}, rk, stubs)
                rr.states += 1
                if out.values:
                    leaks.append((rel, out.values[0]))
            if leaks:
                rr.fail(f.qual, f"operands of different calendars: a path returns {leaks[0][1]} instead of raising", ctx.loc(f))
            else:
                rr.ok({"method": f.qual, "different_calendars": "every path raises"})
    from .c12 import ORDERED_TYPES  # noqa: PLW0406

    for t in ORDERED_TYPES:
        c = M.cls(t)
        a = build(t, "a")
        for name in ["__eq__", "__lt__", "__le__", "__gt__", "__ge__", "compare_to"]:
            f = M.find_method(c, name)
            if f is None:
                continue
            rr.inst()
            out = run(ctx, f, a.obj, {f.value_params[0].arg: Iv(5, 5)}, {})
            rr.states += 1
            if name == "compare_to":
                good = not out.values
            else:
                good = bool(out.values) and all(isinstance(v, ConstV) and v.v == "NotImplemented" for v in out.values)
            if good:
                rr.ok({"method": f.qual, "non_instance": "NotImplemented" if name != "compare_to" else "raises"})
            else:
                rr.fail(f.qual, f"comparison with an unrelated type is answered ({out.values[:1]}) instead of refused", ctx.loc(f))
    return rr


@rule("C12")
def r12_1b_hebrew_compare(ctx: Ctx) -> RuleResult:
    """The Hebrew calculator's compare: civil numbering = packed-value order; scriptural numbering = lexicographic on
    (year, civil month, day), on all 27 component orderings (the civil-month conversion is an opaque monotone-free atom)."""
    from ..absint import AtomV, Iv, Obj
    from ..model import UNKNOWN
    from ..order import REL, lex, orderings, run

    rr = RuleResult("R12.1b", "calendar comparison: Hebrew = civil order in both month numberings; base = packed order; CalendarSystem._compare delegates in order", min_instances=4)
    M = ctx.M
    c = M.cls("_HebrewYearMonthDayCalculator")
    f = M.find_method(c, "compare")
    if f is None:
        raise AnalysisError("_HebrewYearMonthDayCalculator.compare missing")
    civil = M.fold_class_const("HebrewMonthNumbering", "CIVIL")
    script = M.fold_class_const("HebrewMonthNumbering", "SCRIPTURAL")
    if civil is UNKNOWN or script is UNKNOWN:
        raise AnalysisError("HebrewMonthNumbering members not foldable")
    conv = M.find_method(c, mangle(c.name, "__calendar_to_civil_month"))
    if conv is None:
        raise AnalysisError("__calendar_to_civil_month missing")
    fld = mangle(c.name, "__month_numbering")

    def ymd(p: str) -> Obj:
        return Obj("_YearMonthDay", {"_year": AtomV(p + ".year"), "_month": AtomV(p + ".rawmonth"), "_day": AtomV(p + ".day"), mangle("_YearMonthDay", "__value"): AtomV(p + ".packed")})

    def stub(args, kws, recv):
        mth = args[1] if len(args) > 1 else kws.get("month")
        if isinstance(mth, AtomV) and mth.name.endswith(".rawmonth"):
            return AtomV(mth.name.replace(".rawmonth", ".civilmonth"))
        return Iv(-float("inf"), float("inf"), False)

    # scriptural
    rr.inst()
    bad = None
    for rel in orderings(3):
        ranks = {}
        for comp, r in zip(("year", "civilmonth", "day"), rel):
            ranks["a." + comp] = 1
            ranks["b." + comp] = 1 - r
        out = run(ctx, f, Obj(c.name, {fld: Iv(script, script)}), {"lhs": ymd("a"), "rhs": ymd("b")}, ranks, stubs={conv.qual: stub})
        rr.states += 1
        sg = out.sign
        want = lex(rel)
        lab = ",".join(REL[x] for x in rel)
        if sg is None:
            bad = (lab, "not decided within the order fragment: " + (out.escaped or [repr(out.values)])[0])
            break
        if sg != want:
            bad = (lab, f"sign {REL[sg]} but (year, civil month, day) order is {REL[want]}")
            break
    if bad:
        rr.fail(f.qual, f"scriptural numbering, component relation ({bad[0]}): {bad[1]}", ctx.loc(f))
    else:
        rr.ok({"method": f.qual, "numbering": "scriptural", "orderings": 27})
    # civil
    rr.inst()
    bad = None
    for r in (-1, 0, 1):
        ranks = {"a.packed": 1, "b.packed": 1 - r}
        out = run(ctx, f, Obj(c.name, {fld: Iv(civil, civil)}), {"lhs": ymd("a"), "rhs": ymd("b")}, ranks, stubs={conv.qual: stub})
        rr.states += 1
        if out.sign != r:
            bad = (REL[r], out)
            break
    if bad:
        rr.fail(f.qual, f"civil numbering, packed relation {bad[0]}: result {bad[1].values} / {bad[1].escaped[:1]}", ctx.loc(f))
    else:
        rr.ok({"method": f.qual, "numbering": "civil", "orderings": 3})
    # the base calculator's compare is the packed-value order, and CalendarSystem._compare delegates to the calculator with (lhs, rhs) in order
    base = M.func("_YearMonthDayCalculator.compare")
    rr.inst()
    bad = None
    for r in (-1, 0, 1):
        ranks = {"a.packed": 1, "b.packed": 1 - r}
        out = run(ctx, base, Obj("_YearMonthDayCalculator", {"$exact": Iv(1, 1)}), {"lhs": ymd("a"), "rhs": ymd("b")}, ranks)
        rr.states += 1
        if out.sign != r:
            bad = (REL[r], out)
    if bad:
        rr.fail(base.qual, f"packed relation {bad[0]}: result {bad[1].values} / {bad[1].escaped[:1]}", ctx.loc(base))
    else:
        rr.ok({"method": base.qual, "orderings": 3})
    from ..terms import Store, TermEval, show, sym

    cc = M.func("CalendarSystem._compare")
    rr.inst()
    outs = TermEval(M, ctx.R, cc, inline_depth=1).run(Store({"lhs": sym("LHS"), "rhs": sym("RHS")}))
    good = len(outs) == 1 and outs[0][0] is not None and outs[0][0][0] == "call" and outs[0][0][1].endswith(".compare") and tuple(outs[0][0][2]) == (sym("LHS"), sym("RHS"))
    if good:
        rr.ok({"method": cc.qual, "delegates": show(outs[0][0])})
    else:
        rr.fail(cc.qual, f"must return calculator.compare(lhs, rhs); found {[show(o[0]) for o in outs]}", ctx.loc(cc))
    return rr


# ------------------------------------------------------------------------------------------- immutability


def fresh_self_functions(ctx: Ctx, c) -> set[int]:
    """Functions of class c in which `self` denotes a freshly created instance (constructors)."""
    out: set[int] = set()
    for k in ctx.M.mro(c):
        for f in k.all_defs:
            if f.name == "__init__" or f.name == "__new__":
                out.add(id(f))
                continue
            if isinstance(f.node, ast.Lambda):
                continue
            for n in ast.walk(f.node):
                if isinstance(n, (ast.Assign, ast.AnnAssign)):
                    tg = n.targets[0] if isinstance(n, ast.Assign) else n.target
                    v = n.value
                    if isinstance(tg, ast.Name) and tg.id == "self" and isinstance(v, ast.Call) and isinstance(v.func, ast.Attribute) and v.func.attr == "__new__":
                        out.add(id(f))
    return out


@rule("C12")
def r12_5_immutability(ctx: Ctx) -> RuleResult:
    from ..kit import stores_in

    rr = RuleResult("R12.5", "no field of a value type is written outside its constructors; no operation mutates an operand", min_instances=20)
    M, R = ctx.M, ctx.R
    vt = {M.cls(t).name: M.cls(t) for t in VALUE_TYPES}
    fresh: dict[str, set[int]] = {t: fresh_self_functions(ctx, c) for t, c in vt.items()}
    counted = 0
    for f in M.funcs.values():
        if isinstance(f.node, ast.Lambda) or "_compatibility" in f.mod.rel:
            continue
        for s in stores_in(f):
            root = s.target.split(".")[0]
            t = R.scope(f).vars.get(root)
            if isinstance(t, tuple) and t[0] == "union":
                cands = [x for x in t[1] if isinstance(x, str)]
            else:
                cands = [t] if isinstance(t, str) else []
            if root == "self" and f.cls is not None:
                cands = [k.name for k in M.mro(f.cls)] if not cands else cands
            hit = [x for x in cands if x in vt]
            if not hit and root == "self" and f.cls is not None:
                hit = [k.name for k in M.mro(f.cls) if k.name in vt]
            if not hit:
                continue
            counted += 1
            tname = hit[0]
            if root == "self" and id(f) in fresh[tname]:
                continue
            rr.fail(f.qual, f"writes {s.target} of value type {tname} outside its constructors ({s.kind})", ctx.loc(f, s.node))
    for t in vt:
        rr.inst()
        if not any(fd.rule == "R12.5" and f" {t} " in fd.what for fd in rr.findings):
            rr.ok({"type": t, "constructors": len(fresh[t])})
    rr.notes.append(f"{counted} attribute/subscript stores on value-type instances examined")
    return rr


# registries whose key determines the other constructor arguments at the construction sites: constructor -> reason
INTERN_REVIEWED = {
    "CalendarSystem.__ctor": "the registry is keyed by the calendar ordinal; every ordinal has exactly one construction site, which fixes id, name and calculators (decided by R01.2 and R02.8)",
}


@rule("C12")
def r12_6_interned_identity(ctx: Ctx) -> RuleResult:
    """Types compared by identity (no __eq__) whose constructor is memoised: the memo key must determine every stored component,
    otherwise two different values (e.g. two eras sharing a short name) become one object and compare equal."""
    from ..memo import memo_tables

    rr = RuleResult("R12.6", "interned constructors of identity-compared types key the intern table on every stored component", min_instances=1)
    for mt in memo_tables(ctx.M):
        f = mt.fn
        if f.cls is None or f.name.strip("_") not in ("ctor", "new", "init"):
            continue
        if ctx.M.find_method(f.cls, "__eq__") is not None:
            continue
        rr.inst()
        if f.qual in INTERN_REVIEWED:
            rr.ok({"interned constructor": f.qual, "reviewed": INTERN_REVIEWED[f.qual]})
        elif mt.problem:
            rr.fail(f.qual, mt.problem, ctx.loc(f, mt.node))
        else:
            rr.ok({"interned constructor": f.qual, "how": mt.how, "components": sorted(mt.deps)})
    return rr


@rule("C12")
def r12_14_packed_words_are_built_alike(ctx: Ctx) -> RuleResult:
    """A packed field that __eq__ / __hash__ compare RAW must be the same integer whichever construction form produced it.
    Python integers are unbounded: `x & 0xFFFFFFFF` turns the negative word of a year <= 0 into a positive one that decodes to
    the same fields but is a different value for `==` and `hash`.  All assignments to a shift-packed field of a value class
    therefore agree on whether (and with what) the whole word is masked."""
    from ..kit import inline_locals, inline_simple_call, own_nodes

    rr = RuleResult("R12.14", "every construction form of a raw-compared packed word builds the same integer: the whole-word mask (or its absence) is the same in all assignments", min_instances=2)
    M = ctx.M
    for tname in VALUE_TYPES:
        c = M.cls(tname)
        if c is None:
            continue
        sites: dict[str, list] = {}
        for f in c.all_defs:
            if isinstance(f.node, ast.Lambda):
                continue
            for n in own_nodes(f.node):
                if isinstance(n, (ast.Assign, ast.AnnAssign)) and getattr(n, "value", None) is not None:
                    # the packing may stand in locals or in a one-line helper: look at the expression with both expanded
                    v = inline_locals(f.node, n.value)
                    if isinstance(v, ast.Call):
                        v = inline_simple_call(ctx.R, v, f) or v
                    for t in [n.target] if isinstance(n, ast.AnnAssign) else n.targets:
                        if isinstance(t, ast.Attribute) and isinstance(t.value, ast.Name) and t.value.id in (f.self_name, "self") and any(isinstance(x, ast.BinOp) and isinstance(x.op, ast.LShift) for x in ast.walk(v)):
                            sites.setdefault(t.attr, []).append((f, n, v))
        for fld, ss in sorted(sites.items()):
            if len(ss) < 2:
                continue
            rr.inst()

            def mask(v):
                if isinstance(v, ast.BinOp) and isinstance(v.op, ast.BitAnd):
                    for side in (v.left, v.right):
                        k = M.fold(side, c, c.mod)
                        if isinstance(k, int):
                            return k
                return None

            masks = [(mask(v), f, n) for f, n, v in ss]
            kinds = {m for m, _f, _n in masks}
            if len(kinds) == 1:
                rr.ok({"type": tname, "field": fld, "forms": len(ss), "whole-word mask": next(iter(kinds))})
            else:
                odd = next((x for x in masks if x[0] is not None), masks[0])
                rr.fail(odd[1].qual, f"`{unparse(odd[2])[:100]}` masks the whole word with {odd[0]:#x} while another construction form of `{fld}` does not: for a negative word (year <= 0) the two forms give different integers for the same fields, and `==` / `hash` compare the raw word", ctx.loc(odd[1], odd[2]))
    return rr
