"""C16 - Week-year rules and weekday navigation are self-consistent and match ISO 8601 (structural clauses)."""
from __future__ import annotations

import ast

from ..absint import Iv, Obj, State
from ..core import Ctx, RuleResult, anchor_files, rule
from ..kit import own_nodes, result_influences
from ..model import UNKNOWN, AnalysisError, mangle, unparse
from ..oblig import interp

INFLUENCE = {
    "LocalDate.from_year_month_week_and_day": ["year", "month", "occurrence", "day_of_week"],
    "LocalDate.from_week_year_week_and_day": ["week_year", "week_of_week_year", "day_of_week"],
    "LocalDate.next": ["target_day_of_week"],
    "LocalDate.previous": ["target_day_of_week"],
    "LocalDateTime.next": ["target_day_of_week"],
    "LocalDateTime.previous": ["target_day_of_week"],
    "DateAdjusters.next": ["day_of_week"],
    "DateAdjusters.previous": ["day_of_week"],
    "DateAdjusters.next_or_same": ["day_of_week"],
    "DateAdjusters.previous_or_same": ["day_of_week"],
    "DateAdjusters.day_of_month": ["day"],
    "DateAdjusters.month": ["month"],
    "_SimpleWeekYearRule.get_local_date": ["week_year", "week_of_week_year", "day_of_week", "calendar"],
    "_SimpleWeekYearRule.get_week_of_week_year": ["date"],
    "_SimpleWeekYearRule.get_weeks_in_week_year": ["week_year", "calendar"],
    "_SimpleWeekYearRule.get_week_year": ["date"],
    "WeekYearRules.for_min_days_in_first_week": ["min_days_in_first_week", "first_day_of_week"],
    "WeekYearRules.from_calendar_week_rule": ["calendar_week_rule", "first_day_of_week"],
}


@rule("C16")
def r16_1_parameter_influence(ctx: Ctx) -> RuleResult:
    rr = RuleResult("R16.1", "every parameter of the week/weekday constructors and navigators reaches the result (not only a guard)", min_instances=29)
    for q, params in INFLUENCE.items():
        f = ctx.M.func(q)
        infl = result_influences(f)
        have = {p.arg for p in f.value_params}
        for p in params:
            if p not in have:
                raise AnalysisError(f"{q} has no parameter {p}")
            rr.inst()
            if p in infl:
                rr.ok({"fn": q, "param": p})
            else:
                rr.fail(q, f"parameter `{p}` never reaches the returned value (it is only range-checked): all its values give the same result", ctx.loc(f))
    return rr


@rule("C16")
def r16_2_weekday_stepping(ctx: Ctx) -> RuleResult:
    rr = RuleResult("R16.2", "next/previous step by (target - current) normalised into [1,7] / [-7,-1]; or-same forms return the date itself exactly when the weekday matches", min_instances=5)
    M = ctx.M
    # day-of-week computation lands in [1, 7] on both sign arms
    f = M.func("CalendarSystem._get_day_of_week")
    rr.inst()
    I = interp(ctx)
    seen = []

    def on_call(call, callee, bound, st, fn):
        pass

    vals = []
    orig = I.call

    def call(c, st, fn, depth):  # capture the argument of IsoDayOfWeek(...)
        if depth == 0 and unparse(c.func) == "IsoDayOfWeek" and c.args:
            vals.append(I.ev(c.args[0], st, fn, depth))
        return orig(c, st, fn, depth)

    I.call = call  # type: ignore[method-assign]
    I.analyse(f)
    rr.states += I.steps
    if vals and all(isinstance(v, Iv) and v.within(1, 7) for v in vals):
        rr.ok({"fn": f.qual, "numeric_day_of_week": [repr(v) for v in vals]})
    else:
        rr.fail(f.qual, f"numeric day of week not proved in [1, 7]: {vals}", ctx.loc(f))
    for q, (lo, hi) in {"LocalDate.next": (1, 7), "LocalDate.previous": (-7, -1)}.items():
        f = M.func(q)
        I = interp(ctx)
        steps = []

        def on_call2(call, callee, bound, st, fn, steps=steps, I=I):
            if callee.name == "plus_days":
                steps.append((list(bound.values())[0], I.lin(I.term(call.args[0], st, fn)) if call.args else None))

        I.on_call = on_call2
        # current weekday: any member of [1, 7] (established above)
        C = I.C
        C.ret["CalendarSystem._get_day_of_week"] = (1, 7)
        I.analyse(f)
        rr.states += I.steps
        rr.inst()
        p = f.value_params[0].arg
        bad = None
        if not steps:
            bad = "no plus_days step found"
        for v, lin in steps:
            if not (isinstance(v, Iv) and v.within(lo, hi)):
                bad = f"step {v} not proved inside [{lo}, {hi}]"
            elif lin is None:
                bad = "step is not a linear form of target and current weekday"
            else:
                c0, atoms = lin
                coef_t = sum(k for a, k in atoms.items() if a == ("v", p))
                others = {a: k for a, k in atoms.items() if a != ("v", p)}
                if coef_t != 1 or sorted(others.values()) != [-1] or c0 not in (0, 7, -7):
                    bad = f"step is not (target - current) + 7k: {lin}"
        if bad:
            rr.fail(q, bad, ctx.loc(f))
        else:
            rr.ok({"fn": q, "steps": [repr(v) for v, _ in steps]})
    # or-same adjusters
    for q, delegate in {"DateAdjusters.next_or_same": "next", "DateAdjusters.previous_or_same": "previous"}.items():
        f = M.func(q)
        rr.inst()
        lambdas = [n for n in own_nodes(f.node) if isinstance(n, ast.Return) and isinstance(n.value, ast.Lambda)]
        ok = False
        why = "does not return a single lambda"
        if len(lambdas) == 1:
            lam = lambdas[0].value
            d = lam.args.args[0].arg
            b = lam.body
            cap = f.value_params[0].arg
            why = f"lambda body `{unparse(b)[:80]}` is not `date if date.day_of_week == {cap} else date.{delegate}({cap})`"
            if isinstance(b, ast.IfExp) and isinstance(b.test, ast.Compare) and len(b.test.ops) == 1 and isinstance(b.test.ops[0], (ast.Eq, ast.NotEq)):
                sides = {unparse(b.test.left), unparse(b.test.comparators[0])}
                same, other = (b.body, b.orelse) if isinstance(b.test.ops[0], ast.Eq) else (b.orelse, b.body)
                if sides == {f"{d}.day_of_week", cap} and isinstance(same, ast.Name) and same.id == d:
                    if isinstance(other, ast.Call) and unparse(other.func) == f"{d}.{delegate}" and [unparse(a) for a in other.args] == [cap]:
                        ok = True
        if ok:
            rr.ok({"fn": q, "shape": "identity when the weekday matches, else strict " + delegate})
        else:
            rr.fail(q, why, ctx.loc(f))
    return rr


@rule("C16")
def r16_3_week_arithmetic_ranges(ctx: Ctx) -> RuleResult:
    rr = RuleResult("R16.3", "week arithmetic: days-into-week in [0,6], start-of-year weekday in [1,7], n-th weekday target in [1, 35]", min_instances=2)
    M = ctx.M
    c = M.cls("_SimpleWeekYearRule")
    fdow = mangle(c.name, "__first_day_of_week")
    inst = Obj(c.name, {fdow: Iv(1, 7), mangle(c.name, "__min_days_in_first_week"): Iv(1, 7), mangle(c.name, "__irregular_weeks"): Iv(0, 1)})
    for name in ("get_local_date", mangle(c.name, "__get_week_year_days_since_epoch")):
        f = M.find_method(c, name)
        if f is None:
            raise AnalysisError(f"_SimpleWeekYearRule.{name} missing")
        I = interp(ctx)
        seen: dict[str, list] = {}

        orig_assign = I._assign

        def _assign(t, v, st, fn, depth, stmt, seen=seen, orig=orig_assign):
            if depth == 0 and isinstance(t, ast.Name) and t.id in ("days_into_week", "start_of_year_day_of_week"):
                seen.setdefault(t.id, []).append(v)
            return orig(t, v, st, fn, depth, stmt)

        I._assign = _assign  # type: ignore[method-assign]
        params = {"day_of_week": Iv(1, 7)} if name == "get_local_date" else None
        I.analyse(f, self_obj=inst, params=params)
        rr.states += I.steps
        # start_of_year_day_of_week is deliberately NOT required to be in [1,7]: with Python's % it ranges over [7,13] for
        # negative year starts, but it is only ever used modulo 7 (through days_into_week), which is what is proved here.
        for var, (lo, hi) in {"days_into_week": (0, 6)}.items():
            if var in seen:
                rr.inst()
                if all(isinstance(v, Iv) and v.within(lo, hi) for v in seen[var]):
                    rr.ok({"fn": f.qual, "var": var, "range": [repr(v) for v in seen[var]]})
                else:
                    rr.fail(f.qual, f"{var} not proved inside [{lo}, {hi}]: {seen[var]}", ctx.loc(f))
    return rr


@rule("C16")
def r16_4_rule_wiring(ctx: Ctx) -> RuleResult:
    rr = RuleResult("R16.4", "ISO rule = (4 days, Monday, regular); BCL rule table (1 / 4 / 7 days, irregular); LocalDate.from_week_year_week_and_day uses ISO rule and calendar", min_instances=6)
    M = ctx.M
    c = M.cls("_SimpleWeekYearRule")
    F = {k: mangle(c.name, k) for k in ("__min_days_in_first_week", "__first_day_of_week", "__irregular_weeks")}
    monday = M.fold_class_const("IsoDayOfWeek", "MONDAY")

    def fields(v):
        if not isinstance(v, Obj) or v.tname != c.name:
            return None
        return tuple(v.fields.get(F[k]) for k in ("__min_days_in_first_week", "__first_day_of_week", "__irregular_weeks"))

    f = M.func("_WeekYearRulesMeta.iso")
    rr.inst()
    I = interp(ctx)
    rets, _ = I.analyse(f)
    got = [fields(v) for v, _ in rets]
    want = (Iv(4, 4), Iv(monday, monday), Iv(0, 0))
    if got == [want]:
        rr.ok({"rule": "iso", "fields": [repr(x) for x in want]})
    else:
        rr.fail(f.qual, f"ISO rule must be (min days 4, first day MONDAY, regular); found {got}", ctx.loc(f))
    f = M.func("WeekYearRules.from_calendar_week_rule")
    for member, days in {"FIRST_DAY": 1, "FIRST_FOUR_DAY_WEEK": 4, "FIRST_FULL_WEEK": 7}.items():
        mv = M.fold_class_const("CalendarWeekRule", member)
        if mv is UNKNOWN:
            raise AnalysisError(f"CalendarWeekRule.{member} not foldable")
        rr.inst()
        I = interp(ctx)
        rets, _ = I.analyse(f, params={"calendar_week_rule": Iv(mv, mv), "first_day_of_week": Iv(3, 3)})
        got = [fields(v) for v, _ in rets]
        want = (Iv(days, days), Iv(3, 3), Iv(1, 1))
        if got == [want]:
            rr.ok({"rule": member, "min_days": days, "irregular": True})
        else:
            rr.fail(f.qual, f"CalendarWeekRule.{member} must map to (min days {days}, given first day, irregular); found {got}", ctx.loc(f))
    f = M.func("WeekYearRules.for_min_days_in_first_week")
    rr.inst()
    I = interp(ctx)
    rets, _ = I.analyse(f, params={"min_days_in_first_week": Iv(5, 5), "first_day_of_week": Iv(2, 2)})
    got = [fields(v) for v, _ in rets]
    if got == [(Iv(5, 5), Iv(2, 2), Iv(0, 0))]:
        rr.ok({"rule": "for_min_days_in_first_week", "regular": True})
    else:
        rr.fail(f.qual, f"must build a regular rule from its two arguments; found {got}", ctx.loc(f))
    f = M.func("LocalDate.from_week_year_week_and_day")
    rr.inst()
    from ..terms import Store, TermEval, show, sym

    outs = TermEval(M, ctx.R, f, inline_depth=0).run(Store({p.arg: sym(p.arg) for p in f.value_params}))
    good = False
    if len(outs) == 1 and outs[0][0] is not None:
        t = outs[0][0]
        if t[0] == "call" and t[1].endswith("get_local_date") and t[4] is not None and t[4][0] == "attr" and t[4][2] == "iso" and t[4][1] == sym("WeekYearRules"):
            args = list(t[2])
            if args[:3] == [sym("week_year"), sym("week_of_week_year"), sym("day_of_week")] and len(args) == 4 and args[3][0] == "attr" and args[3][2] == "iso":
                good = True
    if good:
        rr.ok({"fn": f.qual, "ret": show(outs[0][0])})
    else:
        rr.fail(f.qual, f"must be WeekYearRules.iso.get_local_date(week_year, week, day, CalendarSystem.iso); found {[show(o[0]) for o in outs]}", ctx.loc(f))
    return rr


@rule("C16")
def r16_5_calendar_retention(ctx: Ctx) -> RuleResult:
    from ..retention import check_retention

    rr = RuleResult("R16.5", "week-year computations stay in the date's calendar (no optional `calendar` dropped)", min_instances=2)
    files = anchor_files("C16")
    check_retention(ctx, rr, lambda f: f.mod.rel in files)
    return rr


@rule("C16")
def r16_6_week_year_admission(ctx: Ctx) -> RuleResult:
    """A week-year is accepted exactly when at least one of its days lies in the calendar: on every ordering of
    (start of week-year max+1, last calendar day) and (start of week-year min, first calendar day)."""
    from ..absint import AtomV, Obj
    from ..oblig import interp as mk

    rr = RuleResult("R16.6", "week-year admission at the calendar's ends: week-year max+1 is accepted iff it starts on or before the calendar's last day, week-year min-1 iff week-year min starts after the calendar's first day (every ordering of the two day numbers)", min_instances=9)
    M = ctx.M
    f = M.func("_SimpleWeekYearRule.__validate_week_year")
    MINY, MAXY = -9998, 9999
    for r_max in (-1, 0, 1):  # start(max+1) <,=,> max_days
        for r_min in (-1, 0, 1):  # start(min) <,=,> min_days
            rr.inst()
            rr.states += 1
            I = mk(ctx)
            I.max_depth = 6
            I.hooks_all_depths = True
            I.ranks = {"startmax": 10 + r_max, "maxd": 10, "startmin": 5 + r_min, "mind": 5}

            def stub(args, kws, recv):
                y = args[1] if len(args) > 1 else kws.get("week_year")
                return AtomV("startmax") if isinstance(y, Iv) and y.const and y.lo == MAXY + 1 else AtomV("startmin")

            I.stubs["_SimpleWeekYearRule.__get_week_year_days_since_epoch"] = stub
            seen: list[tuple] = []

            def on_call(c, callee, bound, st, fn):
                if callee.qual == "_Preconditions._check_argument_range":
                    seen.append((bound.get("min_inclusive"), bound.get("max_inclusive")))

            I.on_call = on_call
            cal = Obj("CalendarSystem", {mangle("CalendarSystem", "__min_year"): Iv(MINY, MINY), mangle("CalendarSystem", "__max_year"): Iv(MAXY, MAXY),
                                         mangle("CalendarSystem", "__min_days"): AtomV("mind"), mangle("CalendarSystem", "__max_days"): AtomV("maxd")})
            so = Obj("_SimpleWeekYearRule", {mangle("_SimpleWeekYearRule", "__irregular_weeks"): Iv(0, 0)})
            I.analyse(f, self_obj=so, params={"week_year": Iv(MAXY + 1, MAXY + 1), "calendar": cal})
            want = (Iv(MINY - 1, MINY - 1) if r_min > 0 else Iv(MINY, MINY), Iv(MAXY + 1, MAXY + 1) if r_max <= 0 else Iv(MAXY, MAXY))
            label = {"start(max+1) vs last day": "<=>"[r_max + 1], "start(min) vs first day": "<=>"[r_min + 1]}
            if I.escaped:
                rr.undecided.append(f"{label}: left the order fragment: {I.escaped[:1]}")
            elif seen == [want]:
                rr.ok({"ordering": label, "admitted": [int(want[0].lo), int(want[1].lo)]})
            else:
                rr.fail(f.qual, f"on the ordering {label} the admitted week-years are {[(repr(a), repr(b)) for a, b in seen]}, a week-year with a day inside the calendar needs [{int(want[0].lo)}, {int(want[1].lo)}]", ctx.loc(f))
    return rr


@rule("C16")
def r16_cfp_calendar_free_productions(ctx: Ctx) -> RuleResult:
    from ..retention import check_calendar_free_productions

    rr = RuleResult("R16.cfp", "no calendar-bearing result is assembled from calendar-free pieces (day number, instant, local instant) while a calendar-bearing value is in hand", min_instances=100)
    check_calendar_free_productions(ctx, rr)
    return rr


@rule("C16")
def r16_7_memo_keys(ctx: Ctx) -> RuleResult:
    """A week-year rule object is shared by all calendars (WeekYearRules.iso is one object): anything it memoises must be keyed on
    the calendar as well as the week-year (home of the analysis: sa/memo.py)."""
    from ..memo import memo_tables

    rr = RuleResult("R16.7", "week-year rules and date adjusters memoise nothing under a key that leaves out a parameter the value depends on", min_instances=0)
    files = anchor_files("C16")
    for mt in memo_tables(ctx.M, files):
        rr.inst()
        if mt.problem:
            rr.fail(mt.fn.qual, mt.problem, ctx.loc(mt.fn, mt.node))
        else:
            rr.ok({"memo": mt.fn.qual, "key": mt.store_key[:60]})
    # the rule is expected to find no memo table at all in these files today: keep a positive control so that it cannot rot
    control = [m for m in memo_tables(ctx.M) if m.table != "functools.cache"]
    rr.inst()
    if control:
        rr.ok({"control": f"{len(control)} memo tables recognised elsewhere in the package (e.g. {control[0].fn.qual})"})
    else:
        raise AnalysisError("memo-table recogniser finds nothing in the whole package (year-start caches expected)")
    return rr


@rule("C16")
def r16_8_nth_weekday_total(ctx: Ctx) -> RuleResult:
    """LocalDate.from_year_month_week_and_day always has an answer inside the requested month, so date arithmetic that can step
    outside the calendar (and raise OverflowError in its last month) must not be on its way: no explicit `raise OverflowError`
    is reachable from it (exception-effect analysis over the resolved call graph)."""
    from ..exc import ExcAnalysis, ExcConfig

    rr = RuleResult("R16.8", "the n-th weekday of a month is found without date arithmetic that can overflow the calendar (no OverflowError reachable)", min_instances=1)
    f = ctx.M.func("LocalDate.from_year_month_week_and_day", required=True)
    A = ExcAnalysis(ctx, ExcConfig())
    esc = A.escapes(f)
    it = esc.values() if isinstance(esc, dict) else esc
    bad = sorted({(e.fn, e.what) for e in it if e.exc == "OverflowError" and e.kind == "raise"})
    rr.inst()
    rr.states += A.calls_seen
    if bad:
        rr.fail(f.qual, f"reaches `{bad[0][1][:60]}` in {bad[0][0]}: for the last month of the calendar the search steps past the end and raises although the requested weekday exists", ctx.loc(f))
    else:
        rr.ok({"fn": f.qual, "calls analysed": A.calls_seen})
    return rr


# ------------------------------------------------------------------------------------------- R16.9 one year beyond each end


@rule("C16")
def r16_9_calculators_answer_one_year_beyond(ctx: Ctx) -> RuleResult:
    """The week-year rules ask a calendar's calculator about the calendar year equal to a week-year, and a week-year can be one less
    than the first calendar year or one more than the last ("YearMonthDayCalculator.GetStartOfYearInDays already handles min/max
    -/+ 1", says the rule's own comment).  Every explicit argument-range check on the year along `_get_start_of_year_in_days`,
    `_calculate_start_of_year_days` and `_get_days_in_year` of each calculator must therefore admit [min_year - 1, max_year + 1]
    (bounds folded per calculator instance); otherwise the first days of the calendar, which belong to week-year min_year - 1
    under most rules, make get_week_year / get_week_of_week_year raise."""
    from ..calendars import calculator_instances

    rr = RuleResult("R16.9", "year-range checks on the year-start / year-length paths of every calculator admit [min_year - 1, max_year + 1], as the week-year rules assume", min_instances=4)
    M = ctx.M
    done = set()
    for ci in calculator_instances(ctx):
        if ci.cls in done:
            continue
        done.add(ci.cls)
        cls = M.cls(ci.cls)
        mn = next((v for k, v in ci.obj.fields.items() if k.endswith("__min_year")), None)
        mx = next((v for k, v in ci.obj.fields.items() if k.endswith("__max_year")), None)
        if mn is None or mx is None:
            raise AnalysisError(f"{ci.cls}: min/max year of the instance unknown")
        lo_need, hi_need = int(mn.lo) - 1, int(mx.hi) + 1
        for entry in ("_get_start_of_year_in_days", "_calculate_start_of_year_days", "_get_days_in_year"):
            f0 = M.find_method(cls, entry)
            if f0 is None or isinstance(f0.node, ast.Lambda):
                continue
            work, seen = [f0], set()
            while work:
                f = work.pop()
                if id(f) in seen or isinstance(f.node, ast.Lambda):
                    continue
                seen.add(id(f))
                ynames = {p.arg for p in f.value_params if p.arg == "year"}
                if not ynames:
                    continue
                for n in own_nodes(f.node):
                    if isinstance(n, ast.Call) and unparse(n.func).endswith("_check_argument_range") and len(n.args) >= 4 and isinstance(n.args[1], ast.Name) and n.args[1].id in ynames:
                        rr.inst()
                        lo, hi = M.fold(n.args[2], f.cls, f.mod), M.fold(n.args[3], f.cls, f.mod)
                        if not isinstance(lo, int) or not isinstance(hi, int):
                            rr.fail(f.qual, f"`{unparse(n)[:80]}`: bounds not foldable (not decided)", ctx.loc(f, n))
                        elif lo <= lo_need and hi >= hi_need:
                            rr.ok({"calculator": ci.cls, "check": f"{f.name}: [{lo}, {hi}]", "needed": f"[{lo_need}, {hi_need}]"})
                        else:
                            rr.fail(f.qual, f"`{unparse(n)[:80]}` accepts years [{lo}, {hi}] on the `{entry}` path, but the week-year rules (and the day-number bounds) ask about [{lo_need}, {hi_need}]: dates in the first / last days of the {ci.cls.replace('_', ' ').strip()} calendar make the week rules raise ValueError", ctx.loc(f, n))
                    # same-object callees that receive the year
                    if isinstance(n, ast.Call) and isinstance(n.func, ast.Attribute) and isinstance(n.func.value, ast.Name) and n.func.value.id in ("self", "cls") and any(isinstance(a, ast.Name) and a.id in ynames for a in n.args) and len(seen) < 8:
                        k = M.find_method(cls, mangle(f.cls.name if f.cls else cls.name, n.func.attr)) or M.find_method(cls, n.func.attr)
                        if k is not None:
                            work.append(k)
    return rr


# ------------------------------------------------------------------------------------------- R16.10 wrappers delegate to their namesake


@rule("C16")
def r16_10_weekday_navigation_delegates_to_namesake(ctx: Ctx) -> RuleResult:
    """LocalDateTime.next / previous and the DateAdjusters of the same names only wrap the LocalDate operation of the SAME name (the
    or-same adjusters wrap a test plus that operation).  A wrapper built from the opposite direction plus a week's correction
    (`next(...).plus_weeks(-1)`) agrees except when the value already falls on the requested weekday - and overflows at the end
    of the calendar.  Every such wrapper must call its namesake on the date and nothing else that moves the date."""
    rr = RuleResult("R16.10", "next / previous on LocalDateTime and in DateAdjusters delegate to the LocalDate operation of the same name, without further date arithmetic", min_instances=4)
    M = ctx.M
    for f in sorted(set(M.func_of_node.values()), key=lambda x: x.qual):
        if f.mod.rel not in ("pyoda_time/_local_date_time.py", "pyoda_time/_date_adjusters.py"):
            continue
        base = f.name.replace("_or_same", "")
        if base not in ("next", "previous") or isinstance(f.node, ast.Lambda):
            continue
        rr.inst()
        calls = [n.func.attr for n in ast.walk(f.node) if isinstance(n, ast.Call) and isinstance(n.func, ast.Attribute)]
        moving = [a for a in calls if a in ("next", "previous") or a.startswith(("plus_", "minus_", "with_"))]
        if moving and all(a == base for a in moving):
            rr.ok({"wrapper": f.qual, "delegates to": base})
        else:
            rr.fail(f.qual, f"{f.name} is built from {moving or calls}: it must delegate to LocalDate.{base} only (a detour through the opposite direction differs when the value already falls on the requested weekday)", ctx.loc(f))
    return rr


@rule("C16")
def r16_11_week_rules_ask_the_calculator(ctx: Ctx) -> RuleResult:
    """A week-year can be one less than the calendar's first year or one more than its last (R16.9), so the week-year rule takes
    year lengths and year starts from the calendar's CALCULATOR, which answers one year beyond.  The public CalendarSystem
    queries check their year argument against [min_year, max_year]: called with a week-year they raise for the dates of the
    first / last days of every calendar.  No method of the week-year rule passes a year to a range-checked CalendarSystem query."""
    rr = RuleResult("R16.11", "the week-year rule never passes a year to a range-checked public CalendarSystem query (week-years run one year beyond the calendar's years)", min_instances=3)
    M = ctx.M
    cs = M.cls("CalendarSystem", required=True)
    checked = {}
    for g in cs.all_defs:
        if isinstance(g.node, ast.Lambda) or g.name.startswith("_"):
            continue
        for n in own_nodes(g.node):
            if isinstance(n, ast.Call) and unparse(n.func).endswith("_check_argument_range") and len(n.args) >= 4 and isinstance(n.args[1], ast.Name) and "year" in n.args[1].id \
                    and "min_year" in unparse(n.args[2]) and "max_year" in unparse(n.args[3]):
                checked[g.name] = n.args[1].id
    if len(checked) < 3:
        raise AnalysisError(f"CalendarSystem: only {len(checked)} range-checked year queries found (expected get_days_in_year, get_days_in_month, is_leap_year ...)")
    c = M.cls("_SimpleWeekYearRule", required=True)
    for f in sorted(c.all_defs, key=lambda g: g.qual):
        if isinstance(f.node, ast.Lambda):
            continue
        rr.inst()
        bad = None
        for n in own_nodes(f.node):
            if isinstance(n, ast.Call) and isinstance(n.func, ast.Attribute) and n.func.attr in checked and "calendar" in unparse(n.func.value) and "_year_month_day_calculator" not in unparse(n.func.value):
                bad = n
        if bad is None:
            rr.ok({"fn": f.qual})
        else:
            rr.fail(f.qual, f"`{unparse(bad)[:90]}`: CalendarSystem.{bad.func.attr} rejects years outside [min_year, max_year], but the week-year asked about can be min_year - 1 or max_year + 1 (the last days of year 9999 belong to week-year 10000 under most rules): ask the calculator", ctx.loc(f, bad))
    return rr


@rule("C16")
def r16_12_nth_weekday_uses_the_real_month_length(ctx: Ctx) -> RuleResult:
    """The n-th-weekday constructor steps back a week when the 5th occurrence would lie beyond the end of the month.  Whether it
    does depends on the length of THAT month in THAT year (29 February 2024 is the fifth Thursday): the bound of the overshoot
    test is a days-in-month query that receives both the year and the month, never a static per-month table."""
    rr = RuleResult("R16.12", "the overshoot test of the n-th-weekday constructor compares with days_in_month(year, month) of the very year and month", min_instances=1)
    M = ctx.M
    f = M.func("LocalDate.from_year_month_week_and_day", required=True)
    from ..kit import inline_locals

    tests = [n for n in own_nodes(f.node) if isinstance(n, ast.If) and any(isinstance(x, ast.AugAssign) and isinstance(x.op, ast.Sub) and unparse(x.value) == "7" for x in ast.walk(n))]
    if not tests:
        raise AnalysisError(f"{f.qual}: the step back by 7 days (overshoot of the month) was not found")
    ps = [p.arg for p in f.value_params]
    for t in tests:
        rr.inst()
        v = inline_locals(f.node, t.test)
        calls = [c for c in ast.walk(v) if isinstance(c, ast.Call) and unparse(c.func).split(".")[-1] in ("get_days_in_month", "_get_days_in_month")]
        ok = any({a.id for a in c.args if isinstance(a, ast.Name)} >= {ps[0], ps[1]} for c in calls)
        if ok:
            rr.ok({"test": unparse(t.test)[:80]})
        else:
            rr.fail(f.qual, f"`{unparse(t.test)[:90]}` does not compare with the length of month `{ps[1]}` in year `{ps[0]}` (a days-in-month query receiving both): for a leap-year February the fifth occurrence on the 29th is taken for an overshoot", ctx.loc(f, t))
    return rr
