"""C02 - Calendar dates denote the physical day their published definitions prescribe.

Agreement of every date with an independent implementation over thousands of years is a value-level claim and is NOT
decided.  Decided are the constants and finite rules that the published definitions fix and that nothing else in the
code constrains (a shifted epoch or a wrong leap-pattern bit is self-consistent, so C01-style checks pass):

  R02.1  epochs: the day number of year 1's first day, of every arithmetic calculator instance (evaluated from the
         construction sites in CalendarSystem), equals the published epoch (fixed day numbers of Reingold & Dershowitz,
         re-based to the Unix epoch).
  R02.2  leap rules: each calculator's leap predicate, evaluated abstractly on every year of one full cycle, equals the
         published rule; the predicate depends on the year only through a remainder by a divisor of the cycle length
         (checked on the syntax), so one cycle covers all years.
  R02.3  month lengths: the reported days-in-month of a common and a leap year equal the published month tables.
  R02.4  weekday: the day-of-week formula yields Thursday for day 0 (1970-01-01) and steps cyclically through 1..7 over two
         weeks around the epoch, both arms of the formula included; it depends on the day number only modulo 7.
"""
from __future__ import annotations

import ast
from typing import Any, Callable

from ..absint import Iv, Obj
from ..calendars import CalcInstance, calculator_instances
from ..core import Ctx, RuleResult, rule
from ..kit import own_nodes
from ..model import UNKNOWN, AnalysisError, Func, mangle, unparse
from ..oblig import interp

UNIX_EPOCH_RD = 719163  # R.D. (fixed day number) of 1970-01-01; R.D. 1 = 0001-01-01 (proleptic Gregorian)

# published epochs as fixed day numbers (Calendrical Calculations, 3rd ed., table 1.2 / chapters 3-7, 15)
EPOCH_RD = {
    "gregorian": 1,            # 0001-01-01 (proleptic Gregorian)
    "julian": -1,              # 0001-01-01 Julian = 0000-12-30 Gregorian
    "coptic": 103605,          # 0284-08-29 Julian
    "islamic-civil": 227015,   # 0622-07-16 Julian (Friday epoch)
    "islamic-astronomical": 227014,  # 0622-07-15 Julian (Thursday epoch)
    "hebrew": -1373427,        # 1 Tishri AM 1 = -3761-10-07 Julian
    "persian-arithmetic": 226896,    # 0622-03-19 Julian
    "persian-simple": 226895,  # the .NET BCL (pre-4.6) 33-year table starts one day earlier
}


def _kind(ci: CalcInstance) -> str | None:
    c = ci.cls
    if c == "_GregorianYearMonthDayCalculator":
        return "gregorian"
    if c == "_JulianYearMonthDayCalculator":
        return "julian"
    if c == "_CopticYearMonthDayCalculator":
        return "coptic"
    if c == "_HebrewYearMonthDayCalculator":
        return "hebrew"
    if c == "_PersianArithmeticYearMonthDayCalculator":
        return "persian-arithmetic"
    if c == "_PersianSimpleYearMonthDayCalculator":
        return "persian-simple"
    if c == "_IslamicYearMonthDayCalculator":
        return "islamic-astronomical" if "epoch=1" in ci.label else "islamic-civil"
    return None  # data-driven calendars (Um Al Qura, Persian astronomical, Badi): not arithmetic, outside the property


@rule("C02")
def r02_1_epochs(ctx: Ctx) -> RuleResult:
    rr = RuleResult("R02.1", "epoch constants: the day number of the first day of year 1 of every arithmetic calculator equals the published epoch", min_instances=14)
    M = ctx.M
    # the enum values the labels rely on
    if M.fold_class_const("IslamicEpoch", "ASTRONOMICAL") != 1 or M.fold_class_const("IslamicEpoch", "CIVIL") != 2:
        raise AnalysisError("IslamicEpoch members are no longer ASTRONOMICAL=1 / CIVIL=2")
    fld = mangle("_YearMonthDayCalculator", "__days_at_start_of_year_1")
    for ci in calculator_instances(ctx):
        k = _kind(ci)
        if k is None:
            continue
        rr.inst()
        got = ci.obj.fields.get(fld)
        want = EPOCH_RD[k] - UNIX_EPOCH_RD
        if isinstance(got, Iv) and got.const and got.lo == want:
            rr.ok({"calculator": ci.label, "days_at_start_of_year_1": want, "published_epoch_RD": EPOCH_RD[k]})
        else:
            rr.fail(ci.label, f"year 1 starts on day {got} (days since 1970-01-01); the published epoch is R.D. {EPOCH_RD[k]} = day {want}: every date of this calendar is shifted", M.cls(ci.cls).mod.rel)
    return rr


# ------------------------------------------------------------------------------------------- R02.2 leap rules


def _greg(y: int) -> bool:
    return y % 4 == 0 and (y % 100 != 0 or y % 400 == 0)


ISLAMIC_PATTERNS = {  # leap years within the 30-year cycle (year 30 = remainder 0)
    "BASE15": {2, 5, 7, 10, 13, 15, 18, 21, 24, 26, 29},
    "BASE16": {2, 5, 7, 10, 13, 16, 18, 21, 24, 26, 29},
    "INDIAN": {2, 5, 8, 10, 13, 16, 19, 21, 24, 27, 29},
    "HABASH_AL_HASIB": {2, 5, 8, 11, 13, 16, 19, 21, 24, 27, 30},
}


def _persian_arithmetic(y: int) -> bool:
    off = y - 474 if y > 0 else y - 473
    cyc = off % 2820 + 474
    return ((cyc + 38) * 31) % 128 < 31


def _leap_spec(ctx: Ctx, ci: CalcInstance) -> tuple[Callable[[int], bool], int, range] | None:
    M = ctx.M
    k = _kind(ci)
    if k == "gregorian":
        return _greg, 400, range(1600, 2000)
    if k == "julian":
        return (lambda y: y % 4 == 0), 4, range(-8, 9)
    if k == "coptic":
        return (lambda y: y % 4 == 3), 4, range(1, 13)
    if k == "hebrew":
        return (lambda y: (7 * y + 1) % 19 < 7), 19, range(5700, 5719)
    if k == "persian-simple":
        return (lambda y: y % 33 in (1, 5, 9, 13, 17, 22, 26, 30)), 33, range(1, 34)
    if k == "persian-arithmetic":
        return _persian_arithmetic, 2820, range(475, 475 + 2820)
    if k in ("islamic-civil", "islamic-astronomical"):
        pat = int(ci.label.split("leap_year_pattern=")[1].split(",")[0])
        name = next((n for n in ISLAMIC_PATTERNS if M.fold_class_const("IslamicLeapYearPattern", n) == pat), None)
        if name is None:
            raise AnalysisError(f"IslamicLeapYearPattern value {pat} has no published pattern")
        s = ISLAMIC_PATTERNS[name]
        return (lambda y, s=s: (y % 30 or 30) in s), 30, range(1, 31)
    return None


def _periodic_in(f: Func, cycle: int, M: Any) -> str | None:
    """None when every use of the `year` parameter sits under a remainder by a divisor of `cycle` (through +, -, * by constants and
    conditional selection only); otherwise the offending use."""
    ps = [a.arg for a in f.value_params]
    if not ps:
        return "no year parameter"
    year = ps[0]
    tainted = {year}
    # propagate through simple assignments (offset_year = year - 474 ...)
    changed = True
    while changed:
        changed = False
        for n in own_nodes(f.node):
            if isinstance(n, (ast.Assign, ast.AnnAssign)) and n.value is not None:
                tg = n.targets[0] if isinstance(n, ast.Assign) else n.target
                if isinstance(tg, ast.Name) and tg.id not in tainted and any(isinstance(x, ast.Name) and x.id in tainted for x in ast.walk(n.value)) and not _reduced(n.value, tainted, cycle, f, M):
                    tainted.add(tg.id)
                    changed = True
    for n in own_nodes(f.node):
        if isinstance(n, ast.Name) and n.id in tainted and isinstance(n.ctx, ast.Load):
            cur: ast.AST = n
            ok = False
            while True:
                par = getattr(cur, "_parent", None)
                if par is None or isinstance(par, (ast.stmt,)) and not isinstance(par, (ast.Assign, ast.AnnAssign, ast.Return, ast.Expr)):
                    break
                if _is_mod(par, cur, cycle, f, M):
                    ok = True
                    break
                if isinstance(par, ast.Compare) and isinstance(getattr(par, "_parent", None), ast.IfExp) and getattr(par, "_parent").test is par:
                    ok = True  # sign test selecting between two reduced forms
                    break
                if isinstance(par, (ast.Assign, ast.AnnAssign)):
                    tg = par.targets[0] if isinstance(par, ast.Assign) else par.target
                    ok = isinstance(tg, ast.Name) and tg.id in tainted  # flows on; its own uses are checked
                    break
                if isinstance(par, ast.stmt):
                    break
                cur = par
            if not ok:
                return f"`{unparse(getattr(n, '_parent', n))[:60]}` uses the year outside a remainder by a divisor of {cycle}"
    return None


def _is_mod(par: ast.AST, child: ast.AST, cycle: int, f: Func, M: Any) -> bool:
    def divides(e: ast.expr) -> bool:
        v = M.fold(e, f.cls, f.mod)
        return isinstance(v, int) and v > 0 and cycle % v == 0

    if isinstance(par, ast.BinOp) and par.left is child or isinstance(par, ast.BinOp) and _contains(par.left, child):
        if isinstance(par.op, ast.Mod):
            return divides(par.right)
        if isinstance(par.op, ast.BitAnd):
            v = M.fold(par.right, f.cls, f.mod)
            return isinstance(v, int) and v > 0 and (v + 1) & v == 0 and cycle % (v + 1) == 0
    if isinstance(par, ast.Call) and unparse(par.func).endswith("_csharp_modulo") and len(par.args) == 2 and (par.args[0] is child or _contains(par.args[0], child)):
        return divides(par.args[1])
    return False


def _contains(a: ast.AST, b: ast.AST) -> bool:
    return any(x is b for x in ast.walk(a))


def _reduced(e: ast.expr, tainted: set[str], cycle: int, f: Func, M: Any) -> bool:
    """Every tainted name inside e sits under a remainder by a divisor of the cycle (so the assigned value is periodic)."""
    for n in ast.walk(e):
        if isinstance(n, ast.Name) and n.id in tainted:
            cur: ast.AST = n
            ok = False
            while cur is not e:
                par = getattr(cur, "_parent", None)
                if par is None:
                    break
                if _is_mod(par, cur, cycle, f, M):
                    ok = True
                    break
                if isinstance(par, ast.Compare) and isinstance(getattr(par, "_parent", None), ast.IfExp) and getattr(par, "_parent").test is par:
                    ok = True
                    break
                cur = par
            if not ok:
                return False
    return True


@rule("C02")
def r02_2_leap_rules(ctx: Ctx) -> RuleResult:
    rr = RuleResult("R02.2", "leap-year rules: the predicate of every arithmetic calculator equals the published rule on every year of one full cycle (400 / 4 / 30 / 19 / 33 / 2820 years) and depends on the year only through remainders by divisors of the cycle", min_instances=14)
    M = ctx.M
    for ci in calculator_instances(ctx):
        spec = _leap_spec(ctx, ci)
        if spec is None:
            continue
        want, cycle, years = spec
        cls = M.cls(ci.cls)
        f = M.find_method(cls, "_is_leap_year")
        if f is None:
            raise AnalysisError(f"{ci.cls}._is_leap_year missing")
        rr.inst()
        bad = None
        for y in years:
            I = interp(ctx)
            I.max_depth = 6
            rets, _ = I.analyse(f, self_obj=Obj(ci.cls, dict(ci.obj.fields)), params={f.value_params[0].arg: Iv(y, y)})
            rr.states += 1
            vals = {int(v.lo) for v, _ in rets if isinstance(v, Iv) and v.const}
            if len(rets) != 1 or vals != {int(want(y))}:
                bad = (y, [repr(v) for v, _ in rets])
                break
        if bad is not None:
            rr.fail(ci.label, f"year {bad[0]}: leap predicate evaluates to {bad[1]}, the published rule says {want(bad[0])}", ctx.loc(f))
            continue
        # periodicity by form: follow the delegation to the function that actually computes
        g = f
        for _ in range(3):
            calls = [n for n in own_nodes(g.node) if isinstance(n, ast.Call)]
            if len(g.body) == 1 and isinstance(g.body[0], ast.Return) and isinstance(g.body[0].value, ast.Call) and not unparse(g.body[0].value.func).endswith("_csharp_modulo"):
                tg, _ = ctx.R.callees(g.body[0].value, g, count=False)
                if len(tg) == 1 and not isinstance(tg[0].node, ast.Lambda):
                    g = tg[0]
                    continue
            break
        why = _periodic_in(g, cycle, M)
        if why is None:
            rr.ok({"calculator": ci.label, "cycle": cycle, "years_evaluated": len(years), "periodic_by_form": g.qual})
        else:
            rr.undecided.append(f"{ci.label}: the rule holds on the {len(years)} years evaluated, but its periodicity could not be read off the code ({why})")
            rr.ok({"calculator": ci.label, "cycle": cycle, "years_evaluated": len(years)})
    return rr


# ------------------------------------------------------------------------------------------- R02.3 month lengths

GREG_MONTHS = [31, 28, 31, 30, 31, 30, 31, 31, 30, 31, 30, 31]
MONTHS = {
    "gregorian": (GREG_MONTHS, lambda leap: [31, 29 if leap else 28] + GREG_MONTHS[2:], 1900, 1904),
    "julian": (GREG_MONTHS, lambda leap: [31, 29 if leap else 28] + GREG_MONTHS[2:], 1901, 1900),
    "coptic": (None, lambda leap: [30] * 12 + [6 if leap else 5], 1701, 1703),
    "islamic": (None, lambda leap: [30, 29] * 5 + [30, 30 if leap else 29], 1, 2),
    "persian": (None, lambda leap: [31] * 6 + [30] * 5 + [30 if leap else 29], 2, 1),
}


@rule("C02")
def r02_3_month_lengths(ctx: Ctx) -> RuleResult:
    rr = RuleResult("R02.3", "month lengths of a common and a leap year equal the published month tables (Gregorian/Julian 31-28/29-..., Coptic 12x30+5/6, tabular Islamic 30/29 alternating with a 30-day last month in leap years, Persian 6x31+5x30+29/30)", min_instances=10)
    M = ctx.M
    done: set[str] = set()
    for ci in calculator_instances(ctx):
        k = _kind(ci)
        if k is None or k == "hebrew":
            continue  # Hebrew month lengths depend on the molad arithmetic (year length), not decided here
        fam = "islamic" if k.startswith("islamic") else "persian" if k.startswith("persian") else k
        if ci.cls in done and fam != "islamic":
            continue
        done.add(ci.cls)
        table = MONTHS[fam][1]
        cls = M.cls(ci.cls)
        f = M.find_method(cls, "_get_days_in_month")
        if f is None:
            raise AnalysisError(f"{ci.cls}._get_days_in_month missing")
        spec = _leap_spec(ctx, ci)
        assert spec is not None
        want_leap, cycle, years = spec
        ys = list(years)
        common = next(y for y in ys if not want_leap(y))
        leapy = next(y for y in ys if want_leap(y))
        for y, leap in ((common, False), (leapy, True)):
            rr.inst()
            got = []
            for m in range(1, len(table(leap)) + 1):
                I = interp(ctx)
                I.max_depth = 6
                rets, _ = I.analyse(f, self_obj=Obj(ci.cls, dict(ci.obj.fields)), params={"year": Iv(y, y), "month": Iv(m, m)})
                rr.states += 1
                vals = [int(v.lo) for v, _ in rets if isinstance(v, Iv) and v.const]
                got.append(vals[0] if len(vals) == 1 and len(rets) == 1 else None)
            if got == table(leap):
                rr.ok({"calculator": ci.label, "year": y, "leap": leap, "months": got})
            else:
                rr.fail(ci.label, f"{'leap' if leap else 'common'} year {y}: month lengths {got}, published {table(leap)}", ctx.loc(f))
    return rr


# ------------------------------------------------------------------------------------------- R02.4 weekday


@rule("C02")
def r02_4_weekday_anchor(ctx: Ctx) -> RuleResult:
    rr = RuleResult("R02.4", "ISO day-of-week from the day number: day 0 (1970-01-01) is Thursday, the value steps through 1..7 cyclically on 15 consecutive days around the epoch (both arms of the formula), and the formula uses the day number only modulo 7", min_instances=15)
    M = ctx.M
    f = M.func("CalendarSystem._get_day_of_week")
    for d in range(-8, 7):
        rr.inst()
        rr.states += 1
        I = interp(ctx)
        I.max_depth = 4
        I.stubs["*._get_days_since_epoch"] = lambda a, k, r, d=d: Iv(d, d)
        rets, _ = I.analyse(f, self_obj=Obj("CalendarSystem"))
        vals = {int(v.lo) for v, _ in rets if isinstance(v, Iv) and v.const}
        want = (d + 3) % 7 + 1  # Monday=1 ... Sunday=7; 1970-01-01 was a Thursday
        if vals == {want} and len(rets) == 1:
            rr.ok({"day_number": d, "iso_day_of_week": want})
        else:
            rr.fail(f.qual, f"day number {d}: day of week {[repr(v) for v, _ in rets]}, expected {want} (1970-01-01 is a Thursday)", ctx.loc(f))
    # dependence on the day number only through a remainder by 7
    uses = [n for n in own_nodes(f.node) if isinstance(n, ast.Name) and n.id == "days_since_epoch" and isinstance(n.ctx, ast.Load)]
    for n in uses:
        par = getattr(n, "_parent", None)
        gp = getattr(par, "_parent", None)
        in_mod = isinstance(gp, ast.Call) and unparse(gp.func).endswith("_csharp_modulo") and M.fold(gp.args[1], f.cls, f.mod) == 7 or isinstance(par, ast.BinOp) and isinstance(par.op, ast.Mod)
        in_sign_test = isinstance(par, ast.Compare)
        if not (in_mod or in_sign_test):
            rr.undecided.append(f"use `{unparse(par)[:50]}` of the day number is not under a remainder by 7: periodicity not read off the code")
    return rr


# shared with C13: the Hebrew / generic year-start caches feed every date computation; a slot trusted for the wrong year
# makes month lengths and day numbers depend on what was asked before (reported under its home id R13.1)
# (cross-registration moved to sa/rules/shared.py: SHARED)

# (cross-registration moved to sa/rules/shared.py: SHARED)


# ------------------------------------------------------------------------------------------- R02.5 / R02.6


@rule("C02")
def r02_5_leap_decisions(ctx: Ctx) -> RuleResult:
    """Wherever the calendar code chooses between a leap and a common alternative (month-length tables, 365/366, 354/355 ...),
    the choice is made by the calculator's leap predicate - not by a private arithmetic test on the year, which is how a table
    builder or fast path ends up with a different rule (Julian instead of Gregorian) than the calculator it serves."""
    import re

    rr = RuleResult("R02.5", "every leap/common selection in the calendar calculators is decided by a leap-year predicate, never by inline arithmetic on the year", min_instances=6)
    pat = re.compile(r"LEAP|\b36[56]\b|\b35[45]\b")
    for f in sorted(set(ctx.M.func_of_node.values()), key=lambda x: x.qual):
        if "/calendars/" not in f.mod.rel or isinstance(f.node, ast.Lambda) or re.search(r"is_\w*leap", f.name) is not None:
            continue
        from ..kit import inline_locals

        for n in own_nodes(f.node):
            if not isinstance(n, (ast.If, ast.IfExp)):
                continue
            arms = (n.body if isinstance(n.body, list) else [n.body]) + (n.orelse if isinstance(n.orelse, list) else [n.orelse])
            if not pat.search(" ".join(unparse(a) for a in arms)):
                continue
            test = inline_locals(f.node, n.test)
            # locals that are assigned more than once (e.g. `is_leap`, recomputed after the year is bumped) are not inlined:
            # look at every value they are given
            exprs: list[ast.AST] = [test]
            for nm in {x.id for x in ast.walk(test) if isinstance(x, ast.Name)}:
                for a in own_nodes(f.node):
                    if isinstance(a, (ast.Assign, ast.AnnAssign)) and getattr(a, "value", None) is not None:
                        tg = a.targets if isinstance(a, ast.Assign) else [a.target]
                        if any(isinstance(t, ast.Name) and t.id == nm for t in tg):
                            exprs.append(a.value)
            has_pred = all(any(isinstance(c, ast.Call) and re.search(r"is_\w*leap", unparse(c.func)) is not None for c in ast.walk(e)) for e in exprs if not isinstance(e, ast.Name)) and any(
                isinstance(c, ast.Call) and re.search(r"is_\w*leap", unparse(c.func)) is not None for e in exprs for c in ast.walk(e))
            arith = [b for e in exprs for b in ast.walk(e) if isinstance(b, ast.BinOp) and isinstance(b.op, (ast.Mod, ast.BitAnd)) and any(isinstance(x, ast.Name) and "year" in x.id for x in ast.walk(b))]
            if not has_pred and not arith:
                continue  # not a leap decision (range / era / month tests)
            rr.inst()
            if arith:
                rr.fail(f.qual, f"chooses between leap and common alternatives on `{unparse(n.test)[:70]}`, which is (also) computed by inline arithmetic on the year (`{unparse(arith[0])[:40]}`) instead of the calculator's leap predicate", ctx.loc(f, n))
            else:
                rr.ok({"fn": f.qual, "test": unparse(n.test)[:70]})
    # second clause, whole package: the 4 / 400-year arithmetic of leap rules appears only inside the leap predicates themselves
    for f in sorted(set(ctx.M.func_of_node.values()), key=lambda x: x.qual):
        if isinstance(f.node, ast.Lambda) or "_compatibility" in f.mod.rel:
            continue
        for b in own_nodes(f.node):
            hit = None
            if isinstance(b, ast.BinOp) and isinstance(b.op, (ast.Mod, ast.BitAnd)) and isinstance(b.right, ast.Constant) and b.right.value in ((3,) if isinstance(b.op, ast.BitAnd) else (4, 400)):
                if any("year" in (x.id if isinstance(x, ast.Name) else x.attr).lower() for x in ast.walk(b.left) if isinstance(x, (ast.Name, ast.Attribute))):
                    hit = b
            elif isinstance(b, ast.Call) and unparse(b.func).endswith("_csharp_modulo") and len(b.args) == 2 and isinstance(b.args[1], ast.Constant) and b.args[1].value in (4, 400) and "year" in unparse(b.args[0]).lower():
                hit = b
            if hit is None:
                continue
            rr.inst()
            if re.search(r"is_\w*leap", f.name) is not None:
                rr.ok({"predicate": f.qual, "term": unparse(hit)})
            else:
                rr.fail(f.qual, f"`{unparse(hit)}`: leap-year arithmetic outside a leap predicate - a private approximation of the rule (every 4th year) disagrees with the calendar in century years", ctx.loc(f, hit))
    return rr


@rule("C02")
def r02_6_day_of_year_decomposition(ctx: Ctx) -> RuleResult:
    """year + day-of-year -> month/day: evaluated (abstract interpreter on exact integers, nothing is run) for a common and a leap
    year of each arithmetic calculator and compared with the published month tables; quick tier: the first two and last two days
    of every month, thorough tier: every day of both years."""
    rr = RuleResult("R02.6", "day-of-year decomposes into the month and day given by the published month tables (first/last days of every month in a common and a leap year; every day in the thorough tier)", min_instances=8)
    M = ctx.M
    done: set[str] = set()
    for ci in calculator_instances(ctx):
        k = _kind(ci)
        if k is None or k == "hebrew":
            continue
        fam = "islamic" if k.startswith("islamic") else "persian" if k.startswith("persian") else k
        if ci.cls in done:
            continue
        done.add(ci.cls)
        table = MONTHS[fam][1]
        cls = M.cls(ci.cls)
        f = M.find_method(cls, "_get_year_month_day_from_year_and_day_of_year")
        if f is None:
            raise AnalysisError(f"{ci.cls}._get_year_month_day_from_year_and_day_of_year missing")
        spec = _leap_spec(ctx, ci)
        assert spec is not None
        want_leap, cycle, years = spec
        ys = list(years)
        for y, leap in ((next(y for y in ys if not want_leap(y)), False), (next(y for y in ys if want_leap(y)), True)):
            rr.inst()
            months = table(leap)
            expected: list[tuple[int, int]] = [(m + 1, d + 1) for m, n in enumerate(months) for d in range(n)]
            days = range(1, len(expected) + 1)
            if ctx.tier == "quick":
                days = [i + 1 for i, (m, d) in enumerate(expected) if d <= 2 or d >= months[m - 1] - 1]
            bad = None
            pnames = [a.arg for a in f.value_params]
            for doy in days:
                I = interp(ctx)
                I.max_depth = 6
                got: list[tuple] = []

                def on_call(c, callee, bound, st, fn, _got=got):  # type: ignore[no-untyped-def]
                    if callee.cls is not None and callee.cls.name == "_YearMonthDay" and "month" in bound and "day" in bound:
                        _got.append((bound.get("month"), bound.get("day")))

                I.on_call = on_call
                I.hooks_all_depths = True
                I.analyse(f, self_obj=Obj(ci.cls, dict(ci.obj.fields)), params={pnames[0]: Iv(y, y), pnames[1]: Iv(doy, doy)})
                rr.states += 1
                vals = {(int(m.lo), int(d.lo)) for m, d in got if isinstance(m, Iv) and isinstance(d, Iv) and m.const and d.const}
                if vals != {expected[doy - 1]} or len(vals) != len({(repr(m), repr(d)) for m, d in got}):
                    bad = (doy, sorted(vals) or [(repr(m), repr(d)) for m, d in got][:2])
                    break
            if bad is None:
                rr.ok({"calculator": ci.cls, "year": y, "leap": leap, "days_evaluated": len(list(days))})
            else:
                rr.fail(ci.cls, f"{'leap' if leap else 'common'} year {y}, day-of-year {bad[0]}: decomposed into {bad[1]}, the month tables give {expected[bad[0] - 1]}", ctx.loc(f))
    return rr


# ------------------------------------------------------------------------------------------- R02.7 Hebrew molad arithmetic


def _hebrew_elapsed_days_spec(year: int) -> int:
    """Day number (from the Hebrew epoch) of 1 Tishri: the published molad arithmetic (Dershowitz & Reingold, Calendrical
    Calculations, `hebrew-calendar-elapsed-days`): mean lunation 29d 12h 793p, molad of year 1 at 5h 204p on day 1 (Monday),
    and the four postponement rules."""
    leap = lambda y: (7 * y + 1) % 19 < 7  # noqa: E731
    months = 235 * ((year - 1) // 19) + 12 * ((year - 1) % 19) + (7 * ((year - 1) % 19) + 1) // 19
    parts = 204 + 793 * (months % 1080)
    hours = 5 + 12 * months + 793 * (months // 1080) + parts // 1080
    day = 1 + 29 * months + hours // 24
    p = 1080 * (hours % 24) + parts % 1080
    if p >= 19440 or (day % 7 == 2 and p >= 9924 and not leap(year)) or (day % 7 == 1 and p >= 16789 and leap(year - 1)):
        day += 1
    if day % 7 in (0, 3, 5):
        day += 1
    return day


def _hebrew_critical_years(margin: int = 40, limit: int = 260) -> list[int]:
    """Years whose molad falls within `margin` parts of a decision threshold of the published algorithm (a postponement limit or
    midnight): the years on which a slightly wrong constant changes the answer.  Computed from the specification only."""
    leap = lambda y: (7 * y + 1) % 19 < 7  # noqa: E731
    out = []
    for year in range(1, 10000):
        months = 235 * ((year - 1) // 19) + 12 * ((year - 1) % 19) + (7 * ((year - 1) % 19) + 1) // 19
        parts = 204 + 793 * (months % 1080)
        hours = 5 + 12 * months + 793 * (months // 1080) + parts // 1080
        day = 1 + 29 * months + hours // 24
        p = 1080 * (hours % 24) + parts % 1080
        near = [abs(p - 19440), p, 25920 - p]
        if day % 7 == 2 and not leap(year):
            near.append(abs(p - 9924))
        if day % 7 == 1 and leap(year - 1):
            near.append(abs(p - 16789))
        if min(near) <= margin:
            out.append(year)
    return out[:: max(1, len(out) // limit)]


@rule("C02")
def r02_7_hebrew_molad(ctx: Ctx) -> RuleResult:
    """The start of every Hebrew year (hence every year length, hence the lengths of Heshvan and Kislev) comes from the molad
    arithmetic.  `__elapsed_days_no_cache` is evaluated by the abstract interpreter on exact years and compared with the
    published algorithm re-stated in the checker: quick tier every 61st year of 1..9999, the first 40 years and the years whose molad lies within 40 parts of a decision
    threshold of the published algorithm (where a slightly wrong constant shows), thorough tier
    every year.  A wrong constant (lunation parts, epoch molad, a postponement threshold) shifts some year start."""
    rr = RuleResult("R02.7", "Hebrew year starts: the molad / postponement arithmetic equals the published algorithm on the years evaluated (sample in the quick tier, all 9999 years in the thorough tier)", min_instances=1)
    M = ctx.M
    c = M.cls("_HebrewScripturalCalculator")
    f = next((g for g in c.all_defs if g.name.endswith("elapsed_days_no_cache")), None)
    if f is None:
        raise AnalysisError("_HebrewScripturalCalculator.__elapsed_days_no_cache missing")
    years = sorted(set(range(1, 41)) | set(range(1, 10000, 61)) | {9999} | set(_hebrew_critical_years())) if ctx.tier == "quick" else range(1, 10000)
    rr.inst()
    bad = None
    n = 0
    for y in years:
        I = interp(ctx)
        I.max_depth = 6
        rets, _ = I.analyse(f, params={f.value_params[0].arg: Iv(y, y)})
        rr.states += 1
        n += 1
        vals = {int(v.lo) for v, _ in rets if isinstance(v, Iv) and v.const}
        if len(rets) < 1 or vals != {_hebrew_elapsed_days_spec(y)} or len(vals) != 1:
            bad = (y, sorted(vals) or [repr(v) for v, _ in rets][:2])
            break
    if bad is None:
        rr.ok({"function": f.qual, "years_evaluated": n})
    else:
        rr.fail(f.qual, f"year {bad[0]}: the code places 1 Tishri on day {bad[1]}, the published molad arithmetic on day {_hebrew_elapsed_days_spec(bad[0])}", ctx.loc(f))
    return rr


# shared with C01: the two directions of the within-year conversion (day-of-year -> month/day and month -> first day) of every
# calculator and year kind, Hebrew included (home ids R01.5 / R01.5b)
# (cross-registration moved to sa/rules/shared.py: SHARED)

# (cross-registration moved to sa/rules/shared.py: SHARED)


# ------------------------------------------------------------------------------------------- R02.8 registry round trip


@rule("C02")
def r02_8_registry_round_trip(ctx: Ctx) -> RuleResult:
    """Calendars are reachable two ways: by ordinal / id (`_for_ordinal_uncached`) and through the parameterised factories
    (`get_islamic_calendar(pattern, epoch)`, `get_hebrew_calendar(numbering)`).  Both are memoised in one registry keyed by
    ordinal, so whichever path runs first fixes the object: an arm of the ordinal dispatch that asks the factory for other
    parameters than the ones the factory itself files under that ordinal makes the calendar behind an id depend on call order and
    disagree with its name (epoch one day off).  The two tables are read from the match statements and compared."""
    rr = RuleResult("R02.8", "ordinal dispatch and parameterised calendar factories agree: each ordinal arm passes exactly the parameters the factory files under that ordinal", min_instances=8)
    M = ctx.M
    cs = M.cls("CalendarSystem")
    disp = M.find_method(cs, "_for_ordinal_uncached")
    if disp is None:
        raise AnalysisError("CalendarSystem._for_ordinal_uncached missing")
    from ..kit import bind_args

    def last(e: ast.expr) -> str:
        return unparse(e).split(".")[-1]

    # factories: (parameter values by name) -> ordinal name, read from their match statements
    factories: dict[str, dict[tuple, str]] = {}
    for fname in ("get_islamic_calendar", "get_hebrew_calendar"):
        f = M.find_method(cs, fname)
        if f is None:
            continue
        table: dict[tuple, str] = {}
        for m in own_nodes(f.node):
            if not isinstance(m, ast.Match):
                continue
            subj = [x.id for x in (m.subject.elts if isinstance(m.subject, ast.Tuple) else [m.subject]) if isinstance(x, ast.Name)]
            for c in m.cases:
                pats = c.pattern.patterns if isinstance(c.pattern, ast.MatchSequence) else [c.pattern]
                if not all(isinstance(p, ast.MatchValue) for p in pats) or len(pats) != len(subj):
                    continue
                key = tuple(sorted(zip(subj, (last(p.value) for p in pats))))
                ords = [last(x) for b in c.body for x in ast.walk(b) if isinstance(x, ast.Attribute) and unparse(x).startswith("_CalendarOrdinal.")]
                if len(set(ords)) == 1:
                    table[key] = ords[0]
        factories[fname] = table
    if not factories.get("get_islamic_calendar"):
        raise AnalysisError("get_islamic_calendar: (epoch, pattern) -> ordinal table not found")
    for m in own_nodes(disp.node):
        if not isinstance(m, ast.Match):
            continue
        for c in m.cases:
            if not isinstance(c.pattern, ast.MatchValue):
                continue
            ordn = last(c.pattern.value)
            for x in (y for b in c.body for y in ast.walk(b)):
                if isinstance(x, ast.Call) and isinstance(x.func, ast.Attribute) and x.func.attr in factories:
                    f = M.find_method(cs, x.func.attr)
                    b = bind_args(x, f)
                    key = tuple(sorted((p, last(a)) for p, a in b.items()))
                    rr.inst()
                    filed = factories[x.func.attr].get(key)
                    if filed == ordn:
                        rr.ok({"ordinal": ordn, "factory": x.func.attr, "parameters": dict(key)})
                    else:
                        rr.fail(disp.qual, f"the arm for {ordn} asks {x.func.attr}({', '.join(f'{p}={v}' for p, v in key)}), which the factory files under {filed or 'no ordinal'}: the calendar behind {ordn} depends on which path created it first", ctx.loc(disp, x))
    return rr
